"""
Executable form of the property statements (plain Python, no solver): used to
replay counter-models on the real code and for the bounded witness searches.
Never used to establish a property.
"""
from collections import OrderedDict

MULTI = ("ATTACKS", "DISPLAYBPM")
SIX = ("STEPSTYPE", "DESCRIPTION", "DIFFICULTY", "METER", "RADARVALUES", "NOTES")


def rule_value(key, comps):
    """C03: ATTACKS/DISPLAYBPM keep all their colon-separated components, others only the first; key-only: no value"""
    if len(comps) < 2:
        return None
    if key in MULTI:
        return ":".join(comps[1:])
    return comps[1]


def load_sm(params):
    """documented SM loading rules applied to a list of component tuples -> (OrderedDict, [chart dict + extradata])"""
    props, charts = OrderedDict(), []
    for comps in params:
        key = comps[0].upper()
        if key == "NOTES":
            vals = list(comps[1:])
            if len(vals) < 6:
                raise ValueError("fewer than six chart components")
            ch = OrderedDict((f, v.strip()) for f, v in zip(SIX, vals))
            charts.append((ch, vals[6:] if len(vals) > 6 else None))
        else:
            props[key] = rule_value(key, comps)
    return props, charts


def load_ssc(params):
    props, charts = OrderedDict(), []
    cur = None
    for comps in params:
        key = comps[0].upper()
        if key == "NOTEDATA":
            if cur is not None:
                charts.append(cur)
            cur = OrderedDict()
        elif cur is not None:
            cur[key] = rule_value(key, comps)
        else:
            props[key] = rule_value(key, comps)
    if cur is not None:
        charts.append(cur)
    return props, charts


def msd_text(params, sep="\n"):
    from msdparser import MSDParameter
    return sep.join(str(MSDParameter(tuple(cs))) for cs in params)


def safe_component(s):
    """outside msdparser's escaping gaps (the properties' own exclusion list)"""
    import re
    if "///" in s:
        return False
    if re.search(r"(^|[\r\n])[:;\\]*#", s):
        return False
    return True


def check_sm_load(params, strict=True):
    """real SMSimfile on the text of `params` vs the documented rules; returns a failure description or None"""
    from simfile.sm import SMSimfile
    text = msd_text(params)
    try:
        exp = load_sm(params)
    except ValueError:
        exp = "ValueError"
    try:
        sf = SMSimfile(string=text, strict=strict)
        got = (OrderedDict(sf.items()), [(OrderedDict(c.items()), c.extradata) for c in sf.charts])
    except ValueError:
        got = "ValueError"
    except Exception as e:
        got = f"raised {type(e).__name__}: {e}"
    if got != exp:
        return f"loaded {got!r}; the documented rules give {exp!r}"
    return None


def check_ssc_load(params, strict=True):
    from simfile.ssc import SSCSimfile
    text = msd_text(params)
    exp = load_ssc(params)
    try:
        sf = SSCSimfile(string=text, strict=strict)
        got = (OrderedDict(sf.items()), [OrderedDict(c.items()) for c in sf.charts])
    except Exception as e:
        got = f"raised {type(e).__name__}: {e}"
    if got != exp:
        return f"loaded {got!r}; the documented rules give {exp!r}"
    return None
