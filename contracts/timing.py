"""
Sidecar contracts shared by the timing properties (C11-C15): spec functions and
callee contracts.  Nothing here is imported by the repository.
"""
from __future__ import annotations

import fractions
import z3

from pyvc.values import strval, SV, STR, OSTR, INT, BOOL, FRAC, DEC, FLOAT, BEAT, TNT, TSeq, term, is_sym, fresh_term
from pyvc import omap as O
from pyvc import stdmodels as SM
from pyvc.execu import HObj, NTVal

# the eleven chart timing properties, from the statement of C15
CHART_TIMING_KEYS = ("BPMS", "STOPS", "DELAYS", "TIMESIGNATURES", "TICKCOUNTS", "COMBOS", "WARPS",
                     "SPEEDS", "SCROLLS", "FAKES", "LABELS")
SPLIT_VERSION = fractions.Fraction(0.7)      # the double nearest to 0.7, as float("0.7") gives

NONE = OSTR.lift(None)


def oget(m, key):
    """dict.get(key) on an ordered map: Optional[str] term"""
    k = strval(key) if isinstance(key, str) else key
    return z3.If(O.om_has(m, k), O.om_get(m, k), NONE)


def attr_value(m, name, alias=None):
    """value an item_property attribute reads (C18's rule)"""
    n = strval(name)
    if not alias:
        return oget(m, n)
    a = strval(alias)
    return oget(m, z3.If(z3.And(z3.Not(O.om_has(m, n)), O.om_has(m, a)), a, n))


def nonempty(o):
    return z3.And(z3.Not(OSTR.is_none(o)), z3.Length(OSTR.val(o)) > 0)


def version_text(msim):
    v = oget(msim, "VERSION")
    return z3.If(nonempty(v), OSTR.val(v), strval("0"))


def split_timing_cond(sim_is_ssc, chart_is_ssc, msim, mchart):
    """C15: chart timing is used iff SSC simfile, SSC chart, version >= 0.7, some chart timing property non-empty"""
    if not (sim_is_ssc and chart_is_ssc):
        return z3.BoolVal(False)
    vt = version_text(msim)
    return z3.And(SM.parse_float(vt) >= FRAC.lift(SPLIT_VERSION),
                  z3.Or([nonempty(oget(mchart, k)) for k in CHART_TIMING_KEYS]))


def version_ok(msim):
    return SM.float_ok(version_text(msim))


# ---------------------------------------------------------------------------
# BeatValues.from_str as a callee: data == bv_parse(text) or it raises

def BV_TY():
    from simfile.timing import BeatValue
    return TNT(BeatValue)


_bvp = {}


def bv_parse(o):
    ty = BV_TY()
    if "f" not in _bvp:
        _bvp["f"] = z3.Function("bv_parse", OSTR.sort(), z3.SeqSort(ty.sort()))
        _bvp["ok"] = z3.Function("bv_ok", OSTR.sort(), z3.BoolSort())
    return _bvp["f"](o)


def bv_ok(o):
    bv_parse(o)
    return _bvp["ok"](o)


def beatvalues_from_str_contract(ex, args, kwargs):
    from simfile.timing import BeatValues
    a = list(args)
    if a and isinstance(a[0], type):
        a = a[1:]
    s = a[0] if a else kwargs.get("string")
    o = term(s, OSTR) if (s is None or isinstance(s, str) or (is_sym(s) and s.ty.kind == "opt")) else OSTR.some(term(s, STR))
    ex.assumptions_used.add("callee contract BeatValues.from_str: data == bv_parse(text) or raises (proved in C14)")
    if not ex.branch(bv_ok(o), "bv-ok"):
        ex.raise_(ValueError, "malformed beat=value list", tag="bv-malformed")
    return SM.new_userlist(BeatValues, SV(bv_parse(o), TSeq(BV_TY())), "BeatValues")


def timing_source_contract(ex, args, kwargs):
    """callee contract of timing_source (proved as C15 unit `timing_source`)"""
    import simfile.ssc as ssc
    simfile, chart = (list(args) + [kwargs.get("chart")])[:2] if len(args) < 2 else args[:2]
    ex.assumptions_used.add("callee contract timing_source: returns the chart iff the split-timing rule holds (proved in C15)")
    sim_ssc = isinstance(simfile, HObj) and issubclass(simfile.cls, ssc.SSCSimfile)
    ch_ssc = isinstance(chart, HObj) and issubclass(chart.cls, ssc.SSCChart)
    if not (sim_ssc and ch_ssc):
        return simfile
    msim, mch = O.map_of(simfile), O.map_of(chart)
    if not ex.branch(version_ok(msim), "version-ok"):
        ex.raise_(ValueError, "could not convert string to float", tag="parse-float")
    if ex.branch(split_timing_cond(True, True, msim, mch), "use-chart"):
        return chart
    return simfile
