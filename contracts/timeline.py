"""
The statements of C11-C13 as an exact-rational oracle (plain Python), and the small-grid
configuration generator used by the bounded stand-ins and witness searches.
"""
from __future__ import annotations

import itertools
from fractions import Fraction as F

TAGS = ["WARP", "WARP_END", "BPM", "DELAY", "DELAY_END", "STOP", "STOP_END"]


class Timeline:
    def __init__(self, bpms, stops=(), delays=(), warps=(), offset=F(0)):
        self.bpms = sorted((F(b), F(v)) for b, v in bpms)
        self.stops = sorted((F(b), F(v)) for b, v in stops)
        self.delays = sorted((F(b), F(v)) for b, v in delays)
        self.warps = sorted((F(b), F(v)) for b, v in warps)
        self.offset = F(offset)
        # union of warp segments [start, end)
        segs = []
        for b, ln in self.warps:
            s, e = b, b + ln
            if segs and s <= segs[-1][1]:
                segs[-1][1] = max(segs[-1][1], e)
            else:
                segs.append([s, e])
        self.segs = [(s, e) for s, e in segs]

    def in_warp(self, y):
        return any(s <= y < e for s, e in self.segs)

    def bpm_at(self, y):
        cur = self.bpms[0][1]
        for b, v in self.bpms:
            if b <= y:
                cur = v
        return cur

    def _run(self, a, b):
        """seconds elapsing between beats a <= b outside warps"""
        cuts = sorted({a, b} | {x for x, _ in self.bpms if a < x < b} | {p for s, e in self.segs for p in (s, e) if a < p < b})
        t = F(0)
        for lo, hi in zip(cuts, cuts[1:]):
            mid = (lo + hi) / 2
            if not self.in_warp(mid):
                t += (hi - lo) * 60 / self.bpm_at(lo if lo >= 0 else F(-1))
        return t

    def time_at(self, beat, tag="STOP"):
        beat = F(beat)
        ti = TAGS.index(tag)
        t = -self.offset
        if beat >= 0:
            t += self._run(F(0), beat)
        else:
            t -= (-beat) * 60 / self.bpms[0][1]
        for b, v in self.stops:
            if b < beat or (b == beat and ti >= TAGS.index("STOP_END")):
                t += v
        for b, v in self.delays:
            if b < beat or (b == beat and ti >= TAGS.index("DELAY_END")):
                t += v
        return t

    def hittable(self, beat):
        beat = F(beat)
        paused = any(b == beat for b, _ in self.stops) or any(b == beat for b, _ in self.delays)
        return not (self.in_warp(beat) and not paused)

    def pause_interval(self, beat):
        """[start, end) of the pause on this beat, or None"""
        ln = sum(v for b, v in self.stops if b == beat) + sum(v for b, v in self.delays if b == beat)
        if ln == 0:
            return None
        start = self.time_at(beat, "DELAY")
        return start, start + ln


def fmt(x):
    return f"{float(x):.6f}"


def to_simfile(tl: Timeline):
    from simfile.ssc import SSCSimfile
    sf = SSCSimfile.blank()
    j = lambda evs: ",".join(f"{fmt(b)}={fmt(v)}" for b, v in evs)
    sf.bpms, sf.stops, sf.delays, sf.warps = j(tl.bpms), j(tl.stops), j(tl.delays), j(tl.warps)
    sf.offset = fmt(tl.offset)
    return sf


def real_engine(tl: Timeline):
    from simfile.timing import TimingData
    from simfile.timing.engine import TimingEngine
    return TimingEngine(TimingData(to_simfile(tl)))


def configurations(tier, max_events=None):
    """all placements of up to k events on a small beat grid (dyadic values, so float arithmetic is exact)"""
    grid = [F(0), F(1, 2), F(1), F(3, 2), F(2), F(3)] if tier == "quick" else [F(0), F(1, 2), F(1), F(3, 2), F(2), F(5, 2), F(3)]
    kinds = [("bpm", F(240)), ("bpm", F(60)), ("stop", F(1, 2)), ("delay", F(1, 4)), ("warp", F(1, 2)), ("warp", F(1)), ("warp", F(2))]
    k = max_events or (3 if tier == "quick" else 4)
    slots = [(b, kd) for b in grid for kd in kinds if not (kd[0] == "bpm" and b == 0)]
    for n in range(0, k + 1):
        for combo in itertools.combinations(slots, n):
            seen = set()
            ok = True
            for b, (kind, v) in combo:
                if (b, kind) in seen:
                    ok = False
                    break
                seen.add((b, kind))
            if not ok:
                continue
            ev = dict(bpm=[(F(0), F(120))], stop=[], delay=[], warp=[])
            for b, (kind, v) in combo:
                ev[kind].append((b, v))
            yield Timeline(ev["bpm"], ev["stop"], ev["delay"], ev["warp"], offset=F(1, 8))


def probes(tier):
    return [F(n, 4) for n in range(-4, 17 if tier == "quick" else 21)]


def generic_configurations(tier):
    """a few timelines with non-dyadic values (BPM 150, 190, 128; offsets and pauses like 0.123 / 0.333), so that the
    float arithmetic is not exact and any loss of precision beyond float64 rounding shows"""
    base = [
        dict(bpms=[(F(0), F(150))], warps=[(F(1), F(1))], offset=F("0.123")),
        dict(bpms=[(F(0), F(128)), (F(2), F(190))], warps=[(F(3), F(3, 2))], stops=[(F(7, 2), F("0.333"))], offset=F("0.123")),
        dict(bpms=[(F(0), F(1000)), (F(8), F(2000))], stops=[(F(4), F(1, 2))], offset=F("-40000.5")),
        dict(bpms=[(F(0), F(133)), (F(5, 2), F(177))], delays=[(F(1), F("0.111"))], stops=[(F(1), F("0.222"))], warps=[(F(2), F(1, 2)), (F(9, 4), F(1))], offset=F("-0.007")),
        dict(bpms=[(F(0), F(97))], warps=[(F(0), F(2))], stops=[(F(3, 2), F("0.7"))], offset=F("12.345")),
        # events on ticks that are not binary fractions (thirds of a beat): a key that went through float() is not the beat any more
        dict(bpms=[(F(0), F(120)), (F(7, 3), F(90))], stops=[(F(4, 3), F(1, 2))], delays=[(F(8, 3), F(1, 4))], warps=[(F(11, 3), F(2, 3))], offset=F(1, 8)),
        dict(bpms=[(F(0), F(60))], stops=[(F(1, 3), F(1, 4)), (F(5, 3), F(1, 4))], delays=[(F(1, 3), F(1, 8))], warps=[(F(2, 3), F(1, 3)), (F(5, 3), F(1, 6))], offset=F(0)),
    ]
    for d in base:
        yield Timeline(d["bpms"], d.get("stops", ()), d.get("delays", ()), d.get("warps", ()), d.get("offset", F(0)))
