"""
Sidecar specification of the timing engine (C11-C13): the statement's formulas for one
state of the timeline, the step of the state machine, and the representation invariant
of the engine's state list.
"""
from __future__ import annotations

import z3

from pyvc.values import SV, INT, BOOL, FRAC, DEC, FLOAT, BEAT, TNT, TSeq, TIntEnum, term, is_sym, fresh_term
from pyvc.execu import NTVal, HObj
from pyvc.models import real_round_half_even


def E():
    import simfile.timing.engine as e
    return e


def T():
    import simfile.timing as t
    return t


def TS():
    return TNT(E().TimingState)


def TE():
    return TNT(E().TimedEvent)


def TG():
    return TNT(E().TaggedEvent)


def tag(name):
    return z3.IntVal(int(getattr(E().EventTag, name)))


def st_beat(s):
    return TE().acc(TS().acc(s, "event"), "beat")


def st_tag(s):
    return TE().acc(TS().acc(s, "event"), "tag")


def st_value(s):
    return TE().acc(TS().acc(s, "event"), "value")


def st_time(s):
    return TE().acc(TS().acc(s, "event"), "time")


def st_bpm(s):
    return TS().acc(s, "bpm")


def st_warp(s):
    return TS().acc(s, "warp")


def is_pause_start(t):
    return z3.Or(t == tag("STOP"), t == tag("DELAY"))


def is_pause_end(t):
    return z3.Or(t == tag("STOP_END"), t == tag("DELAY_END"))


def spec_time_until(s, beat, t):
    """C11: sixty seconds over the BPM in force for every beat that elapses outside warps, plus the full pause when the
    state is a stop/delay start and the asked tag lies at or after its end"""
    run = z3.If(st_warp(s), z3.RealVal(0), (beat - st_beat(s)) * 60 / st_bpm(s))
    pause = z3.If(z3.And(is_pause_start(st_tag(s)), is_pause_end(t)), st_value(s), z3.RealVal(0))
    return run + pause


def snap48(x):
    return z3.ToReal(real_round_half_even(x * 48)) / 48


def spec_beats_until(s, time):
    """C12: no beat elapses during a pause; otherwise elapsed seconds times BPM over sixty, on the tick grid"""
    return z3.If(is_pause_start(st_tag(s)), z3.RealVal(0), snap48((time - st_time(s)) / 60 * st_bpm(s)))


def spec_step(s, ev):
    """the state after one tagged event (C11): time advances by time_until, only a BPM event changes the BPM,
    only WARP / WARP_END change the warp flag"""
    g = TG()
    b, v, t = g.acc(ev, "beat"), g.acc(ev, "value"), g.acc(ev, "tag")
    time = st_time(s) + spec_time_until(s, b, t)
    bpm = z3.If(t == tag("BPM"), v, st_bpm(s))
    warp = z3.If(t == tag("WARP"), z3.BoolVal(True), z3.If(t == tag("WARP_END"), z3.BoolVal(False), st_warp(s)))
    return TS().mk(TE().mk(b, v, t, time), bpm, warp)


def key_le(b1, t1, b2, t2):
    """(beat, tag) lexicographic <="""
    return z3.Or(b1 < b2, z3.And(b1 == b2, t1 <= t2))


def key_lt(b1, t1, b2, t2):
    return z3.Or(b1 < b2, z3.And(b1 == b2, t1 < t2))
