"""
Callee contracts that abstract the timing engine and note iteration for callers
(time_notes): hittable / time_at are functions of (engine, beat[, tag]).
Their bodies are verified separately (C11/C13 engine units).
"""
from __future__ import annotations

import z3

from pyvc.values import SV, BOOL, FLOAT, BEAT, INT, TNT, TSeq, TIntEnum, term, is_sym, fresh_term, coerce, FRAC
from pyvc.execu import HObj, NTVal

EngSort = z3.DeclareSort("Engine")
hit = z3.Function("eng_hittable", EngSort, z3.RealSort(), z3.BoolSort())
tat = z3.Function("eng_time_at", EngSort, z3.RealSort(), z3.IntSort(), z3.RealSort())


def engine_init_contract(ex, args, kwargs):
    self = args[0]
    ex.assumptions_used.add("callee contract TimingEngine: hittable/time_at are functions of (engine, beat, tag) (bodies verified under C11/C13)")
    self.fields["__id__"] = fresh_term(EngSort, "engine")
    self.fields["timing_data"] = args[1] if len(args) > 1 else kwargs.get("timing_data")
    return None


def hittable_contract(ex, args, kwargs):
    self, beat = args[0], args[1]
    return SV(hit(self.fields["__id__"], coerce(beat, FRAC).t if is_sym(beat) else FRAC.lift(beat)), BOOL)


def time_at_contract(ex, args, kwargs):
    import simfile.timing.engine as eng
    self, beat = args[0], args[1]
    tag = args[2] if len(args) > 2 else kwargs.get("event_tag", eng.EventTag.STOP)
    from pyvc.values import TNum
    return SV(tat(self.fields["__id__"], coerce(beat, FRAC).t if is_sym(beat) else FRAC.lift(beat), term(tag, TIntEnum(eng.EventTag))), TNum("SongTime"))


def install(ex):
    ex.callee_contracts["simfile.timing.engine.TimingEngine.__init__"] = engine_init_contract
    ex.callee_contracts["simfile.timing.engine.TimingEngine.hittable"] = hittable_contract
    ex.callee_contracts["simfile.timing.engine.TimingEngine.time_at"] = time_at_contract


def notedata_iter_contract(seq_sv):
    def c(ex, args, kwargs):
        ex.assumptions_used.add("callee contract NoteData.__iter__: yields a sequence of Note values (decoding verified under C07)")
        return seq_sv
    return c
