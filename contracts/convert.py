"""
Sidecar specification of SM <-> SSC conversion (C16, C17).

The behaviour tables below are the documented ones (kinds of SSC-only
properties, default behaviours, default values); they are written out here on
purpose, so that an edit of the tables in the repository is a change of
behaviour that the obligations notice.
"""
from __future__ import annotations

import z3

from pyvc.values import strval, SV, STR, OSTR, INT, BOOL, TEnum, TOpt, TSeq, term, is_sym, fresh, fresh_term
from pyvc import omap as O
from pyvc import models as M
from pyvc import stdmodels as SM
from pyvc import simobj as SO
from pyvc.execu import HObj, NTVal, PyRaise

KINDS = ("SSC_VERSION", "METADATA", "FILE_PATH", "GAMEPLAY_EVENT", "TIMING_DATA")

# which properties the SM format cannot hold, by kind (simfile level / chart level)
SM_SIMFILE_INVALID = {
    "SSC_VERSION": ["VERSION"],
    "METADATA": ["ORIGIN", "TIMESIGNATURES", "LABELS", "MUSICLENGTH", "LASTSECONDHINT"],
    "FILE_PATH": ["PREVIEWVID", "JACKET", "CDIMAGE", "DISCIMAGE", "PREVIEW"],
    "GAMEPLAY_EVENT": ["COMBOS", "SPEEDS", "SCROLLS", "FAKES"],
    "TIMING_DATA": ["WARPS"],
}
SM_CHART_INVALID = {
    "METADATA": ["CHARTNAME", "CHARTSTYLE", "CREDIT", "DISPLAYBPM", "TIMESIGNATURES", "LABELS"],
    "GAMEPLAY_EVENT": ["TICKCOUNTS", "COMBOS", "SPEEDS", "SCROLLS", "FAKES", "ATTACKS"],
    "TIMING_DATA": ["OFFSET", "BPMS", "STOPS", "DELAYS", "WARPS"],
}
DEFAULT_BEHAVIOR = {"SSC_VERSION": "IGNORE", "METADATA": "IGNORE", "FILE_PATH": "IGNORE",
                    "GAMEPLAY_EVENT": "ERROR_UNLESS_DEFAULT", "TIMING_DATA": "ERROR_UNLESS_DEFAULT"}
DEFAULT_VALUES = {"TIMESIGNATURES": "0.000=4=4", "TICKCOUNTS": "0.000=4", "COMBOS": "0.000=1",
                  "SPEEDS": "0.000=1.000=0.000=0", "SCROLLS": "0.000=1.000", "LABELS": "0.000=Song Start"}
SIX = ("STEPSTYPE", "DESCRIPTION", "DIFFICULTY", "METER", "RADARVALUES", "NOTES")


def C():
    import simfile.convert as c
    return c


def invalid_table(target_cls):
    n = target_cls.__name__
    return {"SMSimfile": SM_SIMFILE_INVALID, "SMChart": SM_CHART_INVALID}.get(n, {})


def BEH():
    return TEnum(C().InvalidPropertyBehavior)


def OBEH():
    return TOpt(BEH())


def sym_behaviors(ex, name="behaviors"):
    """an arbitrary (possibly partial) caller mapping PropertyType -> behaviour"""
    c = C()
    d = {}
    for pt in c.PropertyType:
        d[pt] = ex.sym(OBEH(), f"{name}_{pt.name}")
    return d


def behavior_of(beh, kind):
    """configured behaviour of a kind, falling back to the documented default"""
    c = C()
    b = beh.get(getattr(c.PropertyType, kind)) if beh else None
    dflt = BEH().lift(getattr(c.InvalidPropertyBehavior, DEFAULT_BEHAVIOR[kind]))
    if b is None:
        return dflt
    bt = b.t if is_sym(b) else OBEH().lift(b)
    return z3.If(OBEH().is_none(bt), dflt, OBEH().val(bt))


def default_value(prop):
    t = strval("")
    for k, v in DEFAULT_VALUES.items():
        t = z3.If(prop == strval(k), strval(v), t)
    return t


def decision(target_cls, prop, val, beh):
    """(copy, refuse) formulas for one property, from the statement of C17 (C16: nothing is invalid for SSC)"""
    c = C()
    B = BEH()
    table = invalid_table(target_cls)
    copy, refuse = z3.BoolVal(True), z3.BoolVal(False)
    IB = c.InvalidPropertyBehavior
    for kind in reversed(KINDS):
        props = table.get(kind)
        if not props:
            continue
        member = z3.Or([prop == strval(p) for p in props])
        b = behavior_of(beh, kind)
        is_default = z3.And(z3.Not(OSTR.is_none(val)), M.str_strip(OSTR.val(val)) == default_value(prop))
        k_copy = b == B.lift(IB.COPY_ANYWAY)
        k_refuse = z3.Or(b == B.lift(IB.ERROR), z3.And(b == B.lift(IB.ERROR_UNLESS_DEFAULT), z3.Not(is_default)))
        copy = z3.If(member, k_copy, copy)
        refuse = z3.If(member, k_refuse, refuse)
    return copy, refuse


# prefix folds over the items of the source mapping ---------------------------------

_F = {}


def COPYF():
    if "copy" not in _F:
        I = z3.IntSort()
        _F["copy"] = z3.Function("copy_prefix", O.OMapSort, O.OMapSort, I, I, O.OMapSort)     # (out0, src, cfg, i)
        _F["ref"] = z3.Function("refused_before", O.OMapSort, I, I, z3.BoolSort())            # (src, cfg, i)
    return _F["copy"]


def REFB():
    COPYF()
    return _F["ref"]


class Cfg:
    """one (target class, behaviours) configuration, identified by an integer in the spec functions"""

    def __init__(self, ident, target_cls, beh):
        self.id = z3.IntVal(ident)
        self.target = target_cls
        self.beh = beh

    def item(self, src, i):
        k = O.key_at(src, i)
        return k, O.om_get(src, k)

    def store_key(self, k):
        return k

    def unfold(self, out0, src, i):
        k, v = self.item(src, i)
        cp, rf = decision(self.target, k, v, self.beh)
        f, r = COPYF(), REFB()
        return [f(out0, src, self.id, z3.IntVal(0)) == out0,
                r(src, self.id, z3.IntVal(0)) == z3.BoolVal(False),
                z3.Implies(z3.And(i >= 0, i < O.cnt_(src)),
                           f(out0, src, self.id, i + 1) == z3.If(cp, O.om_set(f(out0, src, self.id, i), self.store_key(k), v), f(out0, src, self.id, i))),
                z3.Implies(z3.And(i >= 0, i < O.cnt_(src)),
                           r(src, self.id, i + 1) == z3.Or(r(src, self.id, i), rf))]

    def copyall(self, out0, src):
        return COPYF()(out0, src, self.id, O.cnt_(src))

    def refused(self, src):
        return REFB()(src, self.id, O.cnt_(src))


py_repr = M.py_repr
