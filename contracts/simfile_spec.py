"""
Sidecar specification of SM / SSC serialization and parsing (C01-C04), written
from the property statements: which MSD parameters are emitted in which order,
and what the documented loading rules do with a parameter.
"""
from __future__ import annotations

import z3

from pyvc.values import strval, SV, STR, OSTR, INT, BOOL, TSeq, TOpt, term, is_sym, fresh, fresh_term, S_unit as U, S_at as at
from pyvc import omap as O, models as M, msd as MSD, simobj as SO

S = z3.StringSort()
CS = MSD.CS
Frag = MSD.FragSort
FRAGS = MSD.FRAGS
MULTI = ("ATTACKS", "DISPLAYBPM")
SIX = ("STEPSTYPE", "DESCRIPTION", "DIFFICULTY", "METER", "RADARVALUES", "NOTES")   # the documented field order
NONE = OSTR.lift(None)
NL = lambda: Frag.Text(strval("\n"))


def is_multi(k):
    return z3.Or([k == strval(m) for m in MULTI])


def P(k, v):
    """components of one property parameter (C01/C02): key only when there is no value; ATTACKS/DISPLAYBPM
    split on ':' into separate components; otherwise key and value"""
    return z3.If(OSTR.is_none(v), U(k),
                 z3.If(is_multi(k), z3.Concat(U(k), M.str_split(OSTR.val(v), strval(":"))),
                       z3.Concat(U(k), U(OSTR.val(v)))))


def prop_frags(k, v):
    return z3.Concat(z3.Unit(Frag.Param(P(k, v))), z3.Unit(NL()))


_F = {}


def fn(name, *sorts):
    if name not in _F:
        _F[name] = z3.Function(name, *sorts)
    return _F[name]


def SERP():
    """fragments of the first i items of a mapping"""
    return fn("ser_items_prefix", O.OMapSort, z3.IntSort(), FRAGS)


def SERP_unfold(m, i):
    f = SERP()
    k = O.key_at(m, i)
    return [f(m, z3.IntVal(0)) == z3.Empty(FRAGS),
            z3.Implies(z3.And(i >= 0, i < O.cnt_(m)), f(m, i + 1) == z3.Concat(f(m, i), prop_frags(k, O.om_get(m, k))))]


def field(cv, name):
    return OSTR.val(O.om_get(SO.cmap(cv), strval(name)))


def sm_chart_comps(cv):
    """one NOTES parameter whose first six components are the chart's fields in the documented order"""
    ind = strval("\n     ")
    parts = [U(strval("NOTES"))]
    for f_ in SIX[:5]:
        parts.append(U(z3.Concat(ind, field(cv, f_))))
    parts.append(U(z3.Concat(strval("\n"), field(cv, "NOTES"), strval("\n"))))
    extra = SO.cextra(cv)
    parts.append(z3.If(SO.OPT_SEQ_STR.is_none(extra), z3.Empty(CS), SO.OPT_SEQ_STR.val(extra)))
    return z3.Concat(*parts)


def sm_chart_frags(cv):
    return z3.Unit(Frag.Param(sm_chart_comps(cv)))


def sm_chart_wf(cv):
    """an SM chart exposes its six fields as strings"""
    m = SO.cmap(cv)
    return z3.And([z3.And(O.om_has(m, strval(f_)), z3.Not(OSTR.is_none(O.om_get(m, strval(f_))))) for f_ in SIX])


# SSC chart ---------------------------------------------------------------------


def ssc_notes_key(m):
    """NOTES, or NOTES2 when that alias is the one present"""
    n, n2 = strval("NOTES"), strval("NOTES2")
    return z3.If(z3.And(z3.Not(O.om_has(m, n)), O.om_has(m, n2)), n2, n)


def SSCP():
    """fragments of the first i items of an SSC chart, the note data item left out"""
    return fn("ssc_chart_items_prefix", O.OMapSort, z3.IntSort(), FRAGS)


def SSCP_unfold(m, i):
    f = SSCP()
    k = O.key_at(m, i)
    nk = ssc_notes_key(m)
    return [f(m, z3.IntVal(0)) == z3.Empty(FRAGS),
            z3.Implies(z3.And(i >= 0, i < O.cnt_(m)),
                       f(m, i + 1) == z3.If(k == nk, f(m, i), z3.Concat(f(m, i), prop_frags(k, O.om_get(m, k)))))]


def ssc_chart_frags(cv):
    m = SO.cmap(cv)
    nk = ssc_notes_key(m)
    head = z3.Concat(z3.Unit(Frag.Param(z3.Concat(U(strval("NOTEDATA")), U(strval(""))))), z3.Unit(NL()))
    tail = z3.Concat(z3.Unit(Frag.Param(z3.Concat(U(nk), U(OSTR.val(O.om_get(m, nk)))))), z3.Unit(Frag.Text(strval("\n\n"))))
    return z3.Concat(head, SSCP()(m, O.cnt_(m)), tail)


def ssc_chart_wf(cv):
    m = SO.cmap(cv)
    nk = ssc_notes_key(m)
    return z3.And(O.om_has(m, nk), z3.Not(OSTR.is_none(O.om_get(m, nk))))


# charts list ---------------------------------------------------------------------


def CHF(kind):
    return fn(f"{kind}_charts_prefix", z3.SeqSort(SO.ChartSort), z3.IntSort(), FRAGS)


def chart_frags(kind, cv):
    return sm_chart_frags(cv) if kind == "sm" else ssc_chart_frags(cv)


def CHF_unfold(kind, charts, i):
    f = CHF(kind)
    return [f(charts, z3.IntVal(0)) == z3.Empty(FRAGS),
            z3.Implies(z3.And(i >= 0, i < z3.Length(charts)),
                       f(charts, i + 1) == z3.Concat(f(charts, i), chart_frags(kind, charts[i]), z3.Unit(NL())))]


def simfile_frags(kind, m, charts):
    return z3.Concat(SERP()(m, O.cnt_(m)), z3.Unit(NL()), CHF(kind)(charts, z3.Length(charts)))


# ---------------------------------------------------------------------------
# loading rules (C03): what one parameter does to the state (map, charts [, partial chart])


def pkey(cs):
    return M.str_upper(at(cs, 0))


def pvalue(cs):
    """ATTACKS/DISPLAYBPM keep all their colon-separated components, other properties only the first; key-only: no value"""
    n = z3.Length(cs)
    rest = z3.SubSeq(cs, 1, n - 1)
    return z3.If(n < 2, NONE,
                 z3.If(is_multi(pkey(cs)), OSTR.some(M.str_join(strval(":"), rest)), OSTR.some(at(cs, 1))))


def sm_chart_of(values):
    """an SM chart from the value components of a NOTES parameter (six trimmed fields + extra components)"""
    m = O.empty()
    for j, f_ in enumerate(SIX):
        m = O.om_set(m, strval(f_), OSTR.some(M.str_strip(at(values, j))))
    n = z3.Length(values)
    extra = z3.If(n > 6, SO.OPT_SEQ_STR.some(z3.SubSeq(values, 6, n - 6)), SO.OPT_SEQ_STR.lift(None))
    return SO.ChartSort.mk(m, extra)


def SMF_map():
    return fn("sm_load_map_prefix", MSD.PARAMS, z3.IntSort(), O.OMapSort)


def SMF_charts():
    return fn("sm_load_charts_prefix", MSD.PARAMS, z3.IntSort(), z3.SeqSort(SO.ChartSort))


def SMF_unfold(ps, i):
    fm, fc = SMF_map(), SMF_charts()
    cs = MSD.P_at(ps, i)
    k = pkey(cs)
    is_notes = k == strval("NOTES")
    vals = z3.SubSeq(cs, 1, z3.Length(cs) - 1)
    g = z3.And(i >= 0, i < z3.Length(ps))
    return [fm(ps, z3.IntVal(0)) == O.empty(), fc(ps, z3.IntVal(0)) == z3.Empty(z3.SeqSort(SO.ChartSort)),
            z3.Implies(g, fm(ps, i + 1) == z3.If(is_notes, fm(ps, i), O.om_set(fm(ps, i), k, pvalue(cs)))),
            z3.Implies(g, fc(ps, i + 1) == z3.If(is_notes, z3.Concat(fc(ps, i), z3.Unit(sm_chart_of(vals))), fc(ps, i)))]
