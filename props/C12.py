"""
C12 - time to beat conversion inverts beat to time on the tick grid.
"""
from props.engine_common import BeatsUntil, Lookup, EngineVsStatement, engine_witness, RetimeEvents

LEVEL = "other"
TRUSTED = ["T-STD: bisect returns a local boundary index on any list and the partition point on a sorted one",
           "A-FLOAT: floats are reals; Beat(float) rounds half-to-even to the tick grid",
           "SM_inv (times never decrease along the state list, every state in the domain, _times is its projection): each inductive step is a discharged obligation of unit TimingEngine._retime_events (fold invariant, lemma:step-keeps-domain, lemma:step-time-monotone, post:lookup-tables-are-projections); only the induction over the list itself and heapq.merge's order (T-STD) are argued outside the solver",
           "pyvc VC generator; z3/cvc5"]
ASSUMPTIONS = ["numerical accuracy (1e-9 s, float resolution below a tick) is not decided: floats are treated as reals"]
EXPLANATION = ("Proved (SMT, all inputs): TimingState.beats_until is the statement's formula (no beat elapses during a pause; elapsed seconds x BPM / 60 "
               "rounded half-to-even to the tick grid); TimingEngine.beat_at searches a sequence that is ordered in the key it searches (the state times, "
               "which never decrease along the state list - an obligation that fails for a (time, tag) search because equal times carry tags in event order), "
               "takes the first state at that time for the WARP tag and the last one otherwise, and adds beats_until of that state; _retime_events builds the state list as the fold of the state-machine step over the merged events and the three look-up tables as its projections. Bounded (never counted as "
               "proved): round trip on tick-aligned beats outside warps, paused beat inside every pause, monotonicity in time, WARP tag not after the default, "
               "independence from redundant earlier BPM changes - the real engine against the exact-rational statement on every small configuration.")
UNITS = [BeatsUntil(), Lookup("beat_at"), RetimeEvents()]
BOUNDED = [EngineVsStatement("beat_at", k) for k in range(EngineVsStatement.PARTS)]
witness_search = engine_witness(["beat_at"])
from props.engine_common import engine_xchecks
THOROUGH_BOUNDED = engine_xchecks(["beats_until"])


# supplier units (see props/suppliers.py): the state list beat_at searches is built by the units of C11
from props import suppliers as _S   # noqa: E402
UNITS = _S.extend(UNITS, _S.engine_core())
