"""
C15 - split timing: chart timing is used all-or-nothing under one rule.

Functions under contract: timing_source, TimingData.__init__, displaybpm.
The 2 x 3 x 7 x 3^11 configuration space is covered symbolically: the chart and
simfile mappings are arbitrary ordered maps, only the object kinds are enumerated.
"""
from __future__ import annotations

import z3

from pyvc.prop import Unit
from pyvc.values import strval, SV, STR, OSTR, BOOL, DEC, FRAC, TSeq, term, is_sym, fresh, fresh_term
from pyvc import omap as O
from pyvc import stdmodels as SM
from pyvc.execu import HObj, NTVal, PyRaise
from contracts import timing as T

LEVEL = "proof"
TRUSTED = [
    "T-OD ordered-map theory (pyvc/omap.py)",
    "S9: float()/Decimal() of a string are partial functions parse_float/parse_dec with an ok predicate; constants evaluated by CPython",
    "T-STD: min()/max()/list comprehension over a list as functions of the list; str.partition per the language reference",
    "callee contract BeatValues.from_str (its body is verified under C14)",
    "pyvc VC generator; z3/cvc5",
]
ASSUMPTIONS = [
    "A-FLOAT: float values are treated as exact reals (the version threshold 0.7 is the double nearest to 0.7 on both sides)",
    "DISPLAYBPM, when present, holds a string (the property's domain: absent, empty or a value)",
    "for the displayed-BPM fallback the chosen source has BPMS (the property's stated domain)",
]

CONFIGS = [(s, c) for s in ("SM", "SSC") for c in ("none", "SM", "SSC")]


def make(ex, skind, ckind):
    import simfile.sm as sm, simfile.ssc as ssc
    simfile = O.new_map_obj(ex, sm.SMSimfile if skind == "SM" else ssc.SSCSimfile, label="simfile")
    if ckind == "none":
        chart = None
    else:
        chart = O.new_map_obj(ex, sm.SMChart if ckind == "SM" else ssc.SSCChart, label="chart")
    return simfile, chart


class TimingSource(Unit):
    name = "timing_source"
    functions = ("simfile.timing._private.timingsource.timing_source",)
    expected = ["post:chart-iff-rule", "post:frame", "raises:only-bad-version"]

    def run(self, ex):
        i = ex.choose([(f"{s}/{c}", z3.BoolVal(True)) for s, c in CONFIGS])
        skind, ckind = CONFIGS[i]
        simfile, chart = make(ex, skind, ckind)
        ms = O.map_of(simfile)
        mc = O.map_of(chart) if chart is not None else None
        cond = T.split_timing_cond(skind == "SSC", ckind == "SSC", ms, mc)
        fn = ex.closure_of("simfile.timing._private.timingsource.timing_source")
        kind, r = ex.run_function(fn, [simfile, chart])
        if kind == "raise":
            # only a version string that float() rejects may raise, and only where the rule consults it
            ex.prove("raises:only-bad-version",
                     z3.And(z3.BoolVal(skind == "SSC" and ckind == "SSC" and issubclass(r.cls, ValueError)),
                            z3.Not(T.version_ok(ms))))
        else:
            ex.prove("post:chart-iff-rule", z3.If(cond, z3.BoolVal(r is chart), z3.BoolVal(r is simfile)))
        ex.prove("post:frame", z3.And(O.map_of(simfile) == ms, z3.BoolVal(True) if chart is None else O.map_of(chart) == mc))


class TimingDataInit(Unit):
    name = "TimingData.__init__"
    functions = ("simfile.timing.TimingData.__init__",)
    expected = ["post:bpms", "post:stops", "post:delays", "post:warps", "post:offset"]

    def run(self, ex):
        import simfile.timing as tm
        i = ex.choose([(f"{s}/{c}", z3.BoolVal(True)) for s, c in CONFIGS])
        skind, ckind = CONFIGS[i]
        simfile, chart = make(ex, skind, ckind)
        ms = O.map_of(simfile)
        mc = O.map_of(chart) if chart is not None else None
        ex.callee_contracts["simfile.timing._private.timingsource.timing_source"] = T.timing_source_contract
        ex.callee_contracts["simfile.timing.BeatValues.from_str"] = T.beatvalues_from_str_contract
        cond = T.split_timing_cond(skind == "SSC", ckind == "SSC", ms, mc)
        td = HObj(tm.TimingData, {}, "timing_data")
        fn = ex.closure_of("simfile.timing.TimingData.__init__")
        kind, r = ex.run_function(fn, [td, simfile, chart])
        use_chart = ex.branch(cond, "spec:use-chart")
        m = mc if use_chart else ms
        stops_alias = "FREEZES" if (skind == "SM" and not use_chart) else None
        texts = dict(bpms=T.attr_value(m, "BPMS"), stops=T.attr_value(m, "STOPS", stops_alias),
                     delays=T.attr_value(m, "DELAYS"), warps=T.oget(m, "WARPS"))
        off = T.attr_value(m, "OFFSET")
        wellformed = z3.And([T.bv_ok(t) for t in texts.values()] +
                            [z3.Or(z3.Not(T.nonempty(off)), SM.dec_ok(OSTR.val(off)))] +
                            ([T.version_ok(ms)] if (skind == "SSC" and ckind == "SSC") else []))
        if kind == "raise":
            ex.prove("raises:only-malformed", z3.Not(wellformed), f"raised {r!r} although every timing string is well formed")
            return
        for f, t in texts.items():
            d = td.fields[f].fields["data"]
            ex.prove(f"post:{f}", d.t == T.bv_parse(t), f"{f} is parsed from the one chosen source")
        o = td.fields["offset"]
        ex.prove("post:offset", term(o, DEC) == z3.If(T.nonempty(off), SM.parse_dec(OSTR.val(off)), z3.RealVal(0)),
                 "offset from the same source, zero when absent or empty")


class DisplayBPM(Unit):
    name = "displaybpm"
    functions = ("simfile.timing.displaybpm.displaybpm",)
    expected = ["post:random", "post:range", "post:static", "post:fallback-static", "post:fallback-range", "post:frame"]

    CFG = [(s, c) for s in ("SM", "SSC") for c in ("default", "SSC")]

    def __init__(self, cfg, side=None):
        self.cfg = cfg
        self.side = side          # for SSC simfile + SSC chart: verify the two outcomes of the split-timing rule separately (parallelism)
        self.name = f"displaybpm[{cfg[0]}/{cfg[1]}{'/' + side if side else ''}]"

    def run(self, ex):
        import simfile.timing.displaybpm as db
        skind, ckind = self.cfg
        simfile, chart = make(ex, skind, "SSC" if ckind == "SSC" else "none")
        ms = O.map_of(simfile)
        ex.callee_contracts["simfile.timing._private.timingsource.timing_source"] = T.timing_source_contract
        ex.callee_contracts["simfile.timing.BeatValues.from_str"] = T.beatvalues_from_str_contract
        ignore = fresh(BOOL, "ignore_specified")
        ex.declare_input("ignore_specified", ignore)
        fn = ex.closure_of("simfile.timing.displaybpm.displaybpm")
        args = [simfile] + ([chart] if chart is not None else [])
        if chart is not None:
            mc = O.map_of(chart)
            cond = T.split_timing_cond(skind == "SSC", True, ms, mc)
        else:
            mc, cond = None, z3.BoolVal(False)   # the default chart is empty: no timing property
        # domain (see ASSUMPTIONS)
        for m in [ms] + ([mc] if mc is not None else []):
            d = strval("DISPLAYBPM")
            ex.assume(z3.Implies(O.om_has(m, d), z3.Not(OSTR.is_none(O.om_get(m, d)))))
        if self.side is not None:
            ex.assume(cond if self.side == "chart-timing" else z3.Not(cond))
        kind, r = ex.run_function(fn, args, {"ignore_specified": ignore})
        use_chart = ex.branch(cond, "spec:use-chart")
        m = mc if use_chart else ms
        dv = T.oget(m, "DISPLAYBPM")
        s = OSTR.val(dv)
        specified = z3.And(O.om_has(m, strval("DISPLAYBPM")), z3.Not(ignore.t))
        colon = strval(":")
        idx = z3.IndexOf(s, colon, 0)
        a = z3.SubString(s, 0, idx)
        b = z3.SubString(s, idx + 1, z3.Length(s))
        is_random = z3.And(specified, s == strval("*"))
        is_range = z3.And(specified, z3.Not(is_random), z3.Contains(s, colon), SM.dec_ok(a), SM.dec_ok(b))
        is_static = z3.And(specified, z3.Not(is_random), z3.Not(z3.Contains(s, colon)), SM.dec_ok(s))
        bp = T.attr_value(m, "BPMS")
        if kind == "raise":
            # the default chart argument is an (empty) SSCChart, so the version is consulted for every SSC simfile
            bad_version = z3.Not(T.version_ok(ms)) if skind == "SSC" else z3.BoolVal(False)
            ex.prove("raises:only-outside-domain",
                     z3.Or(bad_version,
                           z3.And(z3.Not(is_random), z3.Not(is_range), z3.Not(is_static),
                                  z3.Or(z3.Not(O.om_has(m, strval("BPMS"))), z3.Not(T.bv_ok(bp)),
                                        z3.Length(T.bv_parse(bp)) == 0))),
                     f"raised {r!r} inside the property's domain")
            return
        L = T.bv_parse(bp)
        vals, fty = SM.seq_proj(T.BV_TY(), "value", L)
        cls = r.cls if isinstance(r, NTVal) else None
        if cls is db.RandomDisplayBPM:
            ex.prove("post:random", is_random)
        elif cls is db.RangeDisplayBPM:
            lo, hi = term(r.get("min"), DEC), term(r.get("max"), DEC)
            if ex.branch(is_range, "spec:range"):
                ex.prove("post:range", z3.And(lo == SM.parse_dec(a), hi == SM.parse_dec(b)))
            else:
                ex.prove("post:fallback-range",
                         z3.And(z3.Not(is_random), z3.Not(is_static), z3.Length(L) != 1,
                                lo == SM.seq_minmax("min", z3.RealSort())(vals), hi == SM.seq_minmax("max", z3.RealSort())(vals)))
        elif cls is db.StaticDisplayBPM:
            v = term(r.get("value"), DEC)
            if ex.branch(is_static, "spec:static"):
                ex.prove("post:static", v == SM.parse_dec(s))
            else:
                ex.prove("post:fallback-static",
                         z3.And(z3.Not(is_random), z3.Not(is_range), z3.Length(L) == 1, v == vals[0]))
        else:
            ex.prove("post:result-kind", False, f"unexpected result {r!r}")
        ex.prove("post:frame", O.map_of(simfile) == ms)


UNITS = [TimingSource(), TimingDataInit()] + [DisplayBPM(c) for c in DisplayBPM.CFG if c != ("SSC", "SSC")] + \
        [DisplayBPM(("SSC", "SSC"), side) for side in ("chart-timing", "simfile-timing")]


def witness_search(tier, seed):
    """The statement of C15 evaluated on the real functions over the configuration grid (replay only)."""
    import itertools
    from decimal import Decimal
    from simfile.sm import SMSimfile, SMChart
    from simfile.ssc import SSCSimfile, SSCChart
    from simfile.timing import TimingData, BeatValues
    from simfile.timing.displaybpm import displaybpm
    props = T.CHART_TIMING_KEYS
    versions = [None, "", "0.69", "0.7", "0.70", "0.83", "1.0"]
    for skind, ver, ckind in itertools.product(("SM", "SSC"), versions, ("none", "SM", "SSC")):
        for which in [None] + list(props):
            for state, off in (("empty", "0.5"), ("value", "0.5"), ("value", ""), ("empty", None)):
                sf = (SMSimfile if skind == "SM" else SSCSimfile).blank()
                sf["BPMS"] = "0.000=120.000"
                sf["STOPS"] = "4.000=1.000"
                sf["OFFSET"] = "0.5"
                if off is None:
                    sf.pop("OFFSET", None)      # "the offset defaults to zero when its source has none" - absent
                else:
                    sf["OFFSET"] = off          # - or present and empty
                sf["DELAYS"] = "2.000=0.250"
                sf["WARPS"] = "16.000=4.000"
                if ver is None:
                    sf.pop("VERSION", None)
                else:
                    sf["VERSION"] = ver
                ch = None
                if ckind == "SM":
                    ch = SMChart.blank()
                elif ckind == "SSC":
                    ch = SSCChart.blank()
                    ch["OFFSET"] = "-1" if off else ""
                    if which:
                        ch[which] = "" if state == "empty" else "0.000=200.000"
                expect_chart = (skind == "SSC" and ckind == "SSC" and float(ver or "0") >= 0.7 and which is not None and state == "value")
                try:
                    td = TimingData(sf, ch)
                except Exception as e:
                    return dict(config=[skind, ver, ckind, which, state], detail=f"TimingData raised {e!r}")
                src = ch if expect_chart else sf
                exp = (BeatValues.from_str(src.get("BPMS")), BeatValues.from_str(src.get("STOPS")), Decimal(src.get("OFFSET") or 0),
                       BeatValues.from_str(src.get("DELAYS")), BeatValues.from_str(src.get("WARPS")))
                got = (td.bpms, td.stops, td.offset, td.delays, td.warps)
                if got != exp:
                    return dict(config=[skind, ver, ckind, which, state],
                                detail=f"TimingData took bpms={td.bpms} stops={td.stops} delays={td.delays} warps={td.warps} offset={td.offset}, expected everything from the {'chart' if expect_chart else 'simfile'}")
    # the same chart object asked again after its timing properties changed
    sf = SSCSimfile.blank()
    sf["VERSION"], sf["BPMS"], sf["OFFSET"] = "0.83", "0.000=120.000", "0.5"
    ch = SSCChart.blank()
    for step, (k, v, chart_is_source) in enumerate(((None, None, False), ("BPMS", "0.000=200.000", True), ("BPMS", "", False), ("STOPS", "1.000=1.000", True), ("STOPS", None, False))):
        if k is not None:
            if v is None:
                ch.pop(k, None)
            else:
                ch[k] = v
        td = TimingData(sf, ch)
        src = ch if chart_is_source else sf
        if td.bpms != BeatValues.from_str(src.get("BPMS")) or td.offset != Decimal(src.get("OFFSET") or 0):
            return dict(config=dict(history=f"step {step}: chart {k} := {v!r}", chart=dict(ch.items()).get("BPMS")),
                        detail=f"TimingData took bpms={td.bpms} offset={td.offset}; after this edit the {'chart' if chart_is_source else 'simfile'} is the source")
    # the displayed BPM: the source's DISPLAYBPM when present, well-formed and not ignored, else from the source's BPMS
    from simfile.timing.displaybpm import StaticDisplayBPM, RangeDisplayBPM, RandomDisplayBPM
    for bpms, fallback in (("0.000=120.000", StaticDisplayBPM(Decimal("120.000"))),
                           ("0.000=120.000,4.000=60.000,8.000=180.500", RangeDisplayBPM(Decimal("60.000"), Decimal("180.500")))):
        for spec, meaning in ((None, None), ("", None), ("150", StaticDisplayBPM(Decimal("150"))), ("100:200.5", RangeDisplayBPM(Decimal("100"), Decimal("200.5"))),
                              ("*", RandomDisplayBPM()), ("abc", None), ("1:2:3", None)):
            for ignore in (False, True):
                for level in ("simfile", "chart"):
                    sf = SSCSimfile.blank()
                    sf["VERSION"] = "0.83"
                    sf["BPMS"] = bpms if level == "simfile" else "0.000=999.000"
                    ch = None
                    src = sf
                    if level == "chart":
                        ch = SSCChart.blank()
                        ch["BPMS"] = bpms
                        sf["DISPLAYBPM"] = "777"
                        src = ch
                    if spec is None:
                        src.pop("DISPLAYBPM", None)
                    else:
                        src["DISPLAYBPM"] = spec
                    want = meaning if (meaning is not None and not ignore) else fallback
                    try:
                        got = displaybpm(sf, ch, ignore_specified=ignore) if ch is not None else displaybpm(sf, ignore_specified=ignore)
                    except Exception as e:
                        got = f"raised {type(e).__name__}: {e}"
                    if got != want or type(got) is not type(want):
                        return dict(config=dict(level=level, BPMS=bpms, DISPLAYBPM=spec, ignore_specified=ignore),
                                    detail=f"displaybpm gave {got!r}; the statement prescribes {want!r}")
    return None

# tables the statement pins down by value (props/constants_common.py)
from props.constants_common import ClosedConstants   # noqa: E402
UNITS = list(UNITS) + [ClosedConstants('chart-timing-properties')]


# supplier units (see props/suppliers.py): TimingData parses its strings through BeatValues.from_str
from props import suppliers as _S   # noqa: E402
UNITS = _S.extend(UNITS, _S.beat_values())
