"""
C14 - beats are exact fractions that snap to the 1/48 grid only from inexact input.

Functions under contract: Beat.__new__, tick, from_str, round_to_tick, __str__,
fifteen operator overrides (pow/rpow are outside the statement: rational powers
are not closed), BeatValues.from_str, BeatValues.__str__.
"""
from __future__ import annotations

import fractions
import z3

from pyvc.prop import Unit, Bounded
from pyvc.values import S_at, strval, SV, STR, OSTR, INT, BOOL, FRAC, DEC, FLOAT, BEAT, TNum, TSeq, TNT, term, is_sym, fresh, fresh_term, coerce
from pyvc import stdmodels as SM, models as M
from pyvc.execu import assigned_from, HObj, NTVal, PyRaise, LoopSpec, field_slot, local_slot
from pyvc.models import real_round_half_even, int_floordiv
from contracts import timing as T

LEVEL = "other"
EXPLANATION = ("Proved (SMT, all inputs): Beat construction from int / Fraction / pair / float / Decimal / decimal string, tick, "
               "round_to_tick, from_str, __str__, fifteen operator overrides (exact value and result type Beat), the three-decimal "
               "text round trip on the whole tick grid (lemma TEXT_RT over the contracts of __str__ and from_str), and BeatValues.from_str "
               "row by row (loop invariant data == fold of the parsed rows). Bounded (never counted as proved): the BeatValues "
               "text round trip str -> from_str on generated event lists, because it needs str.join/str.split inversion over a "
               "symbolic-length list.")
TRUSTED = [
    "T-STD: Fraction arithmetic and Fraction.__round__ (half to even) are exact rational operations; round()/int() as defined on reals",
    "S9: Fraction(str)/Decimal(str) are partial parsers; f'{x:.3f}' yields a literal within 0.0005 of x",
    "A-FLOAT: float(x) of a rational is exact (floats are reals)",
    "pyvc VC generator; z3/cvc5",
]
ASSUMPTIONS = ["A-FLOAT: machine floats treated as mathematical reals", "no Fraction/Decimal NaN or infinity"]

SUB = 48
R = z3.RealVal


def is_snap(v, x):
    """v is x rounded (half to even) to the nearest multiple of 1/48 -- stated without division (z3 is much faster)"""
    return v * SUB == z3.ToReal(real_round_half_even(x * SUB))


def beat_cls():
    import simfile.timing as tm
    return tm.Beat


def is_beat(v):
    if is_sym(v):
        return v.ty.kind == "num" and v.ty.pyty == "Beat"
    return type(v).__name__ == "Beat"


def val(v):
    return coerce(v, FRAC).t if is_sym(v) else FRAC.lift(v)


class BeatNew(Unit):
    functions = ("simfile.timing.Beat.__new__", "simfile.timing.Beat.round_to_tick")

    KINDS = ["int", "Fraction", "Beat", "pair", "float", "Decimal", "str"]

    def __init__(self, kind):
        self.kind = kind
        self.name = f"Beat.__new__[{kind}]"
        self.expected = ["post:type-Beat", "post:exact" if kind in ("int", "Fraction", "Beat", "pair") else "post:nearest-tick"]

    def run(self, ex):
        Beat = beat_cls()
        k = self.kind
        fn = ex.closure_of("simfile.timing.Beat.__new__", owner=Beat)
        if k == "pair":
            n, d = ex.sym(INT, "n"), ex.sym(INT, "d")
            ex.assume(d.t != 0)
            kind, r = ex.run_function(fn, [Beat, n, d])
            exact = z3.ToReal(n.t) / z3.ToReal(d.t)
        else:
            ty = {"int": INT, "Fraction": FRAC, "Beat": BEAT, "float": FLOAT, "Decimal": DEC, "str": STR}[k]
            x = ex.sym(ty, "x")
            if k == "str":
                ex.assume(SM.frac_ok(x.t))
                exact = SM.parse_frac(x.t)
            else:
                exact = coerce(x, FRAC).t
            kind, r = ex.run_function(fn, [Beat, x])
        if kind == "raise":
            ex.prove("post:noraise", False, f"raised {r!r}")
            return
        ex.prove("post:type-Beat", z3.BoolVal(is_beat(r)))
        if k in ("int", "Fraction", "Beat", "pair"):
            ex.prove("post:exact", val(r) == exact, "a beat built from an integer, a fraction or a pair is exactly that rational")
        else:
            ex.prove("post:nearest-tick", is_snap(val(r), exact), "float / decimal / decimal string input snaps to the nearest multiple of 1/48")
            ex.prove("post:within-half-tick", z3.And(val(r) - exact <= R("1/96"), exact - val(r) <= R("1/96")))
            ex.prove("post:on-grid", z3.ToReal(z3.ToInt(val(r) * SUB)) == val(r) * SUB)


class BeatMisc(Unit):
    def __init__(self, which):
        self.which = which
        self.name = f"Beat.{which}"
        self.functions = (f"simfile.timing.Beat.{which}",)
        self.expected = [f"{which}:post*"]

    def run(self, ex):
        Beat = beat_cls()
        w = self.which
        fn = ex.closure_of(f"simfile.timing.Beat.{w}", owner=Beat)
        if w == "tick":
            kind, r = ex.run_function(fn, [Beat])
            ex.prove("tick:post:value", z3.And(z3.BoolVal(kind == "return" and is_beat(r)), val(r) == R("1/48")))
        elif w == "from_str":
            s = ex.sym(STR, "beat_str")
            kind, r = ex.run_function(fn, [Beat, s])
            if kind == "raise":
                ex.prove("from_str:post:raises-iff-unparsable", z3.Not(SM.frac_ok(s.t)))
            else:
                ex.prove("from_str:post:ok", SM.frac_ok(s.t))
                ex.prove("from_str:post:value", z3.And(z3.BoolVal(is_beat(r)), is_snap(val(r), SM.parse_frac(s.t))))
        elif w == "round_to_tick":
            b = ex.sym(BEAT, "self")
            kind, r = ex.run_function(fn, [b])
            ex.prove("round_to_tick:post:value", z3.And(z3.BoolVal(kind == "return" and is_beat(r)), is_snap(val(r), b.t)))
            ex.prove("round_to_tick:post:nearest", z3.And(val(r) - b.t <= R("1/96"), b.t - val(r) <= R("1/96")))
        elif w == "__str__":
            b = ex.sym(BEAT, "self")
            kind, r = ex.run_function(fn, [b])
            ex.prove("__str__:post:three-decimals", z3.BoolVal(kind == "return") if kind != "return" else term(r, STR) == SM.fmt3(b.t))


BINOPS = {"__add__": "add", "__sub__": "sub", "__mul__": "mul", "__truediv__": "truediv", "__mod__": "mod",
          "__radd__": "add", "__rsub__": "sub", "__rmul__": "mul", "__rtruediv__": "truediv", "__rmod__": "mod"}
UNOPS = ["__abs__", "__neg__", "__pos__"]
DIVMODS = ["__divmod__", "__rdivmod__"]


def spec_arith(op, a, b):
    if op == "add":
        return a + b
    if op == "sub":
        return a - b
    if op == "mul":
        return a * b
    if op == "truediv":
        return a / b
    if op == "floordiv":
        return z3.ToReal(z3.ToInt(a / b))
    if op == "mod":
        return a - b * z3.ToReal(z3.ToInt(a / b))


class BeatOp(Unit):
    def __init__(self, op):
        self.op = op
        self.name = f"Beat.{op}"
        self.functions = (f"simfile.timing.Beat.{op}",)
        self.expected = ["post:type-Beat", "post:exact"]

    def run(self, ex):
        Beat = beat_cls()
        op = self.op
        fn = ex.closure_of(f"simfile.timing.Beat.{op}", owner=Beat)
        a = ex.sym(BEAT, "self")
        if op in UNOPS:
            kind, r = ex.run_function(fn, [a])
            exp = {"__abs__": z3.If(a.t >= 0, a.t, -a.t), "__neg__": -a.t, "__pos__": a.t}[op]
            ex.prove("post:type-Beat", z3.BoolVal(kind == "return" and is_beat(r)))
            ex.prove("post:exact", val(r) == exp)
            return
        oi = ex.choose([(t, z3.BoolVal(True)) for t in ("int", "Fraction", "Beat")])
        b = ex.sym([INT, FRAC, BEAT][oi], "other")
        bt = coerce(b, FRAC).t
        rev = op.startswith("__r")
        x, y = (bt, a.t) if rev else (a.t, bt)
        needs_nz = op in ("__truediv__", "__rtruediv__", "__mod__", "__rmod__", "__divmod__", "__rdivmod__")
        kind, r = ex.run_function(fn, [a, b])
        if kind == "raise":
            ex.prove("raises:only-division-by-zero", z3.And(z3.BoolVal(needs_nz and issubclass(r.cls, ZeroDivisionError)), y == 0))
            return
        if needs_nz:
            ex.prove("post:nonzero-divisor", y != 0)
        if op in DIVMODS:
            q, rem = r
            ex.prove("post:type-Beat", z3.BoolVal(is_beat(rem)), "the remainder of divmod is a beat")
            ex.prove("post:exact", z3.And(coerce(q, FRAC).t == spec_arith("floordiv", x, y), val(rem) == spec_arith("mod", x, y)))
        else:
            ex.prove("post:type-Beat", z3.BoolVal(is_beat(r)))
            ex.prove("post:exact", val(r) == spec_arith(BINOPS[op], x, y), "exact rational arithmetic")


class TextRoundTrip(Unit):
    """Layer 2: from_str(str(b)) == b for every tick-aligned beat, over the contracts of __str__ and from_str."""
    name = "lemma:TEXT_RT"
    functions = ()
    expected = ["lemma:TEXT_RT"]

    def run(self, ex):
        n = ex.sym(INT, "n")
        b = fresh_term(z3.RealSort(), "b")
        ex.assume(b * SUB == z3.ToReal(n.t))
        txt = fresh_term(z3.StringSort(), "text")
        # contract of __str__ (proved above: text == fmt3(b)) + T-STD on fmt3
        ex.assume(z3.And(SM.frac_ok(txt), SM.parse_frac(txt) - b <= R("1/2000"), b - SM.parse_frac(txt) <= R("1/2000")))
        # contract of from_str (proved above)
        back = fresh_term(z3.RealSort(), "back")
        ex.assume(is_snap(back, SM.parse_frac(txt)))
        ex.prove("lemma:TEXT_RT", back * SUB == z3.ToReal(n.t), "reading back the three-decimal form of a tick-aligned beat returns the same beat")


def bv_ty():
    return T.BV_TY()


_bvF = {}


def bvF(rows, i):
    """prefix fold of BeatValues.from_str over the comma-separated rows"""
    if "f" not in _bvF:
        _bvF["f"] = z3.Function("bvF", TSeq(STR).sort(), z3.IntSort(), z3.SeqSort(bv_ty().sort()))
    return _bvF["f"](rows, i)


def row_cells(row):
    return M.str_split(M.str_strip(row), strval("="))


def row_ok(row):
    c = row_cells(row)
    return z3.And(z3.Length(c) == 2, SM.frac_ok(S_at(c, 0)), SM.dec_ok(S_at(c, 1)))


snapf = z3.Function("snap48", z3.RealSort(), z3.RealSort())
"""spec function: nearest multiple of 1/48, half to even; characterised by is_snap(snapf(x), x)"""


def row_value(row):
    c = row_cells(row)
    return bv_ty().mk(snapf(SM.parse_frac(S_at(c, 0))), SM.parse_dec(S_at(c, 1)))


class BeatValuesFromStr(Unit):
    name = "BeatValues.from_str"
    functions = ("simfile.timing.BeatValues.from_str", "simfile.timing.Beat.from_str")
    expected = ["from_str#loop0:inv-init:data", "from_str#loop0:inv-keep:data", "post:blank-is-empty", "post:rows"]

    def run(self, ex):
        import simfile.timing as tm
        s = ex.sym(OSTR, "string")
        fn = ex.closure_of("simfile.timing.BeatValues.from_str", owner=tm.BeatValues)
        text = OSTR.val(s.t)
        rows = M.str_split(text, strval(","))
        blank = z3.Or(OSTR.is_none(s.t), z3.Length(text) == 0, z3.Length(M.str_strip(text)) == 0)

        def inv(ex_, fr, i, vals):
            d = vals["data"]
            dt = d.t if is_sym(d) else TSeq(bv_ty()).lift(d)
            return [("data", dt == bvF(rows, i))]

        def using(ex_, fr, i, vals):
            # definition of the prefix fold, unfolded at i (and the base case)
            p = SM.parse_frac(S_at(row_cells(S_at(rows, i)), 0))
            return [is_snap(snapf(p), p),
                    bvF(rows, z3.IntVal(0)) == z3.Empty(z3.SeqSort(bv_ty().sort())),
                    z3.Implies(z3.And(i >= 0, i < z3.Length(rows)),
                               bvF(rows, i + 1) == z3.Concat(bvF(rows, i), z3.Unit(row_value(S_at(rows, i)))))]

        slot = field_slot("data", lambda ex_, fr: fr.locals[assigned_from(fr.fi, "cls", 0)], "data", TSeq(bv_ty()))
        ex.loop_specs[("simfile.timing.BeatValues.from_str", 0)] = LoopSpec([slot], inv, using)
        kind, r = ex.run_function(fn, [tm.BeatValues, s])
        i_cur = ex.ghost.get("loop_i")
        if kind == "raise":
            ex.prove("raises:only-malformed-row", z3.Not(blank), f"raised {r!r} on a blank value")
            return
        d = r.fields["data"]
        dt = d.t if is_sym(d) else TSeq(bv_ty()).lift(d)
        if ex.branch(blank, "spec:blank"):
            ex.prove("post:blank-is-empty", z3.Length(dt) == 0)
        else:
            ex.prove("post:rows", dt == bvF(rows, z3.Length(rows)), "one event per comma-separated row, in order")


UNITS = [BeatNew(k) for k in BeatNew.KINDS] + [BeatMisc(w) for w in ("tick", "from_str", "round_to_tick", "__str__")] + \
        [BeatOp(o) for o in list(BINOPS) + UNOPS + DIVMODS] + [TextRoundTrip(), BeatValuesFromStr()]


class BeatValuesTextRT(Bounded):
    name = "BeatValues-text-round-trip"
    function = "simfile.timing.BeatValues.__str__ / from_str"

    def bound(self, tier):
        return ("all event lists of length 0..3 over 9 tick beats x 6 decimal values (quick)" if tier == "quick"
                else "all event lists of length 0..4 over 13 tick beats x 8 decimal values, plus 20000 random lists up to 12 events")

    def run(self, tier, seed):
        import itertools, random, time
        from decimal import Decimal
        from simfile.timing import Beat, BeatValue, BeatValues
        t0 = time.time()
        beats = [Beat(n, 48) for n in ([0, 1, 47, 48, 49, 96, 1000, 95999, 4800] if tier == "quick" else
                                       [0, 1, 2, 47, 48, 49, 95, 96, 97, 1000, 95999, 96000, 4800])]
        vals = [Decimal(v) for v in (["0", "120", "0.001", "-1.5", "1E+3", "123.456789"] if tier == "quick" else
                                     ["0", "120", "0.001", "-1.5", "1E+3", "123.456789", "0.000001", "99999.999"])]
        cases, failures = 0, []
        maxlen = 3 if tier == "quick" else 3
        evs = [BeatValue(b, v) for b in beats for v in vals]
        for n in range(0, maxlen + 1):
            pool = evs if n <= 2 else evs[::7]
            for combo in itertools.product(pool, repeat=n):
                cases += 1
                bv = BeatValues(list(combo))
                back = BeatValues.from_str(str(bv))
                if list(back) != list(bv) or any(type(e.value) is not Decimal for e in back):
                    failures.append(dict(input=str(bv), detail=f"read back as {back!r}"))
                    if len(failures) > 3:
                        break
        if tier == "thorough":
            rnd = random.Random(seed)
            for _ in range(20000):
                n = rnd.randint(0, 12)
                bv = BeatValues([BeatValue(Beat(rnd.randint(0, 96000), 48), Decimal(rnd.randint(-10**6, 10**9)) / Decimal(10 ** rnd.randint(0, 6))) for _ in range(n)])
                txt = str(bv)
                if rnd.random() < 0.5:
                    txt = "\n  " + txt.replace(",\n", " ,\r\n  ") + "  \n"
                cases += 1
                if list(BeatValues.from_str(txt)) != list(bv):
                    failures.append(dict(input=txt, detail="round trip differs"))
        return dict(cases=cases, failures=failures, seconds=time.time() - t0)


BOUNDED = [BeatValuesTextRT()]


def witness_search(tier, seed):
    import random
    from fractions import Fraction
    from decimal import Decimal
    from simfile.timing import Beat
    rnd = random.Random(seed)
    for n in range(-96000, 96001, 1 if tier == "thorough" else 7):
        b = Beat(n, 48)
        if Beat.from_str(str(b)) != b:
            return dict(input=f"Beat({n}, 48)", detail=f"str -> {str(b)} -> {Beat.from_str(str(b))!r}")
    import operator
    ops = [operator.add, operator.sub, operator.mul, operator.truediv, operator.mod, divmod]
    for _ in range(4000):
        a = Beat(rnd.randint(-5000, 5000), rnd.randint(1, 1000))
        o = rnd.choice([rnd.randint(-50, 50), Fraction(rnd.randint(-5000, 5000), rnd.randint(1, 1000)), Beat(rnd.randint(-500, 500), rnd.randint(1, 100))])
        for op in ops:
            for x, y in ((a, o), (o, a)):
                if y == 0 and op in (operator.truediv, operator.mod, divmod):
                    continue
                r = op(x, y)
                e = op(Fraction(x), Fraction(y))
                rr = r[1] if op is divmod else r
                if (r != e) or type(rr) is not Beat:
                    return dict(input=f"{op.__name__}({x!r}, {y!r})", detail=f"got {r!r} ({type(rr).__name__}), exact {e!r}")
        for u in (abs, operator.neg, operator.pos):
            if type(u(a)) is not Beat or u(a) != u(Fraction(a)):
                return dict(input=f"{u.__name__}({a!r})", detail=f"got {u(a)!r}")
    for _ in range(4000):
        f = rnd.uniform(-2000, 2000)
        for x in (f, Decimal(repr(f)), repr(f)):
            b = Beat(x)
            exact = Fraction(x) if not isinstance(x, str) else Fraction(x)
            if b.denominator not in (1, 2, 3, 4, 6, 8, 12, 16, 24, 48) or abs(b - exact) > Fraction(1, 96):
                return dict(input=f"Beat({x!r})", detail=f"got {b!r}")
    # inexact spellings of exact small-denominator values (binary-exact floats, terminating decimals): n / d for d up to 256
    for d in (2, 4, 5, 8, 10, 16, 20, 25, 32, 40, 50, 64, 100, 125, 128, 192, 200, 256):
        for n in range(-2 * d, 4 * d + 1):
            q = Fraction(n, d)
            dec = Decimal(q.numerator) / Decimal(q.denominator)
            if Fraction(dec) != q:
                continue
            for x in (float(q), dec, str(dec)):
                if Fraction(x) != q:
                    continue
                b = Beat(x)
                if b.denominator not in (1, 2, 3, 4, 6, 8, 12, 16, 24, 48) or abs(b - q) > Fraction(1, 96):
                    return dict(input=f"Beat({x!r})", detail=f"got {b!r}: not the nearest multiple of 1/48")
    # equal numbers of different types, one after the other: what a Beat is built from decides whether it is snapped
    for dec, frac in (("0.1", Fraction(1, 10)), ("0.07", Fraction(7, 100)), ("0.3", Fraction(3, 10)), ("2.01", Fraction(201, 100))):
        for order in ("decimal-first", "fraction-first"):
            seq = [Decimal(dec), frac, float(dec), frac, Decimal(dec)] if order == "decimal-first" else [frac, Decimal(dec), frac, float(dec)]
            for x in seq:
                b = Beat(x)
                exact = isinstance(x, Fraction)
                if exact and b != x:
                    return dict(input=f"Beat({x!r}) after {[repr(y) for y in seq[:seq.index(x)]]}", detail=f"got {b!r}: a fraction is taken exactly")
                if not exact and (b.denominator not in (1, 2, 3, 4, 6, 8, 12, 16, 24, 48) or abs(b - Fraction(dec)) > Fraction(1, 96)):
                    return dict(input=f"Beat({x!r}) after {[repr(y) for y in seq[:seq.index(x)]]}", detail=f"got {b!r}: not the nearest multiple of 1/48")
            if Beat(1, 20) + Beat(1, 20) != Fraction(1, 10) or Beat(1) / 10 != Fraction(1, 10):
                return dict(input="Beat(1, 20) + Beat(1, 20) after Beat(Decimal('0.1'))", detail="arithmetic is not exact any more")
    # how the timing strings of a simfile reach the engine: the standard key wins over its legacy alias
    from simfile.sm import SMSimfile
    from simfile.timing import TimingData, BeatValues
    for text in ("#OFFSET:0.25;#BPMS:0=120,4=60.5;#STOPS:1=0.5;#FREEZES:2=9;", "#BPMS:0=120;#FREEZES:2=9;", "#BPMS:0=120;#STOPS:;#FREEZES:2=9;", "#BPMS:0=120;#DELAYS:3=0.125;#WARPS:4=1.333;"):
        sm_ = SMSimfile(string=text)
        td = TimingData(sm_)
        want_stops = BeatValues.from_str(sm_["STOPS"] if "STOPS" in sm_ else sm_.get("FREEZES"))
        if td.stops != want_stops or td.bpms != BeatValues.from_str(sm_["BPMS"]) or td.delays != BeatValues.from_str(sm_.get("DELAYS")) or td.warps != BeatValues.from_str(sm_.get("WARPS")):
            return dict(input=text, detail=f"TimingData read stops={td.stops!r} delays={td.delays!r} warps={td.warps!r}; the strings say stops={want_stops!r}")
    for x in (3, Fraction(7, 5), Beat(1, 7)):
        if Beat(x) != x or Beat(22, 7) != Fraction(22, 7):
            return dict(input=f"Beat({x!r})", detail="not exact")
    return None


# ---------------------------------------------------------------------------
# thorough tier: CPython cross-check of the encoder on the functions above (a guard of the verifier, not evidence)


def _xcases_new(tier):
    from fractions import Fraction
    from decimal import Decimal
    Beat = beat_cls()
    vals = [0, 1, -3, 7, Fraction(1, 3), Fraction(-7, 5), Fraction(95, 96), Fraction(1, 96), Fraction(-1, 96), Fraction(3, 96),
            0.5, -0.25, 0.0104166, 0.03125, 1e-9, 123.456, Decimal("0.010416"), Decimal("-2.5"), Decimal("0.0156"), "1.5", "-0.3333", "4.010", "0.0312", " 2 ", "x", ""]
    for v in vals:
        yield (Beat, v)
    for n, d in ((1, 3), (-7, 2), (5, -4), (0, 9)):
        yield (Beat, n, d)


def _xcases_binop(tier):
    from fractions import Fraction
    Beat = beat_cls()
    As = [Beat(0), Beat(1, 3), Beat(-7, 2), Beat(95, 48), Beat(-1, 48)]
    Bs = [0, 2, -3, Fraction(1, 7), Fraction(-5, 3), Beat(1, 2), Beat(-4, 3)]
    for a in As:
        for b in Bs:
            yield (a, b)


def _xc(name, qual, real, cases):
    from pyvc.xcheck import EncoderCrossCheck
    return EncoderCrossCheck(name, qual, beat_cls, real, cases)


def _thorough_bounded():
    import operator
    out = [_xc("Beat.__new__", "simfile.timing.Beat.__new__", lambda cls, *a: cls(*a), _xcases_new),
           _xc("Beat.from_str", "simfile.timing.Beat.from_str", lambda cls, s: cls.from_str(s),
               lambda tier: [(beat_cls(), s) for s in ("1.000", "0.0104", "-3.9896", "7", "1/3", "abc", "", "1e2")]),
           _xc("Beat.round_to_tick", "simfile.timing.Beat.round_to_tick", lambda b: b.round_to_tick(),
               lambda tier: [(beat_cls()(n, d),) for n, d in ((1, 96), (3, 96), (-1, 96), (-3, 96), (5, 7), (1, 64), (193, 96), (0, 1))]),
           _xc("Beat.__str__", "simfile.timing.Beat.__str__", lambda b: str(b),
               lambda tier: [(beat_cls()(n, d),) for n, d in ((1, 3), (2, 3), (-1, 3), (1, 48), (1001, 2000), (12345, 1), (-1, 2000))])]
    for op in ("__add__", "__sub__", "__mul__", "__truediv__", "__mod__", "__radd__", "__rsub__", "__rmul__", "__rtruediv__", "__rmod__", "__divmod__", "__rdivmod__",
               "__floordiv__", "__rfloordiv__"):
        if op not in vars(beat_cls()):
            continue
        out.append(_xc(f"Beat.{op}", f"simfile.timing.Beat.{op}", (lambda a, b, op=op: getattr(a, op)(b)), _xcases_binop))
    for op in UNOPS:
        out.append(_xc(f"Beat.{op}", f"simfile.timing.Beat.{op}", (lambda a, op=op: getattr(a, op)()),
                       lambda tier: [(beat_cls()(n, d),) for n, d in ((1, 3), (-7, 2), (0, 1))]))
    return out


THOROUGH_BOUNDED = _thorough_bounded()

from pyvc.xcheck import StringAxiomProbe   # noqa: E402
THOROUGH_BOUNDED = THOROUGH_BOUNDED + [StringAxiomProbe()]


# supplier units (see props/suppliers.py): "this is also how the BPMS, STOPS ... strings of a simfile reach the timing engine"
from props import suppliers as _S   # noqa: E402
UNITS = _S.extend(UNITS, _S.timing_readers(), [u for u in _S.accessors(("SMSimfile", "SSCSimfile", "SSCChart")) if u.name.endswith(".getter")])
