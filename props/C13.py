"""
C13 - hittability and note timing follow the warp rules exactly.

Under contract here: simfile.notes.timed.time_notes (loop invariant over the
note stream, engine abstracted by callee contracts) and, from the engine units
shared with C11, TimingEngine.hittable.
"""
from __future__ import annotations

import z3

from pyvc.prop import Unit, Bounded
from pyvc.values import SV, STR, INT, BOOL, FRAC, TNT, TSeq, TEnum, TIntEnum, term, is_sym, fresh, fresh_term
from pyvc.execu import HObj, NTVal, LoopSpec, yield_slot, seq_of_items
from contracts import engine_abs as EA

LEVEL = "other"
EXPLANATION = ("Proved (SMT, all inputs, all stream lengths): time_notes yields, note by note and in order, TimedNote(time_at(beat), note) for hittable or kept notes, "
               "a fake differing from the original in nothing but the note type for unhittable taps under TAP_TO_FAKE, and nothing otherwise (loop invariant over "
               "a prefix spec function; the engine abstracted by callee contracts); TimingEngine.hittable returns False exactly when the state in force after "
               "everything on that beat is inside a warp and no stop/delay ends on that beat. Bounded (never counted as proved): that this state-list reading "
               "equals the statement's 'inside the union of warp segments and no stop or delay on the beat', on every tick of every small configuration.")
TRUSTED = [
    "callee contracts: TimingEngine.hittable / time_at are functions of (engine, beat, tag); NoteData.__iter__ yields a Note sequence",
    "T-STD: bisect local-boundary contract; heapq.merge order; SM_inv for the engine's state list assembled from the discharged steps of unit TimingEngine._retime_events by an induction argued outside the solver",
    "NamedTuple construction/equality as generated datatypes (fields, order and defaults read from the real classes)",
    "pyvc VC generator; z3/cvc5",
]
ASSUMPTIONS = ["generator laziness is not modelled (the whole output sequence is specified)"]

_F = {}


def types():
    import simfile.notes as n, simfile.notes.timed as t, simfile.timing.engine as e
    return n, t, e


def specF():
    n, t, e = types()
    if "F" not in _F:
        NT, TN, UH = TNT(n.Note), TNT(t.TimedNote), TEnum(t.UnhittableNotes)
        _F["F"] = z3.Function("time_notes_prefix", EA.EngSort, z3.SeqSort(NT.sort()), UH.sort(), z3.IntSort(), z3.SeqSort(TN.sort()))
    return _F["F"]


def out_of(eng, note_t, opt_t):
    """what the statement says one note contributes"""
    n, t, e = types()
    NT, TN, UH = TNT(n.Note), TNT(t.TimedNote), TEnum(t.UnhittableNotes)
    NTy = TEnum(n.NoteType)
    beat = NT.acc(note_t, "beat")
    time = EA.tat(eng, beat, z3.IntVal(int(e.EventTag.STOP)))
    keep = z3.Or(EA.hit(eng, beat), opt_t == UH.lift(t.UnhittableNotes.KEEP_NOTE))
    fake = NT.mk(beat, NT.acc(note_t, "column"), NTy.lift(n.NoteType.FAKE), NT.acc(note_t, "player"), NT.acc(note_t, "keysound_index"))
    tofake = z3.And(opt_t == UH.lift(t.UnhittableNotes.TAP_TO_FAKE), NT.acc(note_t, "note_type") == NTy.lift(n.NoteType.TAP))
    empty = z3.Empty(z3.SeqSort(TN.sort()))
    return z3.If(keep, z3.Unit(TN.mk(time, note_t)), z3.If(tofake, z3.Unit(TN.mk(time, fake)), empty))


class TimeNotes(Unit):
    name = "time_notes"
    functions = ("simfile.notes.timed.time_notes",)
    expected = ["time_notes#loop0:inv-init:yielded", "time_notes#loop0:inv-keep:yielded", "post:output"]

    def run(self, ex):
        n, t, e = types()
        NT, TN, UH = TNT(n.Note), TNT(t.TimedNote), TEnum(t.UnhittableNotes)
        EA.install(ex)
        notes = ex.sym(TSeq(NT), "notes")
        opt = ex.sym(UH, "unhittable_notes")
        nd = HObj(n.NoteData, {}, "note_data")
        td = HObj(object, {}, "timing_data")
        ex.callee_contracts["simfile.notes.NoteData.__iter__"] = EA.notedata_iter_contract(notes)
        F = specF()

        def eng_id(fr):
            return fr.locals["engine"].fields["__id__"]

        def inv(ex_, fr, i, vals):
            return [("yielded", vals["yielded"].t == F(eng_id(fr), notes.t, opt.t, i))]

        def using(ex_, fr, i, vals):
            g = eng_id(fr)
            return [F(g, notes.t, opt.t, z3.IntVal(0)) == z3.Empty(z3.SeqSort(TN.sort())),
                    z3.Implies(z3.And(i >= 0, i < z3.Length(notes.t)),
                               F(g, notes.t, opt.t, i + 1) == z3.Concat(F(g, notes.t, opt.t, i), out_of(g, notes.t[i], opt.t)))]

        ex.loop_specs[("simfile.notes.timed.time_notes", 0)] = LoopSpec([yield_slot(TN)], inv, using)
        orig = ex.callee_contracts["simfile.timing.engine.TimingEngine.__init__"]

        def capture(ex_, args, kwargs):
            r_ = orig(ex_, args, kwargs)
            ex_.ghost["engine_id"] = args[0].fields["__id__"]
            return r_

        ex.callee_contracts["simfile.timing.engine.TimingEngine.__init__"] = capture
        fn = ex.closure_of("simfile.notes.timed.time_notes")

        def hit_vals(m):
            g_ = ex.ghost.get("engine_id")
            ln = m.eval(z3.Length(notes.t), model_completion=True).as_long()
            return [z3.is_true(m.eval(EA.hit(g_, NT.acc(notes.t[i], "beat")), model_completion=True)) for i in range(min(ln, 8))]

        ex.declare_input("hittable", hit_vals)
        kind, r = ex.run_function(fn, [nd, td, opt])
        if kind == "raise":
            ex.prove("post:noraise", False, f"raised {r!r}")
            return
        out = seq_of_items(ex, r.items, TSeq(TN))
        g = ex.ghost["engine_id"]
        ex.prove("post:output", out.t == F(g, notes.t, opt.t, z3.Length(notes.t)),
                 "the output is, note by note and in order, what the statement prescribes")


    def replay(self, model, ob):
        return replay_time_notes(model.get("notes") or [], model.get("unhittable_notes"), model.get("hittable"))


def _mk_note(d):
    from fractions import Fraction
    n, t, e = types()
    from simfile.timing import Beat
    b = Fraction(d["beat"]) if not isinstance(d["beat"], str) or "/" in d["beat"] else Fraction(d["beat"])
    nt = getattr(n.NoteType, d["note_type"].split(".")[1])
    return n.Note(beat=Beat(b.numerator, b.denominator), column=d["column"], note_type=nt, player=d["player"], keysound_index=d["keysound_index"])


def expected_output(notes, engine, opt):
    """the statement of C13 (note timing clause), evaluated with the real engine's answers"""
    n, t, e = types()
    out = []
    for note in notes:
        if engine.hittable(note.beat) or opt == t.UnhittableNotes.KEEP_NOTE:
            out.append(t.TimedNote(engine.time_at(note.beat), note))
        elif opt == t.UnhittableNotes.TAP_TO_FAKE and note.note_type == n.NoteType.TAP:
            out.append(t.TimedNote(engine.time_at(note.beat), note._replace(note_type=n.NoteType.FAKE)))
    return out


def timing_with_unhittable(beats):
    """replay adapter: timing data in which exactly the given (snapped, non-negative) beats lie inside warps"""
    from simfile.ssc import SSCSimfile
    from simfile.timing import TimingData, Beat
    sf = SSCSimfile.blank()
    sf.bpms = "0.000=120.000"
    ws = sorted({max(Beat(0), Beat(b).round_to_tick()) for b in beats})
    sf.warps = ",".join(f"{w}=0.021" for w in ws)
    return TimingData(sf)


def replay_time_notes(note_dicts, opt_name, hittable):
    n, t, e = types()
    notes = [_mk_note(d) for d in note_dicts]
    opt = getattr(t.UnhittableNotes, (opt_name or "UnhittableNotes.TAP_TO_FAKE").split(".")[1])
    hittable = hittable or [False] * len(notes)
    td = timing_with_unhittable([nt.beat for nt, h in zip(notes, hittable) if not h])
    engine = e.TimingEngine(td)
    got = list(t.time_notes(notes, td, opt))
    exp = expected_output(notes, engine, opt)
    return dict(reproduced=got != exp, input=dict(notes=[repr(x) for x in notes], unhittable_notes=str(opt), warps=str(td.warps)),
                detail=f"time_notes returned {got!r}; the statement prescribes {exp!r}",
                command="list(time_notes(notes, timing_data, option)) with the warps above")


from props.engine_common import Lookup, EngineVsStatement, CoalesceWarps, RetimeEvents

UNITS = [TimeNotes(), Lookup("hittable"), CoalesceWarps(), RetimeEvents()]


class TimeNotesVsStatement(Bounded):
    """time_notes on real note streams - among them streams whose beats start again (the second player of a routine chart),
    which the deductive unit covers only as long as the loop has the shape its contract names"""
    name = "time_notes-vs-statement"
    function = "simfile.notes.timed.time_notes"

    def bound(self, tier):
        return ("every timeline with up to 2 events of the small grid (contracts/timeline.py) x 3 note streams (one player in beat order; two players, "
                "the second starting again at beat 0; the same with ticks off the event grid) x 3 unhittable-note options")

    def run(self, tier, seed):
        import time
        from contracts import timeline as TL
        n, t, e = types()
        from simfile.timing import Beat, TimingData
        t0 = time.time()
        T = n.NoteType
        one = [n.Note(Beat(k, 2), k % 4, [T.TAP, T.MINE, T.HOLD_HEAD, T.TAP][k % 4]) for k in range(0, 8)]
        two = [n.Note(Beat(b), c, T.TAP, 0) for b, c in ((0, 0), (1, 1), (3, 2))] + \
              [n.Note(Beat(b), c, ty, 1, ks) for b, c, ty, ks in ((0, 3, T.TAP, None), (Beat(1, 2), 2, T.TAP, 4), (2, 1, T.MINE, None), (Beat(7, 2), 0, T.TAP, None))]
        off = [n.Note(Beat(5, 3), 0, T.TAP, 0), n.Note(Beat(8, 3), 1, T.TAP, 0), n.Note(Beat(1, 3), 0, T.TAP, 1), n.Note(Beat(9, 4), 1, T.TAP, 1)]
        cases, failures = 0, []
        for tl in TL.configurations(tier, max_events=2):
            td = TimingData(TL.to_simfile(tl))
            engine = e.TimingEngine(td)
            for stream in (one, two, off):
                for opt in t.UnhittableNotes:
                    cases += 1
                    try:
                        got = list(t.time_notes(stream, td, opt))
                    except Exception as ex_:
                        got = f"raised {type(ex_).__name__}: {ex_}"
                    exp = expected_output(stream, engine, opt)
                    if got != exp:
                        failures.append(dict(input=dict(notes=[repr(x) for x in stream], option=str(opt), bpms=str(td.bpms), stops=str(td.stops),
                                                        delays=str(td.delays), warps=str(td.warps)),
                                             detail=f"time_notes returned {got!r}; the statement prescribes {exp!r}"))
                        if len(failures) >= 3:
                            return dict(cases=cases, failures=failures, seconds=time.time() - t0)
        return dict(cases=cases, failures=failures, seconds=time.time() - t0)


BOUNDED = [EngineVsStatement("hittable", k) for k in range(EngineVsStatement.PARTS)] + [TimeNotesVsStatement()]


def witness_search(tier, seed):
    for k in range(EngineVsStatement.PARTS):
        r = EngineVsStatement("hittable", k).run("quick", seed)
        if r["failures"]:
            return r["failures"][0]
    r = TimeNotesVsStatement().run("quick", seed)
    if r["failures"]:
        return r["failures"][0]
    return _notes_witness(tier, seed)


def _notes_witness(tier, seed):
    import itertools
    n, t, e = types()
    from simfile.timing import Beat
    # two calls in a row whose timing data differ only in the offset (or only in one list): each answers for its own data
    from simfile.ssc import SSCSimfile
    from simfile.timing import TimingData
    stream = [n.Note(Beat(0), 0, n.NoteType.TAP), n.Note(Beat(2), 1, n.NoteType.TAP), n.Note(Beat(5), 2, n.NoteType.TAP)]
    variants = []
    for off, stops, warps in (("0.000", "1.000=0.500", "3.000=1.000"), ("1.250", "1.000=0.500", "3.000=1.000"), ("1.250", "", "3.000=1.000"), ("1.250", "", "")):
        sf = SSCSimfile.blank()
        sf.bpms, sf.offset, sf.stops, sf.warps = "0.000=120.000", off, stops, warps
        variants.append(TimingData(sf))
    for td in variants + list(reversed(variants)):
        got = list(t.time_notes(stream, td, t.UnhittableNotes.TAP_TO_FAKE))
        exp = expected_output(stream, e.TimingEngine(td), t.UnhittableNotes.TAP_TO_FAKE)
        if got != exp:
            return dict(input=dict(notes=[repr(x) for x in stream], offset=str(td.offset), stops=str(td.stops), warps=str(td.warps), history="after calls with other timing data"),
                        detail=f"time_notes returned {got!r}; the statement prescribes {exp!r}")
    kinds = [n.NoteType.TAP, n.NoteType.HOLD_HEAD, n.NoteType.MINE]
    for opt in t.UnhittableNotes:
        for nt, player, ks, beat in itertools.product(kinds, (0, 1), (None, 5), (Beat(0), Beat(1), Beat(3, 2))):
            notes = [n.Note(Beat(0), 0, n.NoteType.TAP), n.Note(beat, 1, nt, player, ks), n.Note(Beat(8), 2, n.NoteType.TAP)]
            for unh in ([], [beat]):
                td = timing_with_unhittable(unh)
                engine = e.TimingEngine(td)
                got = list(t.time_notes(notes, td, opt))
                exp = expected_output(notes, engine, opt)
                if got != exp:
                    return dict(input=dict(notes=[repr(x) for x in notes], option=str(opt), warps=str(td.warps)),
                                detail=f"got {got!r}, statement prescribes {exp!r}")
    return None


# supplier units (see props/suppliers.py): time_notes assumes time_at / hittable and NoteData.__iter__ by contract
from props import suppliers as _S   # noqa: E402
UNITS = _S.extend(UNITS, _S.engine_core(), _S.note_readers())
