"""
C06 - a failed or cancelled mutate never damages the input file.

The fault points are enumerated by construction: one exceptional exit per call whose
(trusted or proved) contract has a raises clause - the caller's block (any exception
class, CancelMutation), serialization of the edited simfile, encoding in the detected
code page, opening a file for writing, writing.
"""
from props.mutate_common import Mutate

LEVEL = "proof"
TRUSTED = [
    "T-FS: ghost file system contract; a failing open(..., 'w') leaves the file system unchanged, a successful one truncates",
    "T-CODEC: encodable / textwrite",
    "callee contracts: BaseSimfile.serialize / Serializable.__str__ raise for a simfile that cannot be serialized (after a prefix was written)",
    "contextlib.contextmanager: the block's exception is thrown in at the yield; a generator that returns swallows it",
    "pyvc VC generator; z3/cvc5",
]
ASSUMPTIONS = ["C04: a simfile that was just loaded can always be serialized and encoded in the encoding it was decoded with",
               "a failure inside a successful-so-far write (disk full at the k-th call) is covered only for the backup clause, as the statement says"]
UNITS = [Mutate(out, bak, blk, False, "sm") for blk in ("cancel", "raise") for out in ("input", "other") for bak in (False, True)] + \
        [Mutate(out, bak, "normal", True, k) for k in ("sm", "ssc") for out in ("input", "other") for bak in (False, True)]


def witness_search(tier, seed):
    import os, tempfile, shutil, simfile
    d = tempfile.mkdtemp(prefix="pyvc-c06-")
    try:
        cases = []
        for enc, text, ext in (("utf-8", "#TITLE:a;#ARTIST:x;", ".sm"), ("cp1252", "#TITLE:caf\xe9;#ARTIST:x;", ".sm"),
                               ("utf-8", "#TITLE:a;#NOTES:dance-single:d:Easy:1:0,0,0,0,0:0000;", ".sm"),
                               ("utf-8", "#VERSION:0.83;#TITLE:a;#NOTEDATA:;#STEPSTYPE:x;#NOTES:0000;", ".ssc")):
            for out, bak in ((None, None), (None, "bak" + ext), ("out" + ext, "bak" + ext), ("out" + ext, "in" + ext)):
                for what in ("raise-KeyboardInterrupt", "raise-ValueError", "cancel", "unserializable", "unencodable", "chart-without-notes", "backup-unopenable", "output-unopenable", "unencodable-surrogate"):
                    cases.append((enc, text, ext, out, bak, what))
        for enc, text, ext, out, bak, what in cases:
            if what == "chart-without-notes" and ext != ".ssc":
                continue
            if what == "unencodable" and enc == "utf-8":
                continue
            if what == "backup-unopenable":
                if not bak:
                    continue
                bak = os.path.join("missing-dir", bak)
            if what == "output-unopenable":
                if not (out and bak):
                    continue
                out = os.path.join("missing-dir", out)
            for f in os.listdir(d):
                os.remove(os.path.join(d, f))
            p = os.path.join(d, "in" + ext)
            raw = text.encode(enc)
            open(p, "wb").write(raw)
            kw = {}
            if out:
                kw["output_filename"] = os.path.join(d, out)
            if bak:
                kw["backup_filename"] = os.path.join(d, bak)
            sf0, enc0 = simfile.open_with_detected_encoding(p)
            escaped = None
            try:
                with simfile.mutate(p, **kw) as sf:
                    sf.title = "edited"
                    if sf.charts:            # edits below the top level too: the charts are shared by a shallow copy
                        sf.charts[0].description = "edited description"
                        sf.charts.append(sf.charts[0])
                    if what == "raise-KeyboardInterrupt":
                        raise KeyboardInterrupt()
                    if what == "raise-ValueError":
                        raise ValueError("x")
                    if what == "cancel":
                        raise simfile.CancelMutation()
                    if what == "unserializable":
                        sf["SUBTITLE"] = 5
                    if what == "unencodable":
                        sf.title = "日本"
                    if what == "unencodable-surrogate":
                        sf.title = "name\udce9"       # a lone surrogate (os.fsdecode of an undecodable file name): no codec encodes it, UTF-8 included
                    if what == "chart-without-notes":
                        del sf.charts[0]["NOTES"]
            except BaseException as e:
                escaped = e
            inp_now = open(p, "rb").read()
            info = dict(text=text, encoding=enc, out=out, backup=bak, fault=what)
            if bak == "in" + ext:
                # the backup name is the input name (with another output name): refused before anything is written
                if not isinstance(escaped, ValueError) or inp_now != raw or set(os.listdir(d)) != {"in" + ext}:
                    return dict(input=info, detail=f"a backup name equal to the input name was not refused before anything was written: "
                                                   f"{escaped!r}; directory now {sorted(os.listdir(d))}; input {'intact' if inp_now == raw else 'changed to ' + repr(inp_now[:40])}")
                continue
            if what.startswith("raise-") or what == "cancel":
                if what == "cancel" and escaped is not None:
                    return dict(input=info, detail=f"CancelMutation escaped as {escaped!r}")
                if what == "raise-KeyboardInterrupt" and not isinstance(escaped, KeyboardInterrupt):
                    return dict(input=info, detail=f"KeyboardInterrupt did not propagate: {escaped!r}")
                if what == "raise-ValueError" and not isinstance(escaped, ValueError):
                    return dict(input=info, detail=f"ValueError did not propagate: {escaped!r}")
                if inp_now != raw or set(os.listdir(d)) != {"in" + ext}:
                    return dict(input=info, detail=f"file system changed although the block raised: {sorted(os.listdir(d))}")
            else:
                if escaped is None:
                    continue
                if inp_now != raw:
                    return dict(input=info, detail=f"saving failed with {type(escaped).__name__} and the input file now holds {inp_now[:40]!r} instead of its original bytes")
                if bak and os.path.exists(kw["backup_filename"]) and what != "backup-unopenable":
                    if open(kw["backup_filename"], "rb").read().decode(enc0).replace("\r\n", "\n") != str(sf0):
                        return dict(input=info, detail="the backup that was written does not hold the original simfile")
        # an in-memory filesystem keeps CR LF inside values: the backup written before a failing output still parses to the original
        from fs.memoryfs import MemoryFS
        for ext, text in ((".sm", "#TITLE:a;\r\n#BGCHANGES:1=x\r\n,2=y;\r\n#NOTES:dance-single:d:Easy:1:0,0,0,0,0:\r\n0000\r\n;\r\n"),
                          (".ssc", "#VERSION:0.83;\r\n#BGCHANGES:1=x\r\n,2=y;\r\n#NOTEDATA:;\r\n#NOTES:0000\r\n0000\r\n;\r\n")):
            mem = MemoryFS()
            mem.writebytes("in" + ext, text.encode("utf-8"))
            sf0, enc0 = simfile.open_with_detected_encoding("in" + ext, filesystem=mem)
            escaped = None
            try:
                with simfile.mutate("in" + ext, output_filename="missing-dir/out" + ext, backup_filename="bak" + ext, filesystem=mem) as sf:
                    sf.title = "edited"
            except BaseException as e:
                escaped = e
            if escaped is None:
                continue
            if mem.readbytes("in" + ext) != text.encode("utf-8"):
                return dict(input=dict(filesystem="MemoryFS", text=text), detail="input changed although saving failed")
            if mem.exists("bak" + ext):
                back = simfile.open("bak" + ext, filesystem=mem, encoding=enc0)
                if list(back.items()) != list(sf0.items()) or [list(c.items()) for c in back.charts] != [list(c.items()) for c in sf0.charts]:
                    diff = [k for k in sf0 if back.get(k) != sf0.get(k)]
                    return dict(input=dict(filesystem="MemoryFS", text=text, fault="output-unopenable"),
                                detail=f"the backup that was written does not parse to the simfile at block entry (keys {diff})")
        return None
    finally:
        shutil.rmtree(d, ignore_errors=True)

# tables the statement pins down by value (props/constants_common.py)
from props.constants_common import ClosedConstants   # noqa: E402
UNITS = list(UNITS) + [ClosedConstants('default-encodings')]


# supplier units (see props/suppliers.py)
from props import suppliers as _S   # noqa: E402
UNITS = _S.extend(UNITS, _S.open_detect(), _S.loaders(), _S.serializers())
