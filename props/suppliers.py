"""
Supplier units: a property's check re-runs the units that discharge the callee contracts it assumes, so that a change in a
function *between* the property and the code it is anchored in (a loader, a serializer, `__str__`, a timing reader, an
accessor) fails a named obligation in THIS property's check, not only in the check of the property that owns the function.
(Round 4 of the seeded changes: ten of twenty changes made outside the anchored functions went unnoticed by the property
they broke, although another property's check would have reported them.)
"""
from __future__ import annotations


def _dedupe(units, have=()):
    seen = {u.name for u in have}
    out = []
    for u in units:
        if u.name not in seen:
            seen.add(u.name)
            out.append(u)
    return out


def loaders(fmt=None):
    """every entry point that turns text / a stream / a file into a simfile (C03's units)"""
    import props.C03 as c
    us = list(c.UNITS)
    if fmt == "sm":
        us = [u for u in us if "SSC" not in u.name and "ssc" not in u.name.split("[")[0]]
    elif fmt == "ssc":
        us = [u for u in us if not u.name.startswith("SM") and "[sm" not in u.name]
    return us


def serializers():
    from props.ser_common import SMChartSerialize, SSCChartSerialize, ChartsSerialize, SimfileSerialize, SerializableStr
    return [SMChartSerialize(), SSCChartSerialize(), ChartsSerialize("sm"), ChartsSerialize("ssc"), SimfileSerialize("sm"), SimfileSerialize("ssc"), SerializableStr()]


def timing_readers():
    """timing_source and TimingData.__init__ (C15's units)"""
    import props.C15 as c
    return [u for u in c.UNITS if u.name in ("timing_source", "TimingData.__init__")]


def accessors(classes=None):
    """item_property getters / setters / deleters (C18's units)"""
    import props.C18 as c
    us = [u for u in c.UNITS if "<item_property>" in u.name]
    if classes:
        us = [u for u in us if u.name.split(".")[0] in classes]
    return us


def beat_values():
    """how a timing string becomes beats and values: Beat from text / decimals, rounding, BeatValues.from_str (C14's units)"""
    import props.C14 as c
    want = ("Beat.__new__[str]", "Beat.__new__[Decimal]", "Beat.__new__[float]", "Beat.from_str", "Beat.round_to_tick", "BeatValues.from_str")
    return [u for u in c.UNITS if u.name in want]


def engine_core():
    """the state machine the look-ups stand on (C11's units)"""
    import props.C11 as c
    return [u for u in c.UNITS]


def note_readers():
    """NoteData decoding and the note ordering (C07's units)"""
    import props.C07 as c
    return list(c.UNITS)


def open_detect():
    import props.C05 as c
    return [u for u in c.UNITS if u.name.startswith("open")]


def extend(units, *groups):
    out = list(units)
    for g in groups:
        out += _dedupe(g, out)
    return out
