"""
C02 - SSC simfile: serialize then parse gives back the same simfile.
"""
from props.ser_common import (SSCChartSerialize, ChartsSerialize, SimfileSerialize, SerializableStr, SSCParse,
                              SSCChartParse, RoundTripElement, classes)

LEVEL = "proof"
TRUSTED = [
    "T-MSD-1/2/3: msdparser tokenization and escaping (the property names msdparser as its trusted base)",
    "T-OD ordered-map theory incl. reconstruction",
    "S1/S4: join/split inverse, upper idempotent",
    "string identity (`is`) is not a function of the values: any answer consistent with `a is b -> a == b`",
    "charts in a charts list are values (A-CHARTVAL)",
    "pyvc VC generator; z3/cvc5",
]
ASSUMPTIONS = [
    "domain of the statement: keys are upper-case strings other than NOTEDATA, values are str or None, each chart has exactly one of NOTES/NOTES2 holding a string",
    "values in msdparser's escaping gaps are excluded as the property says (known findings of the dependency)",
]
UNITS = [SSCChartSerialize(), ChartsSerialize("ssc"), SimfileSerialize("ssc"), SSCParse(), SSCChartParse("_parse"), SSCChartParse("from_str"),
         RoundTripElement("ssc")]


def witness_search(tier, seed):
    import itertools
    from simfile.ssc import SSCSimfile, SSCChart
    import simfile
    vals = [None, "", "a", "x:y", "a;b", "1", ":240", "::", ":TIME=1:LEN=2", "60\\:240", "cr\rlf\r\nend"]
    for notes, k, v in itertools.product(["", "1", "0000\n0000"], ["CREDIT", "ATTACKS", "DISPLAYBPM", "FOO", "NOTESKIN"], vals):
        for notes_key, pos in itertools.product(("NOTES", "NOTES2"), ("last", "first")):
            ch = SSCChart()
            items = [("STEPSTYPE", "dance-single"), (k, v), ("OTHER", notes)]
            if pos == "first":
                items.insert(0, (notes_key, notes))
            else:
                items.append((notes_key, notes))
            for a, b in items:
                ch[a] = b
            sf = SSCSimfile.blank()
            sf[k] = v                      # the same property at simfile level
            sf.charts.append(ch)
            if k == "CREDIT" and v in ("a", None) and pos == "last":
                # a second chart behind this one (whose note data may be empty): charts end where their note data ends
                ch2 = SSCChart()
                for a, b in (("STEPSTYPE", "dance-double"), ("DIFFICULTY", "Hard"), ("NOTES", "2222")):
                    ch2[a] = b
                sf.charts.append(ch2)
                two = SSCSimfile(string=str(sf))
                if [list(c.items()) for c in two.charts] != [list(c.items()) for c in sf.charts]:
                    return dict(input=dict(charts=[items, list(ch2.items())]), detail=f"two charts serialized and parsed back as {[list(c.items()) for c in two.charts]!r}")
                sf.charts.pop()
            try:
                text = str(sf)
            except Exception as e:
                return dict(input=dict(chart=items), detail=f"str() raised {type(e).__name__}: {e}")
            for entry, auto in (("loads", simfile.loads(text)), ("load(StringIO)", simfile.load(__import__("io").StringIO(text))),
                                ("load(lines)", simfile.load(iter(text.splitlines(keepends=True))))):
                if type(auto) is not SSCSimfile or list(auto.items()) != list(sf.items()) or [list(c.items()) for c in auto.charts] != [list(c.items()) for c in SSCSimfile(string=text).charts]:
                    return dict(input=dict(chart=items, entry=entry), detail=f"simfile.{entry} of the serialized text is not the simfile that SSCSimfile(string=) reads")
            # "ATTACKS/DISPLAYBPM on simfile and chart level are written as unescaped colon-delimited components": the written
            # parameter has one component per colon-separated piece of the value (read back with the tokenizer itself)
            if k in ("ATTACKS", "DISPLAYBPM") and v is not None:
                from msdparser import parse_msd
                comps = [p_.components for p_ in parse_msd(string=text) if p_.key == k]
                want = (k,) + tuple(v.split(":"))
                if any(tuple(c) != want for c in comps) or len(comps) != 2:
                    return dict(input=dict(property=k, value=v), detail=f"{k} is written with the components {comps!r}; one component per colon-separated piece is {want!r}")
            back = SSCSimfile(string=text)
            exp = [(a, b) for a, b in items if a != notes_key] + [(notes_key, notes)]
            got = list(back.charts[0].items()) if back.charts else None
            if got != exp:
                return dict(input=dict(chart=items), detail=f"chart after the round trip: {got!r}, expected {exp!r}")
            if list(back.items()) != list(sf.items()) or str(back) != text:
                return dict(input=dict(chart=items), detail="simfile properties or second serialization differ")
            c2 = SSCChart.from_str(str(ch))
            if list(c2.items()) != exp:
                return dict(input=dict(chart=items), detail=f"SSCChart.from_str(str(chart)) gives {list(c2.items())!r}")
    return None

from pyvc.xcheck import MsdTextProbe   # noqa: E402
THOROUGH_BOUNDED = [MsdTextProbe()]

# tables the statement pins down by value (props/constants_common.py)
from props.constants_common import ClosedConstants   # noqa: E402
UNITS = list(UNITS) + [ClosedConstants('multi-value-properties')]


# supplier units (see props/suppliers.py)
from props import suppliers as _S   # noqa: E402
UNITS = _S.extend(UNITS, _S.loaders("ssc"))
