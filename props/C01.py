"""
C01 - SM simfile: serialize then parse gives back the same simfile.
"""
from props.ser_common import (SMChartSerialize, ChartsSerialize, SimfileSerialize, SerializableStr, SMParse,
                              SMChartFromMsd, RoundTripElement, classes)

LEVEL = "proof"
TRUSTED = [
    "T-MSD-1/2/3: msdparser tokenization and escaping (the property names msdparser as its trusted base); str(MSDParameter(cs)) is a function of cs",
    "T-OD ordered-map theory incl. reconstruction (setting the items of a mapping in order on an empty one gives the mapping back)",
    "S1/S3/S4: join/split inverse, strip of whitespace-decorated text, upper idempotent (assumed string laws, CPython-evaluated on constants)",
    "charts in a charts list are values (A-CHARTVAL)",
    "pyvc VC generator; z3/cvc5",
]
ASSUMPTIONS = [
    "domain of the statement: keys are upper-case strings other than NOTES, values are str or None, chart fields are strings equal to their own strip()",
    "the composition 'msd_params(frag_text(F)) are the Param fragments of F' is T-MSD-1; values in msdparser's escaping gaps are excluded as the property says (known findings of the dependency)",
]
UNITS = [SMChartSerialize(), ChartsSerialize("sm"), SimfileSerialize("sm"), SerializableStr(), SMParse()] + \
        [SMChartFromMsd(e) for e in ("from_msd", "_from_msd", "from_str", "_from_str", "_parse")] + [RoundTripElement("sm")]


def witness_search(tier, seed):
    import itertools
    from simfile.sm import SMSimfile, SMChart
    import simfile
    vals = [None, "", "a", "x:y", ":180", "::", ":TIME=1:LEN=2", "60\\:240", "a;b", "c\\d", "e//f", "line1\nline2", " sp ", "cr\rlf\r\nend"]
    keys = ["TITLE", "ATTACKS", "DISPLAYBPM", "FOO", "NOTESKIN"]
    for k, v in itertools.product(keys, vals):
        for extra in (None, ["x", "y:z"], [" padded ", "\n  line\n"]):
            sf = SMSimfile.blank()
            sf[k] = v
            ch = SMChart.blank()
            ch.extradata = extra
            sf.charts.append(ch)
            try:
                text = str(sf)
            except Exception as e:
                return dict(input=f"SMSimfile.blank() with {k}={v!r}", detail=f"str() raised {type(e).__name__}: {e}")
            back = SMSimfile(string=text)
            if list(back.items()) != list(sf.items()):
                return dict(input=f"{k}={v!r}", detail=f"properties differ after the round trip: {back.get(k)!r}")
            if back != sf or [c.extradata for c in back.charts] != [c.extradata for c in sf.charts]:
                return dict(input=f"{k}={v!r} extradata={extra!r}", detail="charts differ after the round trip")
            if str(back) != text:
                return dict(input=f"{k}={v!r}", detail="second serialization differs")
            auto = simfile.loads(text)
            if type(auto) is not SMSimfile:
                return dict(input=f"{k}={v!r}", detail="not auto-detected as SM")
            if auto != sf or list(auto.items()) != list(sf.items()) or str(auto) != text:
                return dict(input=f"{k}={v!r} extradata={extra!r}", detail=f"simfile.loads(str(sf)) is not the simfile: {k} = {auto.get(k)!r}")
    # the same objects serialized again after an edit: every serialization reflects the object as it is now
    sf = SMSimfile.blank()
    ch = SMChart.blank()
    sf.charts.append(ch)
    for step, edit in enumerate((lambda: None, lambda: setattr(ch, "extradata", ["late"]), lambda: ch.extradata.append("more"), lambda: setattr(ch, "extradata", None),
                                 lambda: setattr(ch, "description", "d2"), lambda: sf.__setitem__("TITLE", "t2"), lambda: sf.charts.append(SMChart.blank()))):
        edit()
        text = str(sf)
        back = SMSimfile(string=text)
        if list(back.items()) != list(sf.items()) or len(back.charts) != len(sf.charts) or \
                any(list(a.items()) != list(b.items()) or (a.extradata or None) != (b.extradata or None) for a, b in zip(sf.charts, back.charts)):
            return dict(input=f"one simfile serialized again after edit #{step} (extradata / field / property / chart list edits in turn)",
                        detail=f"the text does not parse back to the simfile as it is now; chart 0 extradata is {ch.extradata!r}, parsed {back.charts[0].extradata!r}")
    return None

from pyvc.xcheck import MsdTextProbe   # noqa: E402
THOROUGH_BOUNDED = [MsdTextProbe()]

# tables the statement pins down by value (props/constants_common.py)
from props.constants_common import ClosedConstants   # noqa: E402
UNITS = list(UNITS) + [ClosedConstants('sm-chart-fields', 'multi-value-properties')]


# supplier units (see props/suppliers.py): the strict parse of the statement goes through loads / load / the constructor
from props import suppliers as _S   # noqa: E402
UNITS = _S.extend(UNITS, _S.loaders("sm"))
