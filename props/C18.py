"""
C18 - attribute and key views of a simfile or chart never disagree.

Functions under contract (real ASTs, re-read every run):
  simfile._private.property.item_property and its three closures
  (_name_or_alias, getter, setter, deleter) instantiated for every declaration
  found on the real classes; SMChart.__getitem__/__setitem__/__delitem__/
  update/pop/popitem/__eq__.

"For all edit histories" is discharged by invariance: every accessor is
specified on an arbitrary well-formed mapping state (a fresh OMap value) and
its postcondition is an equation over the whole mapping (`m' == od_set(m,k,v)`),
so every other key, every value and the insertion order are covered.
"""
from __future__ import annotations

import inspect
import itertools
import z3

from pyvc.prop import Unit
from pyvc.values import strval, SV, STR, OSTR, BOOL, term, is_sym, fresh, fresh_term
from pyvc import omap as O
from pyvc.execu import HObj, PyRaise
from pyvc.source import repo

LEVEL = "proof"
TRUSTED = [
    "T-OD: collections.OrderedDict as the ordered-map theory pyvc/omap.py (set = replace-in-place-or-append, del, get, in, len)",
    "Python attribute lookup / descriptor protocol as implemented by pyvc/execu.py (MRO read from the imported working tree)",
    "S4: str.upper/str.lower uninterpreted + CPython-evaluated instances on the constants in play",
    "z3 4.x/5.x and cvc5 as SMT back ends; pyvc VC generator (home grown)",
]
ASSUMPTIONS = [
    "values stored in simfile/chart mappings are str or None (the domain of the property)",
    "no aliasing between distinct arguments",
]


def _class_body_declarations(k):
    """`attr = item_property("NAME"[, alias="ALIAS"])` statements in the body of class k, read from the source of the tree
    under check: what the class declares, whatever item_property builds from it (a property, a hand-written descriptor)"""
    import ast
    from pyvc.source import repo
    from pyvc.execu import Unsupported
    tree = repo().modules.get(k.__module__)
    if tree is None:
        return []
    node = next((n for n in ast.walk(tree) if isinstance(n, ast.ClassDef) and n.name == k.__name__), None)
    if node is None:
        return []
    out = []
    for st in node.body:
        if not (isinstance(st, ast.Assign) and isinstance(st.value, ast.Call)):
            continue
        f = st.value.func
        fname = f.id if isinstance(f, ast.Name) else f.attr if isinstance(f, ast.Attribute) else None
        if fname != "item_property":
            continue
        call = st.value
        try:
            args = [ast.literal_eval(a) for a in call.args]
            kw = {x.arg: ast.literal_eval(x.value) for x in call.keywords}
        except Exception:
            raise Unsupported(f"{k.__name__}: an item_property declaration whose arguments are not literals")
        name = args[0] if args else kw.get("name")
        alias = args[1] if len(args) > 1 else kw.get("alias")
        for t in st.targets:
            if isinstance(t, ast.Name):
                out.append((t.id, name, alias))
    return out


def declarations(cls):
    """(attr, name, alias) for every item_property declared on cls or its bases (the nearest declaration of an attribute wins,
    as in attribute lookup), read from the class bodies of the tree under check."""
    from pyvc.execu import Unsupported
    out = []
    seen = set()
    for k in cls.__mro__:
        if not getattr(k, "__module__", "").startswith("simfile"):
            continue
        for attr, name, alias in _class_body_declarations(k):
            if attr in seen:
                continue
            seen.add(attr)
            if k.__dict__.get(attr) is None:
                raise Unsupported(f"{k.__name__}.{attr} is declared as an item_property in the source but the class does not have it")
            out.append((attr, name, alias))
        seen.update(a for a in k.__dict__ if not a.startswith("__"))     # anything else of that name shadows a base's declaration
    return sorted(out, key=lambda d: (d[0], d[1] or "", d[2] or ""))


def _classes():
    import simfile.sm as sm, simfile.ssc as ssc
    return [sm.SMSimfile, ssc.SSCSimfile, ssc.SSCChart, sm.SMChart]


def SIX():
    from props.constants_common import STATED_SM_CHART_FIELDS
    return tuple(STATED_SM_CHART_FIELDS)


def in_six(k):
    return z3.Or([k == strval(c) for c in SIX()])


def spec_key(m, name, alias):
    n = strval(name)
    if not alias:
        return n
    a = strval(alias)
    return z3.If(z3.And(z3.Not(O.om_has(m, n)), O.om_has(m, a)), a, n)


def new_obj(ex, cls, label="self"):
    obj = O.new_map_obj(ex, cls, label=label)
    m = O.map_of(obj)
    if cls.__name__ == "SMChart":
        # representation invariant of SMChart (instance for an arbitrary key): keys are among the six
        ex.ghost["kq"] = kq = fresh_term(z3.StringSort(), "anykey")
        ex.assume(z3.Implies(O.om_has(m, kq), in_six(kq)))
        for c in SIX():
            pass
    return obj, m


class Accessor(Unit):
    """getter / setter / deleter of every declared property of one class."""

    functions = ("simfile._private.property.item_property",)

    def __init__(self, cls, kind):
        self.cls = cls
        self.kind = kind
        self.name = f"{cls.__name__}.<item_property>.{kind}"
        self.decls = declarations(cls)
        self.expected = [f"{kind}:post*"]
        extra = {"SMChart": ("simfile.sm.SMChart.__setitem__", "simfile.sm.SMChart.__delitem__")}.get(cls.__name__, ())
        self.functions = Accessor.functions + extra

    def run(self, ex):
        i = ex.choose([(f"{a}", z3.BoolVal(True)) for a, _, _ in self.decls])
        attr, name, alias = self.decls[i]
        obj, m0 = new_obj(ex, self.cls)
        key = spec_key(m0, name, alias)
        none = OSTR.lift(None)
        is_smchart = self.cls.__name__ == "SMChart"
        try:
            if self.kind == "getter":
                r = ex.getattr(obj, attr)
                ex.prove("getter:post:value", term(r, OSTR) == z3.If(O.om_has(m0, key), O.om_get(m0, key), none))
                ex.prove("getter:post:frame", O.map_of(obj) == m0)
            elif self.kind == "setter":
                v = fresh(STR, "value")
                ex.declare_input("value", v)
                ex.setattr(obj, attr, v)
                ex.prove("setter:post:map", O.map_of(obj) == O.om_set(m0, key, OSTR.some(v.t)))
            else:
                ex.delattr(obj, attr)       # `del obj.attr`: the property's deleter, or the descriptor's __delete__
                if is_smchart:
                    ex.prove("deleter:post:refused", False, "SM chart: removing a key must be refused")
                else:
                    ex.prove("deleter:post:present", O.om_has(m0, key))
                    ex.prove("deleter:post:map", O.map_of(obj) == O.om_del(m0, key))
        except PyRaise as pr:
            e = pr.exc
            if self.kind == "deleter":
                if is_smchart:
                    ex.prove("deleter:post:refusal-frame", O.map_of(obj) == m0)
                else:
                    ex.prove("deleter:post:raises-KeyError-iff-absent",
                             z3.And(z3.BoolVal(issubclass(e.cls, KeyError)), z3.Not(O.om_has(m0, key))))
                    ex.prove("deleter:post:raise-frame", O.map_of(obj) == m0)
            else:
                ex.prove(f"{self.kind}:post:noraise", False, f"{self.kind} of {attr} raised {e!r}")

    def replay(self, model, ob):
        return None


class SMChartGuard(Unit):
    """SMChart key guards on an arbitrary key / value."""

    def __init__(self, op):
        self.op = op
        self.name = f"SMChart.{op}"
        self.functions = (f"simfile.sm.SMChart.{op}",)
        self.expected = [f"{op}:post*"]

    def run(self, ex):
        import simfile.sm as sm
        obj, m0 = new_obj(ex, sm.SMChart)
        kq = ex.ghost["kq"]
        k = fresh(STR, "key")
        ex.declare_input("key", k)
        v = fresh(STR, "value")
        ex.declare_input("value", v)
        none = OSTR.lift(None)
        op = self.op
        six = in_six(k.t)
        try:
            if op == "__getitem__":
                r = ex.models.getitem(ex, obj, k)
                ex.prove("__getitem__:post:only-six", six)
                ex.prove("__getitem__:post:value", term(r, OSTR) == z3.If(O.om_has(m0, k.t), O.om_get(m0, k.t), none))
                ex.prove("__getitem__:post:frame", O.map_of(obj) == m0)
            elif op == "__setitem__":
                ex.models.setitem(ex, obj, k, v)
                m1 = O.map_of(obj)
                ex.prove("__setitem__:post:keys-stay-six", z3.Implies(O.om_has(m1, kq), in_six(kq)),
                         "no key outside the six fixed fields can ever be added")
                ex.prove("__setitem__:post:map",
                         z3.Or([m1 == O.om_set(m0, strval(c), OSTR.some(v.t)) for c in SIX()]),
                         "a successful assignment stores the value under one of the six fields, everything else untouched")
                ex.prove("__setitem__:post:exact-key", z3.Implies(six, m1 == O.om_set(m0, k.t, OSTR.some(v.t))))
            elif op == "__delitem__":
                ex.models.delitem(ex, obj, k)
                ex.prove("__delitem__:post:refused", False, "removing a key must be refused")
            else:
                fn = ex.getattr(obj, op)
                if op == "update":
                    ex.call(fn, [{}], {})
                elif op == "pop":
                    ex.call(fn, [k], {})
                else:
                    ex.call(fn, [], {})
                ex.prove(f"{op}:post:refused", False, "removing/adding keys in bulk must be refused")
        except PyRaise as pr:
            ex.prove(f"{op}:post:refusal-frame", O.map_of(obj) == m0, "a refused operation leaves the mapping unchanged")
            if op == "__getitem__":
                ex.prove("__getitem__:post:raises-KeyError-iff-not-six",
                         z3.And(z3.BoolVal(issubclass(pr.exc.cls, KeyError)), z3.Not(six)))
            if op == "__setitem__":
                ex.prove("__setitem__:post:six-accepted", z3.Not(six), "assignment to one of the six fields must succeed")

    def replay(self, model, ob):
        import simfile.sm as sm
        key, value = model.get("key"), model.get("value")
        if not isinstance(key, str) or not isinstance(value, str):
            return dict(reproduced=False, detail="no concrete key in the counter-model")
        return _replay_smchart(self.op, key, value)


def _replay_smchart(op, key, value):
    import simfile.sm as sm
    c = sm.SMChart.blank()
    before = list(c.items())
    six = set(sm.SM_CHART_PROPERTIES)
    try:
        if op == "__setitem__":
            c[key] = value
        elif op == "__getitem__":
            c[key]
        elif op == "__delitem__":
            del c[key]
    except Exception as e:
        after = list(c.items())
        bad = after != before or (op == "__setitem__" and key in six)
        return dict(reproduced=bad, input=dict(key=key, value=value), detail=f"raised {type(e).__name__}; mapping {'changed' if after != before else 'unchanged'}")
    after = list(c.items())
    extra = [k for k, _ in after if k not in six]
    bad = bool(extra) or (op == "__delitem__")
    return dict(reproduced=bad, input=dict(key=key, value=value),
                detail=f"keys after = {[k for k, _ in after]}", command=f"SMChart.blank()[{key!r}] = {value!r}")


class SMChartEq(Unit):
    name = "SMChart.__eq__"
    functions = ("simfile.sm.SMChart.__eq__",)
    expected = ["__eq__:post*"]

    def run(self, ex):
        import simfile.sm as sm
        a, ma = new_obj(ex, sm.SMChart, "a")
        b = O.new_map_obj(ex, sm.SMChart, label="b")
        mb = O.map_of(b)
        none = OSTR.lift(None)
        r = ex.eq(a, b)

        def g(m, f):
            f = strval(f)
            return z3.If(O.om_has(m, f), O.om_get(m, f), none)

        ex.prove("__eq__:post:six-fields", ex._z(r) == z3.And([g(ma, f) == g(mb, f) for f in SIX()]),
                 "equality sees exactly the six fields of the mapping")


UNITS = []
for _cls in _classes():
    for _kind in ("getter", "setter", "deleter"):
        UNITS.append(Accessor(_cls, _kind))
for _op in ("__getitem__", "__setitem__", "__delitem__", "update", "pop", "popitem"):
    UNITS.append(SMChartGuard(_op))
UNITS.append(SMChartEq())
# "serialization sees exactly the mapping's content": the serializers of the four classes (shared with C01 / C02 / C04)
from props.ser_common import SMChartSerialize, SSCChartSerialize, SimfileSerialize   # noqa: E402
UNITS += [SMChartSerialize(), SSCChartSerialize(), SimfileSerialize("sm"), SimfileSerialize("ssc")]


# ---------------------------------------------------------------------------
# witness search: the property statement evaluated on the real classes, breadth
# first over short histories (used only to find a replayable input after an
# obligation failed; never to establish the property)


def witness_search(tier, seed):
    import simfile.sm as sm, simfile.ssc as ssc

    def mk(kind):
        return {"SMSimfile": sm.SMSimfile.blank, "SSCSimfile": ssc.SSCSimfile.blank,
                "SSCChart": ssc.SSCChart.blank, "SMChart": sm.SMChart.blank}[kind]()

    six = set(sm.SM_CHART_PROPERTIES)
    for cls in _classes():
        kind = cls.__name__
        decls = declarations(cls)
        aliased = [d for d in decls if d[2]] or decls[:1]
        plain = decls[:2]
        ops = []
        for attr, name, alias in aliased + plain:
            keys = [name] + ([alias] if alias else []) + ["ZZZ", name.lower()]
            for v in ("x", "") + ((None,) if kind != "SMChart" else ()):     # None: a key-only parameter (values are str or None)
                ops.append(("setattr", attr, name, alias, v))
                for k in keys:
                    ops.append(("setkey", k, None, None, v))
            ops.append(("delattr", attr, name, alias, None))
            for k in keys:
                ops.append(("delkey", k, None, None, None))
        depth = 2 if tier == "quick" else 3
        # start states: the blank object, and for every aliased property the object that holds only the legacy spelling
        preludes = [()]
        for attr, name, alias in aliased:
            if alias and kind != "SMChart":
                preludes.append((("delkey", name, None, None, None), ("setkey", alias, None, None, "legacy")))
        cases = itertools.chain((((), h) for h in itertools.product(ops, repeat=depth)),
                                ((pre, h) for pre in preludes[1:] for h in itertools.product(ops, repeat=2)))
        for prelude, hist in cases:
            obj = mk(kind)
            model = dict(obj.items())   # python dicts keep insertion order
            trace = []
            for op in tuple(prelude) + tuple(hist):
                trace.append(op[:2] + (op[4],))
                bad = _step(obj, model, op, kind, six, decls)
                if not bad:
                    try:
                        text = str(obj)
                        if kind == "SMChart":
                            want = ":".join(["#NOTES"] + [("\n     " if i < 5 else "\n") + obj[f] for i, f in enumerate(sm.SM_CHART_PROPERTIES)])
                            if "".join(text.split()) != "".join((want + "\n;").split()):
                                bad = f"str(chart) = {text!r} does not hold the six fields in the documented order"
                        else:
                            missing = [k for k, v in obj.items() if isinstance(v, str) and (f"#{k}:{v}").replace("\n", "") not in text.replace("\n", "")]
                            if missing:
                                bad = f"key(s) {missing} of the mapping are missing from the serialized text"
                    except Exception as e:
                        unsaveable = any(not isinstance(v, str) for v in obj.values()) or (kind == "SSCChart" and "NOTES" not in obj and "NOTES2" not in obj)
                        bad = None if unsaveable else f"str() raised {type(e).__name__}: {e}"     # a chart without note data cannot be written (C06)
                if bad:
                    return dict(kind=kind, history=trace, detail=bad)
    return None


def _step(obj, model, op, kind, six, decls):
    what, a, name, alias, v = op
    smchart = kind == "SMChart"

    def key_for(name, alias):
        return alias if (name not in model and alias and alias in model) else name

    try:
        if what == "setattr":
            k = key_for(name, alias)
            setattr(obj, a, v)
            model[k] = v
        elif what == "setkey":
            if smchart and a not in six:
                try:
                    obj[a] = v
                    if a.upper() in six:
                        model[a.upper()] = v      # accepted: a case-normalised store into the fixed field
                except Exception:
                    pass
                # refusal, or a case-normalised store: either way no new key
            else:
                obj[a] = v
                model[a] = v
        elif what == "delattr":
            k = key_for(name, alias)
            if smchart:
                try:
                    delattr(obj, a)
                    return f"delattr {a} on an SM chart was not refused"
                except Exception:
                    pass
            elif k in model:
                delattr(obj, a)
                del model[k]
            else:
                try:
                    delattr(obj, a)
                    return f"delattr {a} on an absent property did not raise"
                except KeyError:
                    pass
        elif what == "delkey":
            if smchart:
                try:
                    del obj[a]
                    return f"del [{a!r}] on an SM chart was not refused"
                except Exception:
                    pass
            elif a in model:
                del obj[a]
                del model[a]
            else:
                try:
                    del obj[a]
                    return "del of an absent key did not raise"
                except KeyError:
                    pass
    except Exception as e:
        return f"{what} {a!r} raised {type(e).__name__}: {e}"
    real = list(obj.items())
    if smchart:
        if [k for k, _ in real if k not in six]:
            return f"SM chart gained a key outside the six fields: {[k for k, _ in real]}"
        real_d = dict(real)
        for k_, v_ in model.items():
            if k_ in six and real_d.get(k_) != v_:
                return f"SM chart field {k_} = {real_d.get(k_)!r}, expected {v_!r}"
    elif real != list(model.items()):
        return f"mapping {real[-4:]} differs from model {list(model.items())[-4:]}"
    for attr, name, alias in decls:
        exp = model.get(key_for(name, alias))
        if getattr(obj, attr) != exp:
            return f"attribute {attr} reads {getattr(obj, attr)!r}, expected {exp!r}"
    return None

from pyvc.xcheck import OrderedDictProbe   # noqa: E402
THOROUGH_BOUNDED = [OrderedDictProbe()]

# tables the statement pins down by value (props/constants_common.py)
from props.constants_common import ClosedConstants   # noqa: E402
UNITS = list(UNITS) + [ClosedConstants('sm-chart-fields', 'alias-declarations')]
