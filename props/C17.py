"""
C17 - SSC to SM conversion applies the caller's policy to every SSC-only property.
"""
from props.conv_common import units_for, CV
from pyvc.prop import Unit

LEVEL = "proof"
TRUSTED = [
    "T-OD ordered-map theory; copy.deepcopy returns an equal, unshared object",
    "closed terms: SMSimfile.blank(), SMChart.blank() evaluated on the working tree",
    "charts in a charts list are values (A-CHARTVAL: a chart is not mutated after it was appended)",
    "S3/S4: str.strip / str.upper uninterpreted with CPython-evaluated constant instances",
    "callee contract BeatValues.from_str (verified under C14); UserList(str) is the list of characters",
    "monotonicity of the prefix predicates refused_before / any_negative_before (true by definition; the induction is not mechanised)",
    "pyvc VC generator; z3/cvc5",
]
ASSUMPTIONS = [
    "domain of the statement: keys are upper-case strings; SSC-only properties hold strings (not None); templates are non-empty",
    "known finding excluded from the domain: a copied chart key outside the six SM fields ends in a bare KeyError",
]
UNITS = units_for("ssc2sm")


def _kf_keyerror():
    from simfile.ssc import SSCSimfile, SSCChart
    from simfile.convert import ssc_to_sm, InvalidPropertyBehavior as B, PropertyType as P
    s = SSCSimfile.blank()
    c = SSCChart.blank()
    c["MUSIC"] = "x.ogg"
    s.charts.append(c)
    try:
        ssc_to_sm(s, invalid_property_behaviors={p: B.IGNORE for p in P})
    except KeyError:
        return True
    except Exception:
        return False
    return False


KNOWN_FINDINGS = {"C17-chart-key-keyerror": _kf_keyerror}


def witness_search(tier, seed):
    import itertools
    from simfile.ssc import SSCSimfile, SSCChart
    from simfile.sm import SMSimfile
    from simfile.convert import ssc_to_sm, sm_to_ssc, InvalidPropertyBehavior as B, PropertyType as P, InvalidPropertyException
    kinds = {"VERSION": "SSC_VERSION", "ORIGIN": "METADATA", "JACKET": "FILE_PATH", "COMBOS": "GAMEPLAY_EVENT", "WARPS": "TIMING_DATA",
             "LABELS": "METADATA", "FAKES": "GAMEPLAY_EVENT"}
    values = {"absent": None, "empty": "", "default": "D", "blankdefault": " D ", "other": "9.000=9", "zero-length": "16.000=0.000", "two-lines": "0.000=0.000,\n8.000=0"}
    for prop, kind in kinds.items():
        for bname in ("COPY_ANYWAY", "IGNORE", "ERROR_UNLESS_DEFAULT", "ERROR", None):
            for vname, v in values.items():
                s = SSCSimfile.blank()
                for lst in CV.SM_SIMFILE_INVALID.values():     # a blank SSC simfile carries several of them
                    for k in lst:
                        s.pop(k, None)
                for k in list(kinds):
                    s.pop(k, None)
                dv = CV.DEFAULT_VALUES.get(prop, "")
                if v is not None:
                    s[prop] = v.replace("D", dv)
                beh = {} if bname is None else {getattr(P, kind): getattr(B, bname)}
                eff = bname or CV.DEFAULT_BEHAVIOR[kind]
                present = v is not None
                val = s.get(prop)
                if prop == "WARPS" and present and val.strip() == "" and val != "":
                    continue
                expect = "copy"
                if present and prop == "WARPS" and val != "":
                    expect = "notimpl"
                elif present:
                    if eff == "IGNORE":
                        expect = "skip"
                    elif eff == "ERROR":
                        expect = "refuse"
                    elif eff == "ERROR_UNLESS_DEFAULT":
                        expect = "skip" if val.strip() == dv else "refuse"
                try:
                    r = ssc_to_sm(s, invalid_property_behaviors=beh)
                    got = "copy" if (present and r.get(prop) == val) else "skip"
                    if not present:
                        got = "copy"
                except InvalidPropertyException as e:
                    got = "refuse" if repr(prop) in str(e) else f"refuse-wrong-name({e})"
                except NotImplementedError:
                    got = "notimpl"
                except Exception as e:
                    got = f"raised {type(e).__name__}"
                if got != expect:
                    return dict(input=dict(property=prop, value=val, behaviors=str(beh)), detail=f"conversion did '{got}', the policy says '{expect}'")
    # two offending properties: the exception names the one that comes first *in the source*, whatever the order of the tables
    for first, second in (("SCROLLS", "COMBOS"), ("COMBOS", "SCROLLS"), ("LABELS", "TICKCOUNTS"), ("JACKET", "ORIGIN"), ("ORIGIN", "JACKET")):
        s = SSCSimfile.blank()
        for lst in CV.SM_SIMFILE_INVALID.values():
            for k in lst:
                s.pop(k, None)
        s[first] = "0.000=2.000"
        s[second] = "0.000=3.000"
        beh = {pt: B.ERROR for pt in P}
        beh[P.SSC_VERSION] = B.IGNORE
        try:
            ssc_to_sm(s, invalid_property_behaviors=beh)
            got = "returned"
        except InvalidPropertyException as e:
            got = "first" if repr(first) in str(e) else "second" if repr(second) in str(e) else f"other ({e})"
        except Exception as e:
            got = f"raised {type(e).__name__}: {e}"
        if got != "first":
            return dict(input=dict(properties_in_source_order=[first, second], behaviors="every kind ERROR"),
                        detail=f"two refused properties: the conversion {'names the ' + got + ' one' if got in ('second',) else got}; the statement asks for the first offending property, {first!r}")
    # supplied templates are left unmodified and share nothing with the result (conversion through one template twice)
    from simfile.sm import SMChart
    tmpl = SMSimfile(string="#TITLE:template;#CREDIT:me;#NOTES:dance-single:t:Easy:1:0,0,0,0,0:0000;")
    ctmpl = SMChart.from_str("dance-single:ct:Hard:9:0,0,0,0,0:1111")
    ctmpl.extradata = ["x"]
    src = SSCSimfile(string="#VERSION:0.83;#TITLE:src;#BPMS:0=120;#NOTEDATA:;#STEPSTYPE:dance-single;#DESCRIPTION:d;#DIFFICULTY:Easy;#METER:2;#RADARVALUES:0,0,0,0,0;#NOTES:0000;")
    before = (list(tmpl.items()), [list(c.items()) for c in tmpl.charts], list(ctmpl.items()), list(ctmpl.extradata))
    for round_ in (1, 2):
        try:
            out = ssc_to_sm(src, simfile_template=tmpl, chart_template=ctmpl)
        except Exception as e:
            return dict(input="ssc_to_sm with a simfile template that has a chart and a chart template", detail=f"raised {type(e).__name__}: {e}")
        after = (list(tmpl.items()), [list(c.items()) for c in tmpl.charts], list(ctmpl.items()), list(ctmpl.extradata))
        if after != before:
            return dict(input=f"ssc_to_sm through the same templates, conversion #{round_}", detail="a supplied template was modified by the conversion")
        if len(out.charts) != 2 or out.charts is tmpl.charts or any(a is b for a in out.charts for b in tmpl.charts):
            return dict(input=f"ssc_to_sm through the same templates, conversion #{round_}", detail=f"result has {len(out.charts)} charts (template 1 + source 1 expected) or shares objects with the template")
    # chart-level properties: each under the behaviour of its own kind
    for kind, plist in CV.SM_CHART_INVALID.items():
        for prop in plist:
            for bname in ("IGNORE", "ERROR_UNLESS_DEFAULT", "ERROR", None):
                for vname, v in values.items():
                    s = SSCSimfile.blank()
                    for lst in CV.SM_SIMFILE_INVALID.values():
                        for k in lst:
                            s.pop(k, None)
                    ch = SSCChart.blank()
                    for lst in CV.SM_CHART_INVALID.values():
                        for k in lst:
                            ch.pop(k, None)
                    dv = CV.DEFAULT_VALUES.get(prop, "")
                    if v is not None:
                        ch[prop] = v.replace("D", dv)
                    s.charts.append(ch)
                    beh = {} if bname is None else {getattr(P, kind): getattr(B, bname)}
                    # every other kind refuses nothing, so that only this property's own kind decides
                    for other in CV.KINDS:
                        if other != kind and bname is not None:
                            beh[getattr(P, other)] = B.IGNORE if bname != "IGNORE" else B.ERROR
                    eff = bname or CV.DEFAULT_BEHAVIOR[kind]
                    present = v is not None
                    val = ch.get(prop)
                    expect = "ok"
                    if present and eff == "ERROR":
                        expect = "refuse"
                    elif present and eff == "ERROR_UNLESS_DEFAULT" and val.strip() != dv:
                        expect = "refuse"
                    try:
                        ssc_to_sm(s, invalid_property_behaviors=beh)
                        got = "ok"
                    except InvalidPropertyException as e:
                        got = "refuse" if repr(prop) in str(e) else f"refuse-wrong-name({e})"
                    except Exception as e:
                        got = f"raised {type(e).__name__}"
                    if got != expect:
                        return dict(input=dict(chart_property=prop, value=val, behaviors=str(beh)), detail=f"conversion did '{got}', the policy for {kind} says '{expect}'")
    return None

from pyvc.xcheck import OrderedDictProbe   # noqa: E402
THOROUGH_BOUNDED = [OrderedDictProbe()]


# supplier units (see props/suppliers.py)
from props import suppliers as _S   # noqa: E402
UNITS = _S.extend(UNITS, _S.timing_readers(), _S.beat_values(), [u for u in _S.accessors(("SMSimfile", "SSCSimfile", "SSCChart")) if u.name.endswith(".getter")])
