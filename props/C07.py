"""
C07 - note data text decodes to exactly one correctly placed note per non-zero cell.
"""
from __future__ import annotations

import ast
import z3

from pyvc.prop import Unit, Bounded
from pyvc.values import strval, SV, STR, INT, BOOL, FRAC, BEAT, OINT, TNT, TSeq, TEnum, term, is_sym, fresh, fresh_term, coerce
from pyvc.execu import HObj, NTVal, LoopSpec, yield_slot, seq_of_items, local_slot, PyRaise
from pyvc import models as M

LEVEL = "other"
TRUSTED = [
    "tuple comparison is lexicographic over all fields (T-STD); functools.total_ordering fills only missing operators",
    "pyvc VC generator; z3/cvc5",
]
ASSUMPTIONS = []
EXPLANATION = ""


def N():
    import simfile.notes as n
    return n


def pos_cmp(op, a: NTVal, b: NTVal):
    """(player, beat, column) lexicographic order, from the statement"""
    pa, ba, ca = term(a.get("player"), INT), coerce(a.get("beat"), FRAC).t if is_sym(a.get("beat")) else FRAC.lift(a.get("beat")), term(a.get("column"), INT)
    pb, bb, cb = term(b.get("player"), INT), coerce(b.get("beat"), FRAC).t if is_sym(b.get("beat")) else FRAC.lift(b.get("beat")), term(b.get("column"), INT)
    lt = z3.Or(pa < pb, z3.And(pa == pb, z3.Or(ba < bb, z3.And(ba == bb, ca < cb))))
    eq = z3.And(pa == pb, ba == bb, ca == cb)
    return {"Lt": lt, "LtE": z3.Or(lt, eq), "Gt": z3.And(z3.Not(lt), z3.Not(eq)), "GtE": z3.Not(lt)}[op]


class NoteCompare(Unit):
    def __init__(self, op):
        self.op = op
        self.name = f"Note.{op}"
        self.functions = ("simfile.notes.Note._comparable", "simfile.notes.Note.__lt__") + \
            tuple(f"simfile.notes.Note.{d}" for d in ("__le__", "__gt__", "__ge__") if _defined(d))
        self.expected = ["post:agrees-with-position-order"]

    def run(self, ex):
        n = N()
        a = ex.sym(TNT(n.Note), "a")
        b = ex.sym(TNT(n.Note), "b")
        try:
            r = ex.compare(getattr(ast, self.op)(), a, b)
        except PyRaise as pr:
            ex.prove("post:noraise", False, f"comparison raised {pr.exc!r}")
            return
        ex.prove("post:agrees-with-position-order", ex._z(r.t if is_sym(r) else r) == pos_cmp(self.op, a, b),
                 "every comparison operator between notes agrees with (player, beat, column) order")

    def replay(self, model, ob):
        import operator
        from props.C13 import _mk_note
        a, b = _mk_note(model["a"]), _mk_note(model["b"])
        f = {"Lt": operator.lt, "LtE": operator.le, "Gt": operator.gt, "GtE": operator.ge}[self.op]
        exp = f((a.player, a.beat, a.column), (b.player, b.beat, b.column))
        try:
            got = f(a, b)
        except Exception as e:
            got = f"raised {type(e).__name__}"
        return dict(reproduced=got != exp, input=dict(a=repr(a), b=repr(b), op=self.op),
                    detail=f"{self.op}(a, b) = {got!r}; position order says {exp!r}")


def _defined(d):
    import simfile.notes as n
    return d in n.Note.__dict__ and getattr(n.Note.__dict__[d], "__module__", "") == "simfile.notes"


UNITS = [NoteCompare(op) for op in ("Lt", "LtE", "Gt", "GtE")]


def witness_search(tier, seed):
    import itertools, operator
    n = N()
    from simfile.timing import Beat
    notes = [n.Note(Beat(b), c, t, p, k) for p in (0, 1) for b in (0, 1) for c in (0, 1) for t in (n.NoteType.TAP, n.NoteType.MINE) for k in (None, 3)]
    for a, b in itertools.product(notes, repeat=2):
        for f in (operator.lt, operator.le, operator.gt, operator.ge):
            exp = f((a.player, a.beat, a.column), (b.player, b.beat, b.column))
            try:
                got = f(a, b)
            except Exception as e:
                got = f"raised {type(e).__name__}"
            if got != exp:
                return dict(input=dict(a=repr(a), b=repr(b), op=f.__name__), detail=f"got {got!r}, position order says {exp!r}")
    return None
