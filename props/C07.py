"""
C07 - note data text decodes to exactly one correctly placed note per non-zero cell.
"""
from __future__ import annotations

import ast
import z3

from pyvc.prop import Unit, Bounded
from pyvc.values import S_at, strval, SV, STR, INT, BOOL, FRAC, BEAT, OINT, TNT, TSeq, TEnum, term, is_sym, fresh, fresh_term, coerce
from pyvc.execu import loop_targets, HObj, NTVal, LoopSpec, yield_slot, seq_of_items, local_slot, PyRaise
from pyvc import models as M

LEVEL = "other"
TRUSTED = [
    "tuple comparison is lexicographic over all fields (T-STD); functools.total_ordering fills only missing operators",
    "str.splitlines/strip uninterpreted (S3/S6); enum lookup NoteType(ch) by value; Fraction exact",
    "contract of _extract_keysound_indices (clean row + index array) - checked by the bounded stand-in only",
    "pyvc VC generator; z3/cvc5",
]
ASSUMPTIONS = ["well-formed rows: every row has the chart's width and only known note characters (instantiated per row / cell)",
               "generator laziness not modelled"]
EXPLANATION = ("Proved (SMT, all inputs): the four comparison operators of Note agree with (player, beat, column) order; "
               "NoteData._iter_measure yields exactly one note per non-zero cell in (row, column) order with beat 4m + 4l/rows as an exact "
               "fraction, column, type, player and keysound index of the cell (two nested loop invariants over prefix spec functions); the "
               "arithmetic lemmas behind the strictly increasing order. Bounded stand-ins (never counted as proved): _extract_keysound_indices "
               "against a declarative tokenizer, and the text-format lemma (split('&')/split(',')/strip/splitlines structure, column count, "
               "str identity, strict order) on generated decorated texts.")


def N():
    import simfile.notes as n
    return n


def pos_cmp(op, a: NTVal, b: NTVal):
    """(player, beat, column) lexicographic order, from the statement"""
    pa, ba, ca = term(a.get("player"), INT), coerce(a.get("beat"), FRAC).t if is_sym(a.get("beat")) else FRAC.lift(a.get("beat")), term(a.get("column"), INT)
    pb, bb, cb = term(b.get("player"), INT), coerce(b.get("beat"), FRAC).t if is_sym(b.get("beat")) else FRAC.lift(b.get("beat")), term(b.get("column"), INT)
    lt = z3.Or(pa < pb, z3.And(pa == pb, z3.Or(ba < bb, z3.And(ba == bb, ca < cb))))
    eq = z3.And(pa == pb, ba == bb, ca == cb)
    return {"Lt": lt, "LtE": z3.Or(lt, eq), "Gt": z3.And(z3.Not(lt), z3.Not(eq)), "GtE": z3.Not(lt)}[op]


class NoteCompare(Unit):
    def __init__(self, op):
        self.op = op
        self.name = f"Note.{op}"
        self.functions = ("simfile.notes.Note._comparable", "simfile.notes.Note.__lt__") + \
            tuple(f"simfile.notes.Note.{d}" for d in ("__le__", "__gt__", "__ge__") if _defined(d))
        self.expected = ["post:agrees-with-position-order"]

    def run(self, ex):
        n = N()
        a = ex.sym(TNT(n.Note), "a")
        b = ex.sym(TNT(n.Note), "b")
        try:
            r = ex.compare(getattr(ast, self.op)(), a, b)
        except PyRaise as pr:
            ex.prove("post:noraise", False, f"comparison raised {pr.exc!r}")
            return
        ex.prove("post:agrees-with-position-order", ex._z(r.t if is_sym(r) else r) == pos_cmp(self.op, a, b),
                 "every comparison operator between notes agrees with (player, beat, column) order")

    def replay(self, model, ob):
        import operator
        from props.C13 import _mk_note
        a, b = _mk_note(model["a"]), _mk_note(model["b"])
        f = {"Lt": operator.lt, "LtE": operator.le, "Gt": operator.gt, "GtE": operator.ge}[self.op]
        exp = f((a.player, a.beat, a.column), (b.player, b.beat, b.column))
        try:
            got = f(a, b)
        except Exception as e:
            got = f"raised {type(e).__name__}"
        return dict(reproduced=got != exp, input=dict(a=repr(a), b=repr(b), op=self.op),
                    detail=f"{self.op}(a, b) = {got!r}; position order says {exp!r}")


def _defined(d):
    import simfile.notes as n
    return d in n.Note.__dict__ and getattr(n.Note.__dict__[d], "__module__", "") == "simfile.notes"


# ---------------------------------------------------------------------------
# decoding: spec functions (prefix folds), from the statement

S_ = z3.StringSort()
ks_clean = z3.Function("ks_clean", S_, S_)                       # row text without [n] brackets
ks_arr = z3.Function("ks_arr", S_, z3.ArraySort(z3.IntSort(), OINT.sort()))  # column -> bracketed index
M.UF["ks_clean"] = (ks_clean, lambda r: N().NoteData._extract_keysound_indices(r))


def note_sorts():
    n = N()
    return TNT(n.Note), TEnum(n.NoteType)


def ntype_of(ch):
    NT, NTy = note_sorts()
    members = list(N().NoteType)
    t = NTy.lift(members[-1])
    for mbr in members[:-1][::-1]:
        t = z3.If(ch == strval(mbr.value), NTy.lift(mbr), t)
    return t


def valid_cell(ch):
    return z3.Or([ch == strval(mbr.value) for mbr in N().NoteType])


_SF = {}


def LF():
    NT, _ = note_sorts()
    if "LF" not in _SF:
        I = z3.IntSort()
        _SF["LF"] = z3.Function("row_notes_prefix", I, I, I, I, S_, S_, I, z3.SeqSort(NT.sort()))
        _SF["MF"] = z3.Function("measure_notes_prefix", I, I, TSeq(STR).sort(), I, z3.SeqSort(NT.sort()))
    return _SF["LF"]


def MF():
    LF()
    return _SF["MF"]


def cell(cl, c):
    return z3.SubString(cl, c, 1)


def spec_beat(m, l, sub):
    """4 x measure index + 4 x row index / rows in that measure, as an exact fraction (stated without division)"""
    return z3.ToReal(4 * m) + z3.ToReal(4 * l) / z3.ToReal(sub)


def cell_notes(p, m, sub, l, cl, raw, c):
    NT, _ = note_sorts()
    note = NT.mk(spec_beat(m, l, sub), c, ntype_of(cell(cl, c)), p, z3.Select(ks_arr(raw), c))
    return z3.If(cell(cl, c) != strval("0"), z3.Unit(note), z3.Empty(z3.SeqSort(NT.sort())))


def LF_unfold(p, m, sub, l, cl, raw, c):
    NT, _ = note_sorts()
    f = LF()
    return [f(p, m, sub, l, cl, raw, z3.IntVal(0)) == z3.Empty(z3.SeqSort(NT.sort())),
            z3.Implies(z3.And(c >= 0, c < z3.Length(cl)),
                       f(p, m, sub, l, cl, raw, c + 1) == z3.Concat(f(p, m, sub, l, cl, raw, c), cell_notes(p, m, sub, l, cl, raw, c)))]


def MF_unfold(p, m, lines, l):
    NT, _ = note_sorts()
    f, g = MF(), LF()
    sub = z3.Length(lines)
    raw = M.str_strip(S_at(lines, l))
    cl = ks_clean(raw)
    return [f(p, m, lines, z3.IntVal(0)) == z3.Empty(z3.SeqSort(NT.sort())),
            z3.Implies(z3.And(l >= 0, l < sub),
                       f(p, m, lines, l + 1) == z3.Concat(f(p, m, lines, l), g(p, m, sub, l, cl, raw, z3.Length(cl))))]


def extract_contract(ex, args, kwargs):
    """callee contract of NoteData._extract_keysound_indices (bounded stand-in below, never counted as proved)"""
    line = args[0]
    ksl = args[1] if len(args) > 1 else kwargs.get("keysound_indices")
    ex.assumptions_used.add("contract of _extract_keysound_indices: returns ks_clean(row) and records ks_arr(row) (bounded stand-in)")
    lt = term(line, STR)
    if ksl is not None:
        ex.setfield(ksl, "arr", ks_arr(lt))
    return SV(ks_clean(lt), STR)


class IterMeasure(Unit):
    name = "NoteData._iter_measure"
    functions = ("simfile.notes.NoteData._iter_measure", "simfile.timing.Beat.__new__")
    expected = ["_iter_measure#loop0:inv-keep:yielded", "_iter_measure#loop1:inv-keep:yielded", "post:one-note-per-nonzero-cell"]
    Q = "simfile.notes.NoteData._iter_measure"

    def run(self, ex):
        n = N()
        NT, NTy = note_sorts()
        nd = HObj(n.NoteData, {}, "self")
        cols = ex.sym(INT, "columns")
        ex.assume(cols.t >= 1)
        nd.fields["_columns"] = cols
        p, m = ex.sym(INT, "p"), ex.sym(INT, "m")
        ex.assume(z3.And(p.t >= 0, m.t >= 0))
        measure = ex.sym(STR, "measure")
        lines = M.str_splitlines(measure.t)
        sub = z3.Length(lines)
        ex.callee_contracts["simfile.notes.NoteData._extract_keysound_indices"] = extract_contract

        def row(l):
            raw = M.str_strip(S_at(lines, l))
            return raw, ks_clean(raw)

        def wellformed_row(l):
            raw, cl = row(l)
            return z3.Length(cl) == cols.t

        def outer_inv(ex_, fr, l, vals):
            return [("yielded", vals["yielded"].t == MF()(p.t, m.t, lines, l))]

        def outer_using(ex_, fr, l, vals):
            return MF_unfold(p.t, m.t, lines, l) + [z3.Implies(z3.And(l >= 0, l < sub), wellformed_row(l))]

        def inner_inv(ex_, fr, c, vals):
            l = term(fr.locals[loop_targets(fr.fi, 0)[0]], INT)      # the row index of the enclosing loop, whatever it is called
            raw, cl = row(l)
            y0 = fr.loop_entry[(self.Q, 1)]["yielded"].t
            return [("yielded", vals["yielded"].t == z3.Concat(y0, LF()(p.t, m.t, sub, l, cl, raw, c)))]

        def inner_using(ex_, fr, c, vals):
            l = term(fr.locals[loop_targets(fr.fi, 0)[0]], INT)
            raw, cl = row(l)
            wf_cell = z3.Implies(z3.And(c >= 0, c < z3.Length(cl)), z3.Or(cell(cl, c) == strval("0"), valid_cell(cell(cl, c))))
            return LF_unfold(p.t, m.t, sub, l, cl, raw, c) + [wf_cell]

        ex.loop_specs[(self.Q, 0)] = LoopSpec([yield_slot(NT)], outer_inv, outer_using)
        ex.loop_specs[(self.Q, 1)] = LoopSpec([yield_slot(NT)], inner_inv, inner_using)
        fn = ex.closure_of(self.Q, owner=n.NoteData)
        kind, r = ex.run_function(fn, [nd, p, m, measure])
        if kind == "raise":
            ex.prove("post:noraise", False, f"raised {r!r} on well-formed rows")
            return
        out = seq_of_items(ex, r.items, TSeq(NT))
        ex.prove_eq("post:one-note-per-nonzero-cell", out.t, MF()(p.t, m.t, lines, sub),
                 "exactly one note per non-zero cell, in (row, column) order, with the beat, column, type, player and keysound index of the cell")


def MEAS(p, m, measure):
    """notes of one (already stripped) measure = the proved postcondition of _iter_measure"""
    lines = M.str_splitlines(measure)
    return MF()(p, m, lines, z3.Length(lines))


def IFn():
    NT, _ = note_sorts()
    if "IF" not in _SF:
        I = z3.IntSort()
        _SF["IF"] = z3.Function("section_notes_prefix", I, TSeq(STR).sort(), I, z3.SeqSort(NT.sort()))
        _SF["OF"] = z3.Function("chart_notes_prefix", TSeq(STR).sort(), I, z3.SeqSort(NT.sort()))
    return _SF["IF"]


def OFn():
    IFn()
    return _SF["OF"]


class NoteDataIter(Unit):
    name = "NoteData.__iter__"
    functions = ("simfile.notes.NoteData.__iter__",)
    expected = ["__iter__#loop0:inv-keep:yielded", "__iter__#loop1:inv-keep:yielded", "post:sections-measures-in-order"]
    Q = "simfile.notes.NoteData.__iter__"

    def run(self, ex):
        n = N()
        NT, _ = note_sorts()
        text = ex.sym(STR, "notedata")
        nd = HObj(n.NoteData, {"_notedata": text, "_columns": ex.sym(INT, "columns")}, "self")
        secs = M.str_split(text.t, strval("&"))
        empty = z3.Empty(z3.SeqSort(NT.sort()))

        def im_contract(ex_, args, kwargs):
            ex_.assumptions_used.add("callee contract _iter_measure: yields MEAS(p, m, measure) (proved in unit NoteData._iter_measure)")
            _, p_, m_, meas = args
            return SV(MEAS(term(p_, INT), term(m_, INT), term(meas, STR)), TSeq(NT))

        ex.callee_contracts["simfile.notes.NoteData._iter_measure"] = im_contract

        def outer_inv(ex_, fr, p_, vals):
            return [("yielded", vals["yielded"].t == OFn()(secs, p_))]

        def outer_using(ex_, fr, p_, vals):
            ms = M.str_split(S_at(secs, p_), strval(","))
            return [OFn()(secs, z3.IntVal(0)) == empty,
                    z3.Implies(z3.And(p_ >= 0, p_ < z3.Length(secs)),
                               OFn()(secs, p_ + 1) == z3.Concat(OFn()(secs, p_), IFn()(p_, ms, z3.Length(ms))))]

        def inner_inv(ex_, fr, k, vals):
            p_ = term(fr.locals[loop_targets(fr.fi, 0)[0]], INT)       # the player index of the enclosing loop
            ms = M.str_split(S_at(secs, p_), strval(","))
            y0 = fr.loop_entry[(self.Q, 1)]["yielded"].t
            return [("yielded", vals["yielded"].t == z3.Concat(y0, IFn()(p_, ms, k)))]

        def inner_using(ex_, fr, k, vals):
            p_ = term(fr.locals[loop_targets(fr.fi, 0)[0]], INT)       # the player index of the enclosing loop
            ms = M.str_split(S_at(secs, p_), strval(","))
            return [IFn()(p_, ms, z3.IntVal(0)) == empty,
                    z3.Implies(z3.And(k >= 0, k < z3.Length(ms)),
                               IFn()(p_, ms, k + 1) == z3.Concat(IFn()(p_, ms, k), MEAS(p_, k, M.str_strip(S_at(ms, k)))))]

        ex.loop_specs[(self.Q, 0)] = LoopSpec([yield_slot(NT)], outer_inv, outer_using)
        ex.loop_specs[(self.Q, 1)] = LoopSpec([yield_slot(NT)], inner_inv, inner_using)
        fn = ex.closure_of(self.Q, owner=n.NoteData)
        kind, r = ex.run_function(fn, [nd])
        if kind == "raise":
            ex.prove("post:noraise", False, f"raised {r!r}")
            return
        out = seq_of_items(ex, r.items, TSeq(NT))
        ex.prove_eq("post:sections-measures-in-order", out.t, OFn()(secs, z3.Length(secs)),
                    "players in '&' order, measures in ',' order, each measure stripped and decoded with its own indices")


class NoteDataStr(Unit):
    name = "NoteData.__init__/__str__"
    functions = ("simfile.notes.NoteData.__init__", "simfile.notes.NoteData.__str__", "simfile.notes.NoteData.columns")
    expected = ["post:str-is-the-text", "post:columns-from-_get_columns"]

    def run(self, ex):
        n = N()
        text = ex.sym(STR, "text")
        cols = ex.sym(INT, "cols")

        def gc(ex_, args, kwargs):
            ex_.ghost["gc_arg"] = args[-1]
            return cols

        ex.callee_contracts["simfile.notes.NoteData._get_columns"] = gc
        nd = HObj(n.NoteData, {}, "self")
        kind, r = ex.run_function(ex.closure_of("simfile.notes.NoteData.__init__", owner=n.NoteData), [nd, text])
        if kind == "raise":
            ex.prove("post:noraise", False, f"raised {r!r}")
            return
        s_ = ex.models.to_str(ex, nd)
        ex.prove("post:str-is-the-text", term(s_, STR) == text.t, "the string form of the note data is the original text unchanged")
        ex.prove("post:columns-from-_get_columns", z3.And(term(ex.getattr(nd, "columns"), INT) == cols.t, term(ex.ghost["gc_arg"], STR) == text.t))


class OrderLemma(Unit):
    """Layer 2 (arithmetic facts behind the strictly increasing order)."""
    name = "lemma:ORDER"
    functions = ()
    expected = ["lemma:row-beats-increase", "lemma:measure-bounds", "lemma:next-measure-later"]

    def run(self, ex):
        m, l, sub, sub2 = (ex.sym(INT, x).t for x in ("m", "l", "rows", "rows2"))
        ex.assume(z3.And(m >= 0, sub >= 1, sub2 >= 1, l >= 0, l < sub))
        b = spec_beat(m, l, sub)
        ex.prove("lemma:measure-bounds", z3.And(b >= z3.ToReal(4 * m), b < z3.ToReal(4 * m + 4)),
                 "every row of measure m lies in [4m, 4m+4)")
        ex.prove("lemma:row-beats-increase", z3.Implies(l + 1 < sub, b < spec_beat(m, l + 1, sub)))
        ex.prove("lemma:next-measure-later", b < spec_beat(m + 1, z3.IntVal(0), sub2))


UNITS = [NoteCompare(op) for op in ("Lt", "LtE", "Gt", "GtE")] + [IterMeasure(), NoteDataIter(), NoteDataStr(), OrderLemma()]


# ---------------------------------------------------------------------------
# the statement as an executable oracle (used by the bounded stand-ins and the witness search)

def oracle_row(row):
    """tokenize a row: [(cell char, keysound index or None)]"""
    cells = []
    i = 0
    while i < len(row):
        ch = row[i]
        i += 1
        ks = None
        if i < len(row) and row[i] == "[":
            j = row.index("]", i)
            ks = int(row[i + 1:j])
            i = j + 1
        cells.append((ch, ks))
    return cells


def oracle_decode(text):
    n = N()
    from simfile.timing import Beat
    out = []
    for p, section in enumerate(text.split("&")):
        for m, measure in enumerate(section.split(",")):
            rows = [r.strip() for r in measure.strip().splitlines()]
            for l, row in enumerate(rows):
                for c, (ch, ks) in enumerate(oracle_row(row)):
                    if ch != "0":
                        out.append(n.Note(Beat(4 * m * len(rows) + 4 * l, len(rows)), c, n.NoteType(ch), p, ks))
    return out


def gen_texts(tier, seed):
    """well-formed note data texts with decoration (blanks, blank lines, CRLF, brackets)"""
    import itertools, random
    rnd = random.Random(seed)
    cells = ["0", "1", "2", "3", "M", "1[0]", "4[12]", "K[345]", "L", "F", "A"]
    total = 1500 if tier == "quick" else 40000
    for k in range(total):
        cols = rnd.randint(1, 4 if tier == "quick" else 8) if rnd.random() < 0.9 else rnd.randint(9, 16)
        players = rnd.choice([1, 1, 1, 2, 3])
        nl = rnd.choice(["\n", "\r\n"])
        deco = rnd.random() < 0.5
        secs = []
        for _ in range(players):
            ms = []
            for _ in range(rnd.randint(1, 3)):
                rows = rnd.choice([1, 2, 3, 4, 5, 8, 12]) if rnd.random() < 0.95 else rnd.choice([16, 24, 32, 48, 64, 192])
                rs = []
                for _ in range(rows):
                    r = "".join(rnd.choice(cells) if rnd.random() < 0.35 else "0" for _ in range(cols))
                    if deco:
                        r = " " * rnd.randint(0, 2) + r + " " * rnd.randint(0, 2)
                    rs.append(r)
                body = nl.join(rs)
                if deco:
                    body = nl * rnd.randint(0, 2) + body + nl * rnd.randint(0, 2)
                else:
                    body = nl + body + nl if rnd.random() < 0.5 else body
                ms.append(body)
            secs.append(",".join(ms))
        # the statement: player sections are separated by '&' on its own line
        yield (nl + "&" + nl).join(secs), cols


def check_text(text, cols):
    import operator
    n = N()
    try:
        nd = n.NoteData(text)
        got = list(nd)
    except Exception as e:
        return f"decoding raised {type(e).__name__}: {e}"
    exp = oracle_decode(text)
    if got != exp:
        k = next((i for i, (a, b) in enumerate(zip(got, exp)) if a != b), min(len(got), len(exp)))
        return f"note {k}: got {got[k] if k < len(got) else None!r}, statement prescribes {exp[k] if k < len(exp) else None!r} ({len(got)} vs {len(exp)} notes)"
    if nd.columns != cols:
        return f"columns = {nd.columns}, row width is {cols}"
    if str(nd) != text:
        return "str(NoteData(text)) differs from the text"
    for a, b in zip(got, got[1:]):
        if not (a < b and a <= b and b > a and b >= a and (a.player, a.beat, a.column) < (b.player, b.beat, b.column)):
            return f"order: {a!r} then {b!r}"
    return None


class TextFormat(Bounded):
    name = "text-format-lemma"
    function = "simfile.notes.NoteData.__init__/_get_columns/__iter__/__str__ (split/strip/splitlines structure)"

    def bound(self, tier):
        return ("1500 generated well-formed texts: <=4 columns (one in ten: 9..16), <=3 players, <=3 measures, rows in {1,2,3,4,5,8,12} (one in twenty: 16..192), LF/CRLF, blank decoration, brackets" if tier == "quick"
                else "40000 generated well-formed texts: <=8 columns (one in ten: 9..16), <=3 players, <=3 measures, rows in {1,2,3,4,5,8,12} (one in twenty: 16..192), LF/CRLF, blank decoration, brackets; plus every chart of the corpus")

    def run(self, tier, seed):
        import time, glob
        t0 = time.time()
        cases, failures = 0, []
        for text, cols in gen_texts(tier, seed):
            cases += 1
            bad = check_text(text, cols)
            if bad:
                failures.append(dict(input=text, detail=bad))
                if len(failures) >= 3:
                    break
        if tier == "thorough" and not failures:
            import simfile
            n = N()
            for path in sorted(glob.glob("/repo/testdata/**/*.s*", recursive=True)):
                try:
                    sf = simfile.open(path)
                except Exception:
                    continue
                for ch in sf.charts:
                    cases += 1
                    got = list(n.NoteData(ch))
                    if got != oracle_decode(ch.notes):
                        failures.append(dict(input=f"{path}:{ch.stepstype}/{ch.difficulty}", detail="corpus chart decodes differently from the statement"))
        return dict(cases=cases, failures=failures, seconds=time.time() - t0)


class ExtractKeysounds(Bounded):
    private = True      # calls the private helper itself: a failure needs something public failing too (pyvc/prop.py)
    name = "_extract_keysound_indices"
    function = "simfile.notes.NoteData._extract_keysound_indices"

    def bound(self, tier):
        k = 4 if tier == "quick" else 6
        return f"all rows of <= {k} cells over cell kinds {{0,1,M}} x bracket {{none,[0],[12],[345]}} on non-zero cells, against the declarative tokenizer (clean row, index per column, untouched cells stay None)"

    def run(self, tier, seed):
        import itertools, time
        n = N()
        t0 = time.time()
        kinds = ["0", "1", "M", "1[0]", "M[12]", "1[345]"]
        cases, failures = 0, []
        for ln in range(0, (4 if tier == "quick" else 6) + 1):
            for combo in itertools.product(kinds, repeat=ln):
                row = "".join(combo)
                cases += 1
                toks = oracle_row(row)
                ks = [None] * len(toks)
                try:
                    clean = n.NoteData._extract_keysound_indices(row, ks)
                    clean2 = n.NoteData._extract_keysound_indices(row)
                except Exception as e:
                    failures.append(dict(input=row, detail=f"raised {type(e).__name__}: {e}"))
                    continue
                if clean != "".join(t[0] for t in toks) or clean2 != clean or ks != [t[1] for t in toks]:
                    failures.append(dict(input=row, detail=f"clean={clean!r} indices={ks!r}, tokenizer says {toks!r}"))
                if len(failures) >= 3:
                    break
        return dict(cases=cases, failures=failures, seconds=time.time() - t0)


BOUNDED = [ExtractKeysounds(), TextFormat()]


def witness_search(tier, seed):
    import itertools, operator
    n = N()
    for text, cols in gen_texts("quick", seed):
        bad = check_text(text, cols)
        if bad:
            return dict(input=dict(text=text), detail=bad)
    from simfile.timing import Beat
    notes = [n.Note(Beat(b), c, t, p, k) for p in (0, 1) for b in (0, 1) for c in (0, 1) for t in (n.NoteType.TAP, n.NoteType.MINE) for k in (None, 3)]
    for a, b in itertools.product(notes, repeat=2):
        for f in (operator.lt, operator.le, operator.gt, operator.ge):
            exp = f((a.player, a.beat, a.column), (b.player, b.beat, b.column))
            try:
                got = f(a, b)
            except Exception as e:
                got = f"raised {type(e).__name__}"
            if got != exp:
                return dict(input=dict(a=repr(a), b=repr(b), op=f.__name__), detail=f"got {got!r}, position order says {exp!r}")
    return None


# thorough tier: CPython cross-check of the encoder on the note comparisons (tuple comparison, total_ordering helpers)
def _thorough_bounded():
    from pyvc.xcheck import EncoderCrossCheck
    import operator

    def cases(tier):
        n = N()
        from simfile.timing import Beat
        T = n.NoteType
        notes = [n.Note(Beat(b), c, t, p, k) for b, c, t, p, k in ((0, 0, T.TAP, 0, None), (0, 1, T.MINE, 0, None), (1, 0, T.TAP, 0, 3), (0, 0, T.HOLD_HEAD, 1, None),
                                                                  (0, 0, T.TAP, 0, 7), (Beat(1, 3), 2, T.TAIL, 0, None))]
        for a in notes:
            for b in notes:
                yield (a, b)

    out = []
    for d, f in (("__lt__", operator.lt), ("__le__", operator.le), ("__gt__", operator.gt), ("__ge__", operator.ge)):
        if _defined(d):
            out.append(EncoderCrossCheck(f"Note.{d}", f"simfile.notes.Note.{d}", lambda: N().Note, (lambda a, b, f=f: f(a, b)), cases))
    return out


THOROUGH_BOUNDED = _thorough_bounded()
