"""
C20 - asset lookup: the named file if it exists, else a pattern match, else None.
"""
from __future__ import annotations

import z3

from pyvc.prop import Unit
from pyvc.values import strval, SV, STR, OSTR, INT, BOOL, TSeq, TOpt, term, is_sym, fresh, fresh_term, S_at
from pyvc import models as M, fsys as FS, omap as O
from pyvc.execu import loop_targets, HObj, PyRaise, LoopSpec
from props.C19 import make_fs, join_of, norm_of, fn, SEQ

LEVEL = "proof"
TRUSTED = [
    "T-FS: listdir / isdir / exists are functions of an unchanging directory tree; a listed entry exists at join(dir, entry); normpath preserves existence",
    "T-PATH: os.path / fs.path join, split, normpath, splitext as uninterpreted functions",
    "T-STD: re.search for the fixed presets (^, literal, $) as prefix / substring / suffix tests; str.lower uninterpreted with constant instances",
    "T-OD: simfile.get(key) on the ordered-map theory",
    "pyvc VC generator; z3/cvc5",
]
ASSUMPTIONS = ["which of several matching entries is returned is the first in listing order (the property does not claim more); the disc lookup by name is not claimed",
               "'never a path that does not exist' follows from the postcondition (the answer is join(dir, listed entry), normalised) and T-FS; that last step is not mechanised"]
S = z3.StringSort()
Q = "simfile.assets."
KINDS = ("MUSIC", "BANNER", "BACKGROUND", "CDTITLE", "JACKET", "CDIMAGE", "DISC")


def pattern(kind, name):
    """the documented pattern per kind of asset, over the lower-cased stem (music: audio extension)"""
    low = M.str_lower(FS.splitext_root(name))
    has = lambda s_: z3.Contains(low, strval(s_))
    ends = lambda s_: z3.SuffixOf(strval(s_), low)
    starts = lambda s_: z3.PrefixOf(strval(s_), low)
    if kind == "MUSIC":
        ln = M.str_lower(name)
        return z3.Or([z3.SuffixOf(strval(e), ln) for e in (".mp3", ".oga", ".ogg", ".wav")])
    return {"BANNER": z3.Or(has("banner"), ends("bn")), "BACKGROUND": z3.Or(has("background"), ends("bg")),
            "CDTITLE": has("cdtitle"), "JACKET": z3.Or(starts("jk_"), has("jacket"), has("albumart")),
            "CDIMAGE": ends("-cd"), "DISC": z3.Or(ends(" disc"), ends(" title"))}[kind]


def FIRSTPAT(kind):
    return fn(f"first_{kind.lower()}_match_before", SEQ.sort(), z3.IntSort(), OSTR.sort())


def FIRSTCI():
    return fn("first_same_name_ignoring_case_before", SEQ.sort(), S, z3.IntSort(), OSTR.sort())


def firstpat_unfold(kind, L, i):
    f = FIRSTPAT(kind)
    x = S_at(L, i)
    return [f(L, z3.IntVal(0)) == OSTR.lift(None),
            z3.Implies(z3.And(i >= 0, i < z3.Length(L)),
                       f(L, i + 1) == z3.If(z3.And(OSTR.is_none(f(L, i)), pattern(kind, x)), OSTR.some(x), f(L, i)))]


def firstci_unfold(L, low, i):
    f = FIRSTCI()
    x = S_at(L, i)
    return [f(L, low, z3.IntVal(0)) == OSTR.lift(None),
            z3.Implies(z3.And(i >= 0, i < z3.Length(L)),
                       f(L, low, i + 1) == z3.If(z3.And(OSTR.is_none(f(L, low, i)), M.str_lower(x) == low), OSTR.some(x), f(L, low, i)))]


def A():
    import simfile.assets as a
    return a


class Matches(Unit):
    def __init__(self, kind):
        self.kind = kind
        self.name = f"AssetDefinition.matches[{kind}]"
        self.functions = (Q + "AssetDefinition.matches", "simfile._private.extensions.match")
        self.expected = ["post:documented-pattern"]

    def run(self, ex):
        a = A()
        FS.install()
        path = ex.sym(STR, "path")
        d = a.ASSET_DEFINITIONS[self.kind]
        kind, r = ex.run_function(ex.closure_of(Q + "AssetDefinition.matches", owner=a.AssetDefinition), [d, path])
        ex.prove("post:documented-pattern", z3.BoolVal(kind == "return") if kind != "return" else ex._z(ex.truthy(r)) == pattern(self.kind, path.t),
                 "matches exactly the documented pattern for this kind of asset")


def matches_contract(ex, args, kwargs):
    a = A()
    self, path = args[0], args[1]
    kind = [k for k, v in a.ASSET_DEFINITIONS.items() if v is self]
    if not kind:
        from pyvc.execu import Unsupported
        raise Unsupported("matches() on an unknown asset definition")
    ex.assumptions_used.add("callee contract AssetDefinition.matches: the documented pattern (proved in units AssetDefinition.matches[*])")
    return SV(pattern(kind[0], term(path, STR)), BOOL)


def new_assets(ex, native=True, cache=None):
    a = A()
    from simfile._private.path import FSPath
    import simfile.sm as sm
    fs = make_fs(ex, native)
    sdir = ex.sym(STR, "simfile_dir")
    sf = O.new_map_obj(ex, sm.SMSimfile, label="simfile")
    obj = HObj(a.Assets, {"simfile_dir": sdir, "filesystem": fs, "_dirlist": SV(FS.listing(sdir.t), SEQ), "_cache": dict(cache or {}),
                          "_path": HObj(FSPath, {"filesystem": fs}, "_path"), "simfile": sf}, "self")
    return obj, sdir, sf, fs


class GetCI(Unit):
    def __init__(self, native):
        self.native = native
        self.name = f"Assets._get_case_insensitive_path[{'NativeOSFS' if native else 'PyFilesystem'}]"
        self.functions = (Q + "Assets._get_case_insensitive_path", "simfile._private.path.FSPath.split", "simfile._private.path.FSPath.join")
        self.expected = ["post:first-entry-with-that-name-ignoring-case"]
        self.LQ = Q + "Assets._get_case_insensitive_path"

    def run(self, ex):
        nat = self.native
        obj, sdir, sf, fs = new_assets(ex, nat)
        path = ex.sym(STR, "path")
        head = (FS.os_split_head if nat else FS.fs_split_head)(path.t)
        tail = (FS.os_split_tail if nat else FS.fs_split_tail)(path.t)
        low = M.str_lower(tail)
        L = FS.listing(head)

        def inv(ex_, fr, i, vals):
            return [("no-such-entry-so-far", OSTR.is_none(FIRSTCI()(L, low, i)))]

        def using(ex_, fr, i, vals):
            return firstci_unfold(L, low, i)

        ex.loop_specs[(self.LQ, 0)] = LoopSpec([], inv, using)
        kind, r = ex.run_function(ex.closure_of(self.LQ, owner=obj.cls), [obj, path])
        if kind == "raise":
            ex.prove("post:noraise", False, f"raised {r!r}")
            return
        n = z3.Length(L)
        i = ex.ghost.get(("loop_i", (self.LQ, 0)))
        in_iter = any(l.endswith(":iter") for _, l in ex.decisions)
        if r is None:
            ex.prove("post:first-entry-with-that-name-ignoring-case", z3.Or(z3.Not(FS.isdir_(head)), OSTR.is_none(FIRSTCI()(L, low, n))),
                     "None only when the containing directory does not exist or lists no such name")
        else:
            ok = in_iter and i is not None
            ex.prove("post:first-entry-with-that-name-ignoring-case",
                     z3.And(FS.isdir_(head), OSTR.is_none(FIRSTCI()(L, low, i)), M.str_lower(S_at(L, i)) == low,
                            term(r, STR) == join_of(nat, head, S_at(L, i))) if ok else z3.BoolVal(False),
                     "the first listed entry of the containing directory whose name equals the requested one ignoring case")


CI_RESULT = z3.Function("case_insensitive_path", S, OSTR.sort())


class AssetProperty(Unit):
    def __init__(self, kind, native=True):
        self.kind, self.native = kind, native
        self.name = f"Assets._asset_property[{kind}{'' if native else '/PyFilesystem'}]"
        self.functions = (Q + "Assets._asset_property", Q + "Assets._cache_path", Q + f"Assets.{kind.lower()}")
        self.expected = ["post:named-file", "post:pattern-match", "post:none", "post:cached"]
        self.LQ = Q + "Assets._asset_property"

    def run(self, ex):
        nat = self.native
        obj, sdir, sf, fs = new_assets(ex, nat)
        m = O.map_of(sf)
        kind_ = self.kind
        L = FS.listing(sdir.t)
        ex.callee_contracts[Q + "AssetDefinition.matches"] = matches_contract

        def ci(ex_, args, kwargs):
            ex_.assumptions_used.add("callee contract _get_case_insensitive_path: Optional path, a function of the requested path (proved in its unit)")
            ex_.ghost["ci_arg"] = term(args[1], STR)
            return SV(CI_RESULT(term(args[1], STR)), OSTR)

        ex.callee_contracts[Q + "Assets._get_case_insensitive_path"] = ci

        def inv(ex_, fr, i, vals):
            return [("no-pattern-match-so-far", OSTR.is_none(FIRSTPAT(kind_)(L, i)))]

        def using(ex_, fr, i, vals):
            return firstpat_unfold(kind_, L, i)

        ex.loop_specs[(self.LQ, 0)] = LoopSpec([], inv, using)
        # through the public property
        kind, r = ex.run_function(lambda: None, []) if False else (None, None)
        try:
            r = ex.getattr(obj, kind_.lower())
            kind = "return"
        except PyRaise as pr:
            kind, r = "raise", pr.exc
        if kind == "raise":
            ex.prove("post:noraise", False, f"raised {r!r}")
            return
        spec = O.om_get(m, strval(kind_))
        specified = z3.And(O.om_has(m, strval(kind_)), z3.Not(OSTR.is_none(spec)), z3.Length(OSTR.val(spec)) > 0)
        full = join_of(nat, sdir.t, OSTR.val(spec))
        named = z3.And(specified, z3.Not(OSTR.is_none(CI_RESULT(full))), z3.Length(OSTR.val(CI_RESULT(full))) > 0)
        n = z3.Length(L)
        i = ex.ghost.get(("loop_i", (self.LQ, 0)))
        in_iter = any(l.endswith(":iter") for _, l in ex.decisions)
        cache = obj.fields["_cache"]
        ex.prove("post:cached", z3.BoolVal(kind_ in cache) if kind_ not in cache else ex._z(ex.eq(cache[kind_], r)),
                 "the answer is remembered, so asking again returns the same answer")
        if r is None or (is_sym(r) and r.ty.kind == "opt" and ex.branch(OSTR.is_none(r.t), "result-none")):
            ex.prove("post:none", z3.And(z3.Not(named), OSTR.is_none(FIRSTPAT(kind_)(L, n))), "None only when neither the named file nor any matching entry exists")
            return
        rt = term(r, STR) if not (is_sym(r) and r.ty.kind == "opt") else OSTR.val(r.t)
        if ex.branch(named, "spec:named"):
            ex.prove("post:named-file", rt == norm_of(nat, OSTR.val(CI_RESULT(full))), "the named file (found ignoring case), normalised")
        else:
            ok = in_iter and i is not None
            ex.prove("post:pattern-match",
                     z3.And(OSTR.is_none(FIRSTPAT(kind_)(L, i)), pattern(kind_, S_at(L, i)), rt == norm_of(nat, join_of(nat, sdir.t, S_at(L, i)))) if ok else z3.BoolVal(False),
                     "otherwise the first listed entry matching the documented pattern, joined to the directory and normalised")


class AssetCached(Unit):
    name = "Assets._asset_property[cached]"
    functions = (Q + "Assets._asset_property",)
    expected = ["post:cached-answer-returned"]

    def run(self, ex):
        v = ex.sym(OSTR, "cached")
        obj, sdir, sf, fs = new_assets(ex, True, cache={"BANNER": v})
        ex.callee_contracts[Q + "AssetDefinition.matches"] = lambda *a: (_ for _ in ()).throw(AssertionError("lookup repeated"))
        kind, r = ex.run_function(ex.closure_of(Q + "Assets._asset_property", owner=obj.cls), [obj, "BANNER"])
        ex.prove("post:cached-answer-returned", z3.BoolVal(kind == "return") if kind != "return" else term(r, OSTR) == v.t,
                 "asking again returns the remembered answer")


def IMGF(ext):
    return fn(f"first_image_{ext.strip('.')}_before", SEQ.sort(), z3.IntSort(), OSTR.sort())


class PackBanner(Unit):
    def __init__(self, native):
        self.native = native
        self.name = f"SimfilePack.banner[{'NativeOSFS' if native else 'PyFilesystem'}]"
        self.functions = ("simfile.dir.SimfilePack.banner", "simfile._private.extensions.match")
        self.expected = ["post:inside-by-extension-priority", "post:beside-the-pack", "post:none"]
        self.LQ = "simfile.dir.SimfilePack.banner"

    def run(self, ex):
        import simfile.dir as d
        import simfile._private.extensions as e
        from simfile._private.path import FSPath
        nat = self.native
        fs = make_fs(ex, nat)
        pdir = ex.sym(STR, "pack_dir")
        L = FS.listing(pdir.t)
        obj = HObj(d.SimfilePack, {"pack_dir": pdir, "filesystem": fs, "_path": HObj(FSPath, {"filesystem": fs}, "_path")}, "self")
        from props.constants_common import STATED_IMAGE_PRIORITY
        exts = list(STATED_IMAGE_PRIORITY)       # the statement's priority, not the module's

        def has_ext(x, ext):
            return z3.SuffixOf(strval(ext), M.str_lower(x))

        def unfold(ext, i):
            f = IMGF(ext)
            x = S_at(L, i)
            return [f(L, z3.IntVal(0)) == OSTR.lift(None),
                    z3.Implies(z3.And(i >= 0, i < z3.Length(L)),
                               f(L, i + 1) == z3.If(z3.And(OSTR.is_none(f(L, i)), has_ext(x, ext)), OSTR.some(x), f(L, i)))]

        def inv(ex_, fr, i, vals):
            ext = fr.locals[loop_targets(fr.fi, 0)[0]]
            return [("no-such-image-so-far", OSTR.is_none(IMGF(ext)(L, i)))]

        def using(ex_, fr, i, vals):
            return unfold(fr.locals[loop_targets(fr.fi, 0)[0]], i)

        ex.loop_specs[(self.LQ, 1)] = LoopSpec([], inv, using)
        kind, r = ex.run_function(ex.closure_of(self.LQ, owner=d.SimfilePack), [obj])
        if kind == "raise":
            ex.prove("post:noraise", False, f"raised {r!r}")
            return
        n = z3.Length(L)
        none_inside = z3.And([OSTR.is_none(IMGF(x)(L, n)) for x in exts])
        head = (FS.os_split_head if nat else FS.fs_split_head)(pdir.t)
        tail = (FS.os_split_tail if nat else FS.fs_split_tail)(pdir.t)
        beside = [join_of(nat, head, z3.Concat(tail, strval(x))) for x in exts]
        i = ex.ghost.get(("loop_i", (self.LQ, 1)))
        in_iter = any(l.endswith(":iter") for _, l in ex.decisions)
        if r is None:
            ex.prove("post:none", z3.And(none_inside, *[z3.Not(FS.exists_(b)) for b in beside]),
                     "None only without an image inside the pack and without a same-named image beside it")
        elif in_iter and i is not None:
            # found inside the pack while scanning for extension number k: no image of a higher-priority extension exists
            k = [j for j, x in enumerate(exts) if any(l == f"if@0:T" for _, l in ex.decisions)]
            x = S_at(L, i)
            cands = []
            for j, ext in enumerate(exts):
                cands.append(z3.And(has_ext(x, ext), OSTR.is_none(IMGF(ext)(L, i)), *[OSTR.is_none(IMGF(hi)(L, n)) for hi in exts[:j]]))
            ex.prove("post:inside-by-extension-priority", z3.And(term(r, STR) == join_of(nat, pdir.t, x), z3.Or(cands)),
                     "an image directly in the pack directory, chosen by extension priority png, jpg, jpeg, gif, bmp")
        else:
            cands = [z3.And(term(r, STR) == b, FS.exists_(b), *[z3.Not(FS.exists_(hb)) for hb in beside[:j]]) for j, b in enumerate(beside)]
            ex.prove("post:beside-the-pack", z3.And(none_inside, z3.Or(cands)),
                     "otherwise an image beside the pack carrying the pack's name, same extension priority")


UNITS = ([Matches(k) for k in KINDS] + [GetCI(True), GetCI(False)] + [AssetProperty(k) for k in KINDS] + [AssetProperty("BANNER", False), AssetCached(),
          PackBanner(True), PackBanner(False)])


def witness_search(tier, seed):
    import os, tempfile, shutil
    from simfile.assets import Assets
    from simfile.dir import SimfilePack
    from simfile.sm import SMSimfile
    d = tempfile.mkdtemp(prefix="pyvc-c20-")
    try:
        song = os.path.join(d, "Pack", "Song")
        os.makedirs(os.path.join(song, "Sub"))
        names = ["Song-bn.PNG", "my BG.jpg", "CdTitle.png", "JK_x.png", "x-cd.png", "audio.OGG", "notes.txt", "jk.png", "cd.png"]
        for nme in names:
            open(os.path.join(song, nme), "w").write("x")
        open(os.path.join(song, "Sub", "Inner.PNG"), "w").write("x")
        cases = [("BANNER", None, "Song-bn.PNG"), ("BACKGROUND", "", "my BG.jpg"), ("CDTITLE", "missing.png", "CdTitle.png"), ("JACKET", None, "JK_x.png"),
                 ("CDIMAGE", None, "x-cd.png"), ("MUSIC", "AUDIO.ogg", "audio.OGG"), ("BANNER", "Sub/inner.png", None), ("BANNER", "nodir/x.png", "Song-bn.PNG"),
                 ("BACKGROUND", "notes.TXT", "notes.txt")]
        for prop, value, expect in cases:
            sf = SMSimfile.blank()
            if value is None:
                sf.pop(prop, None)
            else:
                sf[prop] = value
            a = Assets(song, simfile=sf)
            got = getattr(a, prop.lower())
            again = getattr(a, prop.lower())
            if got != again:
                return dict(input=dict(prop=prop, value=value), detail=f"asked twice: {got!r} then {again!r}")
            if got is not None and not os.path.exists(got):
                return dict(input=dict(prop=prop, value=value), detail=f"answer {got!r} does not exist")
            if prop == "BANNER" and value == "Sub/inner.png":
                if got is None or os.path.basename(got) != "Inner.PNG":
                    return dict(input=dict(prop=prop, value=value), detail=f"named file in a sub-directory not found ignoring case: {got!r}")
            elif expect is not None and (got is None or os.path.basename(got) != expect):
                return dict(input=dict(prop=prop, value=value), detail=f"got {got!r}, expected the entry {expect!r}")
        for nme in names:
            os.remove(os.path.join(song, nme))
        sf = SMSimfile.blank()
        if Assets(song, simfile=sf).banner is not None or Assets(song, simfile=sf).music is not None:
            return dict(input="directory without matching entries", detail="answer is not None")
        # the simfile directory spelled relatively ("." / "./" / "../Pack/Song" from inside it): a named file is still the answer
        cwd = os.getcwd()
        try:
            os.chdir(song)
            open("Cover.PNG", "w").write("x")
            open("old-bn.png", "w").write("x")
            for spelled in (".", "./", os.path.join("..", "Song")):
                sf = SMSimfile.blank()
                sf["BANNER"] = "cover.png"
                got = Assets(spelled, simfile=sf).banner
                if got is None or os.path.basename(got) != "Cover.PNG" or not os.path.exists(got):
                    return dict(input=dict(simfile_dir=spelled, cwd="the song directory", BANNER="cover.png", directory=["Cover.PNG", "old-bn.png", "Sub/"]),
                                detail=f"banner is {got!r}; the simfile names Cover.PNG (ignoring case), which exists")
        finally:
            os.chdir(cwd)
            for nme in ("Cover.PNG", "old-bn.png"):
                try:
                    os.remove(os.path.join(song, nme))
                except OSError:
                    pass
        # the documented pattern for music is "has an audio extension": also a name that is nothing but the extension,
        # a name with several dots, and a near miss that only contains the extension
        for only, expect in ((".ogg", ".ogg"), (".MP3", ".MP3"), ("01. intro.v2.WAV", "01. intro.v2.WAV"), ("song.ogg.txt", None), ("ogg", None)):
            open(os.path.join(song, only), "w").write("x")
            got = Assets(song, simfile=SMSimfile.blank()).music
            os.remove(os.path.join(song, only))
            if (os.path.basename(got) if got else None) != expect:
                return dict(input=dict(directory=[only, "Sub/"], music_property=""), detail=f"music is {got!r}; the documented pattern (an entry with an audio extension) gives {expect!r}")
        # several kinds asked of ONE Assets object, in every order: the file a simfile names wins whatever was asked before
        os.makedirs(os.path.join(song, "Art"))
        for nme in ("Art/cover.png", "old banner.png", "some bg.png", "a.ogg"):
            open(os.path.join(song, nme), "w").write("x")
        sf = SMSimfile.blank()
        for k in ("BANNER", "BACKGROUND", "CDTITLE", "JACKET", "CDIMAGE", "MUSIC"):
            sf.pop(k, None)
        sf["BANNER"] = "Art/Cover.PNG"
        want = {"banner": "cover.png", "background": "some bg.png", "music": "a.ogg", "cdtitle": None}
        import itertools as _it
        for order in _it.permutations(list(want), 3):
            a = Assets(song, simfile=sf)
            for kd in order:
                got = getattr(a, kd)
                base = os.path.basename(got) if got else None
                if base != want[kd]:
                    for nme in ("Art/cover.png", "old banner.png", "some bg.png", "a.ogg"):
                        os.remove(os.path.join(song, nme))
                    os.rmdir(os.path.join(song, "Art"))
                    return dict(input=dict(simfile_banner="Art/Cover.PNG", directory=["Art/cover.png", "old banner.png", "some bg.png", "a.ogg"], asked_in_order=list(order)),
                                detail=f"{kd} = {got!r}, expected the entry {want[kd]!r}")
        for nme in ("Art/cover.png", "old banner.png", "some bg.png", "a.ogg"):
            os.remove(os.path.join(song, nme))
        os.rmdir(os.path.join(song, "Art"))
        # extensions in truly mixed case
        for only, kd in (("Track.Ogg", "music"), ("Intro.Mp3", "music"), ("my banner.Png", "banner"), ("x-bg.JpEg", "background")):
            open(os.path.join(song, only), "w").write("x")
            sf = SMSimfile.blank()
            for k in ("BANNER", "BACKGROUND", "CDTITLE", "JACKET", "CDIMAGE", "MUSIC"):
                sf.pop(k, None)
            got = getattr(Assets(song, simfile=sf), kd)
            os.remove(os.path.join(song, only))
            if got is None or os.path.basename(got) != only:
                return dict(input=dict(directory=[only], asked=kd), detail=f"{kd} = {got!r}: the entry has an {kd} extension in mixed case")
        # one entry whose name matches the patterns of two kinds answers for both (and all kinds may be asked of one Assets object)
        for only, kinds2 in (("jacket-bn.png", ("banner", "jacket")), ("Jk_Song BG.PNG", ("background", "jacket")), ("cdtitle-cd.png", ("cdtitle", "cdimage"))):
            open(os.path.join(song, only), "w").write("x")
            sf = SMSimfile.blank()
            for k in ("BANNER", "BACKGROUND", "CDTITLE", "JACKET", "CDIMAGE", "MUSIC"):
                sf.pop(k, None)
            a = Assets(song, simfile=sf)
            for order in (kinds2, tuple(reversed(kinds2))):
                a = Assets(song, simfile=sf)
                for kd in order:
                    got = getattr(a, kd)
                    if got is None or os.path.basename(got) != only:
                        os.remove(os.path.join(song, only))
                        return dict(input=dict(directory=[only], asked=list(order)), detail=f"{kd} = {got!r}: the only entry matches the {kd} pattern")
            os.remove(os.path.join(song, only))
        # the same on an in-memory filesystem, where joining a directory with "" gives the directory itself
        from fs.memoryfs import MemoryFS
        mem = MemoryFS()
        mem.makedirs("songs/tune/Sub")
        mem.writetext("songs/tune/notes.txt", "x")
        mem.writetext("songs/tune/Sub/Inner.PNG", "x")
        for prop, value, expect in (("BANNER", "", None), ("MUSIC", "", None), ("BACKGROUND", None, None), ("BANNER", "Sub/inner.png", "songs/tune/Sub/Inner.PNG"),
                                    ("CDTITLE", "nodir/x.png", None)):
            sf = SMSimfile.blank()
            if value is None:
                sf.pop(prop, None)
            else:
                sf[prop] = value
            got = getattr(Assets("songs/tune", simfile=sf, filesystem=mem), prop.lower())
            if got != expect:
                return dict(input=dict(filesystem="MemoryFS with songs/tune/notes.txt and songs/tune/Sub/Inner.PNG", prop=prop, value=value),
                            detail=f"got {got!r}, expected {expect!r}")
        pack = os.path.join(d, "Pack")
        if SimfilePack(pack).banner() is not None:
            return dict(input="pack without images", detail="banner is not None")
        open(os.path.join(d, "Pack.jpg"), "w").write("x")
        open(os.path.join(d, "Pack.bmp"), "w").write("x")
        if SimfilePack(pack).banner() != os.path.join(d, "Pack.jpg"):
            return dict(input="Pack.jpg and Pack.bmp beside the pack", detail=f"banner {SimfilePack(pack).banner()!r}")
        open(os.path.join(pack, "z.gif"), "w").write("x")
        open(os.path.join(pack, "a.JPEG"), "w").write("x")
        if os.path.basename(SimfilePack(pack).banner() or "") != "a.JPEG":
            return dict(input="z.gif and a.JPEG in the pack", detail=f"banner {SimfilePack(pack).banner()!r}")
        os.remove(os.path.join(pack, "z.gif")), os.remove(os.path.join(pack, "a.JPEG"))
        open(os.path.join(pack, "m.Png"), "w").write("x")
        if os.path.basename(SimfilePack(pack).banner() or "") != "m.Png":
            return dict(input="m.Png in the pack, Pack.jpg beside it", detail=f"banner {SimfilePack(pack).banner()!r}: the image inside the pack has a mixed-case extension")
        return None
    finally:
        shutil.rmtree(d, ignore_errors=True)


# thorough tier: CPython cross-check of the encoder (string models: lower, endswith, regular expressions, splitext)
def _thorough_bounded():
    from pyvc.xcheck import EncoderCrossCheck, Concrete
    names = ["banner.png", "Song-BN.PNG", "bn.jpg", "xbn.gif", "bg.png", "my BG.jpeg", "background.bmp", "cdtitle.png", "CdTitle.PNG", "jk_x.png", "JACKET.jpg", "albumart.png",
             "x-cd.png", "cd.png", "disc.png", "song disc.png", "title.png", "song title.PNG", "a.ogg", "A.MP3", "b.oga", "c.wav", "notes.txt", "banner", "banner.txt", ".png", "",
             "bn", "x.ssc", "jk_.png", "-cd.jpg", "cdtitle", "sub/banner.png", "banner.PNG.bak"]

    def cases(kind):
        def c(tier):
            FS.install()
            for nm in names:
                yield (Concrete(A().ASSET_DEFINITIONS[kind]), nm)
        return c

    return [EncoderCrossCheck(f"AssetDefinition.matches[{k}]", Q + "AssetDefinition.matches", lambda: A().AssetDefinition, lambda d, p: bool(d.matches(p)), cases(k))
            for k in KINDS]


THOROUGH_BOUNDED = _thorough_bounded()

# tables the statement pins down by value (props/constants_common.py)
from props.constants_common import ClosedConstants   # noqa: E402
UNITS = list(UNITS) + [ClosedConstants('image-priority', 'audio-extensions')]
