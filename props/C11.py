"""
C11 - beat to time conversion matches the exact timeline for all event interleavings.
"""
from props.engine_common import TagOrder, TaggedLt, TimeUntil, Advance, Lookup, EngineVsStatement, engine_witness, CoalesceWarps

LEVEL = "other"
TRUSTED = ["T-STD: bisect returns a local boundary index on any list and the partition point on a sorted one; heapq.merge of sorted inputs is the sorted merge",
           "A-FLOAT: floats are reals",
           "SM_inv: the engine's state list is the fold of the state-machine step over the merged events (checked here only through the bounded stand-in)",
           "pyvc VC generator; z3/cvc5"]
ASSUMPTIONS = ["numerical accuracy (1e-9 s) is not decided: floats are treated as reals",
               "_retime_events (merge order, building the state list) is covered by the bounded stand-in only"]
EXPLANATION = ("Proved (SMT, all inputs): the seven EventTag values are ordered as the statement needs (closed term); TaggedEvent.__lt__ is the lexicographic "
               "(beat, tag) order; TimingState.time_until is the statement's formula (zero inside a warp else 60/BPM per beat, plus the pause exactly when the "
               "state starts a stop/delay and the asked tag is an END tag); TimingStateMachine.advance appends exactly the next state of the recurrence; time_at "
               "and bpm_at take the last state at or before (beat, tag) and extrapolate from it; _coalesce_warps produces strictly alternating WARP/WARP_END pairs "
               "that cover exactly the union of the warp segments (loop invariant with universally quantified conjuncts proved by single-instance skolemisation). Bounded (never counted as proved): that the recurrence the engine "
               "builds (_retime_events: merge order, state list) equals the statement's timeline, monotonicity, offset shift, redundant-BPM "
               "invariance - the real engine against an exact-rational evaluation of the statement on every small configuration, in 12 parallel slices.")
UNITS = [TagOrder(), TaggedLt(), TimeUntil(), Advance(), Lookup("time_at"), Lookup("bpm_at"), CoalesceWarps()]
BOUNDED = [EngineVsStatement("time_at", k) for k in range(EngineVsStatement.PARTS)]
witness_search = engine_witness(["time_at"])
