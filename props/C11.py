"""
C11 - beat to time conversion matches the exact timeline for all event interleavings.
"""
from props.engine_common import TagOrder, TaggedLt, TimeUntil, Advance, Lookup, EngineVsStatement, engine_witness, CoalesceWarps, RetimeEvents

LEVEL = "other"
TRUSTED = ["T-STD: bisect returns a local boundary index on any list and the partition point on a sorted one; heapq.merge of sorted inputs is the sorted merge",
           "A-FLOAT: floats are reals",
           "heapq.merge: as many elements as the inputs hold, each from some input, in (beat, tag) order when every input is sorted (T-STD); that the sources are sorted by beat is the property's domain",
           "pyvc VC generator; z3/cvc5"]
ASSUMPTIONS = ["numerical accuracy (1e-9 s) is not decided: floats are treated as reals (so a look-up table holding float(beat) instead of the exact beat is indistinguishable for the solver; the bounded stand-in probes off-grid ticks for that)",
               "the induction that assembles SM_inv from the discharged steps of _retime_events is argued outside the solver"]
EXPLANATION = ("Proved (SMT, all inputs): the seven EventTag values are ordered as the statement needs (closed term); TaggedEvent.__lt__ is the lexicographic "
               "(beat, tag) order; TimingState.time_until is the statement's formula (zero inside a warp else 60/BPM per beat, plus the pause exactly when the "
               "state starts a stop/delay and the asked tag is an END tag); TimingStateMachine.advance appends exactly the next state of the recurrence; time_at "
               "and bpm_at take the last state at or before (beat, tag) and extrapolate from it; _coalesce_warps produces strictly alternating WARP/WARP_END pairs "
               "that cover exactly the union of the warp segments (loop invariant with universally quantified conjuncts proved by single-instance skolemisation); "
               "_retime_events starts the state list with (beat 0, first BPM, time -offset, no warp), merges exactly the seven event lists each under its own tag, "
               "appends one state per merged event by the state-machine step (fold invariant) and builds _tagged_beats/_tagged_times/_times as the projections of "
               "the state list; two closed lemmas over the step (domain kept, time monotone on events in beat order) are the inductive steps of SM_inv. "
               "Bounded (never counted as proved): that this recurrence equals the statement's timeline end to end, monotonicity, offset shift, redundant-BPM "
               "invariance - the real engine against an exact-rational evaluation of the statement on every small configuration, in 12 parallel slices.")
UNITS = [TagOrder(), TaggedLt(), TimeUntil(), Advance(), Lookup("time_at"), Lookup("bpm_at"), CoalesceWarps(), RetimeEvents()]
BOUNDED = [EngineVsStatement("time_at", k) for k in range(EngineVsStatement.PARTS)]
witness_search = engine_witness(["time_at"])
from props.engine_common import engine_xchecks
THOROUGH_BOUNDED = engine_xchecks(["time_until", "lt"])
