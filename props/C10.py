"""
C10 - ungrouping grouped notes restores the original note stream.

Deductive part: ungroup_notes, per element (what one grouped item contributes and what
it leaves pending), the two drain loops, check_orphan.  Bounded part (labelled): the
composition ungroup_notes(group_notes(stream)) == filtered stream on the property's grid.
"""
from __future__ import annotations

import ast
import z3

from pyvc.prop import Unit, Bounded
from pyvc.values import strval, SV, STR, INT, BOOL, FRAC, OINT, TNT, TSeq, TEnum, term, is_sym, fresh, fresh_term, coerce
from pyvc.execu import loop_targets, HObj, NTVal, LoopSpec, yield_slot, seq_of_items, PyRaise, SymIter, Unsupported
from pyvc import heaps as H, models as M

LEVEL = "other"
TRUSTED = [
    "T-STD: heapq on a list as an abstract min-priority queue under `<` (pyvc/heaps.py); isinstance on NamedTuple classes",
    "Note.__lt__ is the (player, beat, column) order (proved in C07)",
    "pyvc VC generator; z3/cvc5",
]
ASSUMPTIONS = ["generator laziness is not modelled", "termination of the two drain loops is not proved",
               "tails carry no keysound index (the property's domain), so a regenerated tail has keysound_index None"]
EXPLANATION = ("Proved (SMT, all inputs): for an arbitrary grouped item and an arbitrary set of pending tails, ungroup_notes first yields "
               "exactly the pending tails that precede the item (drain loop invariant over prefix functions of the abstract heap), then the item: "
               "a plain note is yielded, dropped or raised about exactly per the orphaned_notes option iff a pending tail sits on its column; a "
               "NoteWithTail yields a head Note with all five fields of the item and leaves Note(tail_beat, column, TAIL, player, None) pending; "
               "after the last item every pending tail is yielded. Bounded (never counted as proved): the composition "
               "ungroup_notes(group_notes(stream, ...)) against the statement on all streams of the 2-column grid.")
Q = "simfile.notes.group.ungroup_notes"


def G():
    import simfile.notes as n, simfile.notes.group as g
    return n, g


def pos_lt(a, b):
    NT = TNT(G()[0].Note)
    pa, ba, ca = NT.acc(a, "player"), NT.acc(a, "beat"), NT.acc(a, "column")
    pb, bb, cb = NT.acc(b, "player"), NT.acc(b, "beat"), NT.acc(b, "column")
    return z3.Or(pa < pb, z3.And(pa == pb, z3.Or(ba < bb, z3.And(ba == bb, ca < cb))))


_F = {}


def fn(name, *sorts):
    if name not in _F:
        _F[name] = z3.Function(name, *sorts)
    return _F[name]


def POPK():
    return fn("heap_after_k_pops", H.HeapSort, z3.IntSort(), H.HeapSort)


def DRAINF():
    return fn("first_k_popped", H.HeapSort, z3.IntSort(), z3.SeqSort(TNT(G()[0].Note).sort()))


def ALLLT():
    return fn("first_k_popped_precede", H.HeapSort, TNT(G()[0].Note).sort(), z3.IntSort(), z3.BoolSort())


def drain_unfold(h0, k, pos=None):
    f = H.F()
    NTs = TNT(G()[0].Note).sort()
    hk = POPK()(h0, k)
    out = [POPK()(h0, z3.IntVal(0)) == h0, DRAINF()(h0, z3.IntVal(0)) == z3.Empty(z3.SeqSort(NTs)),
           z3.Implies(k >= 0, POPK()(h0, k + 1) == f["hpop"](hk)),
           z3.Implies(k >= 0, DRAINF()(h0, k + 1) == z3.Concat(DRAINF()(h0, k), z3.Unit(f["hmin"](hk))))]
    if pos is not None:
        out += [ALLLT()(h0, pos, z3.IntVal(0)) == z3.BoolVal(True),
                z3.Implies(k >= 0, ALLLT()(h0, pos, k + 1) == z3.And(ALLLT()(h0, pos, k), f["hsize"](hk) > 0, pos_lt(f["hmin"](hk), pos)))]
    return out


def as_note_pos(item: NTVal):
    """the position of a grouped item as a Note term (only player, beat, column matter for `<`)"""
    n, g = G()
    NT = TNT(n.Note)
    return NT.mk(coerce(item.get("beat"), FRAC).t if is_sym(item.get("beat")) else FRAC.lift(item.get("beat")),
                 term(item.get("column"), INT), TEnum(n.NoteType).lift(n.NoteType.TAP) if not is_sym(item.get("note_type")) and False else term(item.get("note_type"), TEnum(n.NoteType)),
                 term(item.get("player"), INT), term(item.get("keysound_index"), OINT))


class UngroupItem(Unit):
    """one arbitrary grouped item (plain Note or NoteWithTail) with arbitrary pending tails"""

    def __init__(self, item_kind):
        self.item_kind = item_kind
        self.name = f"ungroup_notes[{item_kind}]"
        self.functions = (Q, Q + ".check_orphan")
        self.expected = ["ungroup_notes#loop2:inv-keep:yielded", "ungroup_notes#loop1:step:yielded", "ungroup_notes#loop1:step:pending",
                         "ungroup_notes#loop3:inv-keep:yielded", "post:all-pending-tails-yielded-in-order"]

    def run(self, ex):
        n, g = G()
        NT, NW = TNT(n.Note), TNT(g.NoteWithTail)
        OPT = TEnum(g.OrphanedNotes)
        f = H.F()
        opt = ex.sym(OPT, "orphaned_notes")
        kind = self.item_kind

        def item_at(ex_, j):
            if kind == "Note":
                v = ex_.fresh_of(NT, "item")
            else:
                v = ex_.fresh_of(NW, "item")
            ex_.ghost["item"] = v
            ex_.declare_input("item", v)
            return v

        def row_at(ex_, i):
            return SymIter(fresh_term(z3.IntSort(), "rowlen"), item_at, "row")

        grouped = SymIter(fresh_term(z3.IntSort(), "rows"), row_at, "grouped_notes")
        true_inv = lambda ex_, fr, i, vals: []

        def drain_inv(ex_, fr, k, vals):
            e = fr.loop_entry[(Q, 2)]
            h0, y0 = e["pending_tails"].t, e["yielded"].t
            pos = as_note_pos(fr.locals[loop_targets(fr.fi, 1)[0]])
            ex_.ghost["drain"] = (h0, y0, pos, k)
            return [("yielded", vals["yielded"].t == z3.Concat(y0, DRAINF()(h0, k))), ("pending", vals["pending_tails"].t == POPK()(h0, k)),
                    ("only-preceding-tails", ALLLT()(h0, pos, k))]

        def drain_using(ex_, fr, k, vals):
            e = fr.loop_entry[(Q, 2)]
            return drain_unfold(e["pending_tails"].t, k, as_note_pos(fr.locals[loop_targets(fr.fi, 1)[0]]))

        def final_inv(ex_, fr, k, vals):
            e = fr.loop_entry[(Q, 3)]
            h0, y0 = e["pending_tails"].t, e["yielded"].t
            ex_.ghost["final"] = (h0, k)
            return [("yielded", vals["yielded"].t == z3.Concat(y0, DRAINF()(h0, k))), ("pending", vals["pending_tails"].t == POPK()(h0, k)),
                    ("size", f["hsize"](vals["pending_tails"].t) == f["hsize"](h0) - k)]

        def final_using(ex_, fr, k, vals):
            e = fr.loop_entry[(Q, 3)]
            return drain_unfold(e["pending_tails"].t, k)

        def step(ex_, fr, i, before, after):
            h0, y0, pos, k = ex_.ghost["drain"]
            hk = POPK()(h0, k)
            item = ex_.ghost["item"]
            head = NT.mk(*[term(item.get(fld), ft) if not isinstance(item.get(fld), NTVal) else item.get(fld).term()
                           for fld, ft in zip(NT.fields, NT.ftys)]) if kind == "Note" else \
                NT.mk(term(item.get("beat"), NT.ftys[0]), term(item.get("column"), INT), term(item.get("note_type"), NT.ftys[2]),
                      term(item.get("player"), INT), term(item.get("keysound_index"), OINT))
            col = NT.acc(head, "column")
            inside = f["hcols"](hk, col)
            dropped = z3.And(inside, opt.t == OPT.lift(g.OrphanedNotes.DROP_ORPHAN))
            emit = z3.If(dropped, z3.Empty(z3.SeqSort(NT.sort())), z3.Unit(head))
            obs = [("drained", z3.And(z3.Not(z3.And(f["hsize"](hk) > 0, pos_lt(f["hmin"](hk), pos))), ALLLT()(h0, pos, k))),
                   ("not-raise-policy", z3.Not(z3.And(inside, opt.t == OPT.lift(g.OrphanedNotes.RAISE_EXCEPTION)))),
                   ("yielded", after["yielded"].t == z3.Concat(before["yielded"].t, DRAINF()(h0, k), emit))]
            if kind == "Note":
                obs.append(("pending", after["pending_tails"].t == hk))
            else:
                tail = NT.mk(term(item.get("tail_beat"), NT.ftys[0]), term(item.get("column"), INT), TEnum(n.NoteType).lift(n.NoteType.TAIL),
                             term(item.get("player"), INT), OINT.lift(None))
                pushes = ex_.ghost.get("heap_pushes", [])
                ok = len(pushes) == 1
                obs.append(("pending", z3.And(z3.BoolVal(ok), pushes[0][0] == hk, pushes[0][1] == tail, after["pending_tails"].t == pushes[0][2]) if ok else z3.BoolVal(False)))
            return obs

        for ordn, (inv, using, st) in {0: (true_inv, None, None), 1: (true_inv, None, step), 2: (drain_inv, drain_using, None),
                                       3: (final_inv, final_using, None)}.items():
            ex.loop_specs[(Q, ordn)] = LoopSpec([yield_slot(NT), H.heap_slot("pending_tails")], inv, using, step=st)
        kind_, r = ex.run_function(ex.closure_of(Q), [grouped], {"orphaned_notes": opt})
        if kind_ == "raise":
            dr = ex.ghost.get("drain")
            item = ex.ghost.get("item")
            ok = r.cls is g.OrphanedNoteException and dr is not None and item is not None
            if ok:
                h0, y0, pos, k = dr
                ex.prove("raises:OrphanedNoteException-iff-inside-a-hold-and-policy-raise",
                         z3.And(f["hcols"](POPK()(h0, k), term(item.get("column"), INT)), opt.t == OPT.lift(g.OrphanedNotes.RAISE_EXCEPTION)),
                         "raised only for a note inside a joined hold on its column under RAISE_EXCEPTION")
            else:
                ex.prove("raises:only-OrphanedNoteException", False, f"raised {r!r}")
            return
        # stated on the function's output, whatever the shape of the final stage: after the last row, the tails still
        # pending come out completely and in position order
        after_rows = ex.ghost.get(("loop_exit", (Q, 0)))
        if after_rows is None:
            raise Unsupported("ungroup_notes: no state recorded after the loop over the rows")
        Y, Hh = after_rows["yielded"].t, after_rows["pending_tails"].t
        from pyvc.execu import seq_of_items
        out = seq_of_items(ex, r.items, TSeq(NT)).t
        H.base_facts(ex, Hh)
        ex.prove("post:all-pending-tails-yielded-in-order", out == z3.Concat(Y, DRAINF()(Hh, f["hsize"](Hh))),
                 "after the last item every pending tail has been yielded, smallest position first")


    def replay(self, model, ob):
        n, g = G()
        from fractions import Fraction
        from simfile.timing import Beat
        d = model.get("item")
        if not isinstance(d, dict) or self.item_kind != "NoteWithTail":
            return dict(reproduced=False, detail="no item in the counter-model")

        def beat(x):
            fr = Fraction(x)
            return Beat(fr.numerator, fr.denominator)

        nt = getattr(n.NoteType, d["note_type"].split(".")[1])
        b, tb = beat(d["beat"]), beat(d["tail_beat"])
        if tb <= b:
            tb = b + 1
        item = g.NoteWithTail(b, d["column"], nt, tb, d["player"], d["keysound_index"])
        got = list(g.ungroup_notes([[item]], orphaned_notes=g.OrphanedNotes.KEEP_ORPHAN))
        exp = [n.Note(b, item.column, nt, item.player, item.keysound_index), n.Note(tb, item.column, n.NoteType.TAIL, item.player, None)]
        return dict(reproduced=got != exp, input=dict(grouped=[[repr(item)]]), detail=f"ungroup_notes gave {got!r}; the statement prescribes {exp!r}")


UNITS = [UngroupItem("Note"), UngroupItem("NoteWithTail")]


# ---------------------------------------------------------------------------
# bounded stand-in: the composition with group_notes on the property's grid


def grid_streams(columns, rows, kinds):
    """all position-sorted single-player streams on a columns x rows grid (one cell kind per position, or empty)"""
    import itertools
    n, g = G()
    from simfile.timing import Beat
    cells = [(r, c) for r in range(rows) for c in range(columns)]
    for combo in itertools.product([None] + list(kinds), repeat=len(cells)):
        yield [n.Note(Beat(r), c, k, 0, ks) for (r, c), kk in zip(cells, combo) if kk is not None for (k, ks) in [kk]]


def expected_after_roundtrip(stream, include, same_beat, join, oh, ot, n, g):
    """the statement of C10 for KEEP/KEEP (and the dropped-orphan variants): which notes come back"""
    flt = [x for x in stream if x.note_type in include]
    if not join:
        return flt
    # fate of heads and tails per the documented joining rule (C09)
    out = list(flt)
    open_ = {}
    drop = set()
    for i, x in enumerate(flt):
        if x.column in open_ or x.note_type == n.NoteType.TAIL:
            h = open_.pop(x.column, None)
            if h is None:
                if ot == g.OrphanedNotes.DROP_ORPHAN:
                    drop.add(i)
            elif x.note_type != n.NoteType.TAIL:
                if oh == g.OrphanedNotes.DROP_ORPHAN:
                    drop.add(h)
        if x.note_type in (n.NoteType.HOLD_HEAD, n.NoteType.ROLL_HEAD):
            open_[x.column] = i
    for h in open_.values():
        if oh == g.OrphanedNotes.DROP_ORPHAN:
            drop.add(h)
    return [x for i, x in enumerate(out) if i not in drop]


def pending_hold_streams():
    """k = 3, 4 holds open at once on k columns (heads on one row, tails on k later rows in every order), with and
    without a tap after the last tail: the streams that leave several tails pending at the end"""
    import itertools
    n, g = G()
    from simfile.timing import Beat
    T = n.NoteType
    for k in (3, 4):
        for perm in itertools.permutations(range(1, k + 1)):
            for trailing in (False, True):
                st = [n.Note(Beat(0), c, T.HOLD_HEAD if c % 2 == 0 else T.ROLL_HEAD, 0, None) for c in range(k)]
                st += [n.Note(Beat(perm[c]), c, T.TAIL, 0, None) for c in range(k)]
                if trailing:
                    st.append(n.Note(Beat(k + 1), 0, T.TAP, 0, None))
                yield sorted(st, key=lambda x: (x.beat, x.column))


def subtick_streams():
    """notes whose beats differ by less than a tick (1/5 and 5/24, rows of 20- and 24-line measures): order is by exact beat"""
    n, g = G()
    from simfile.timing import Beat
    T = n.NoteType
    a, b = Beat(1, 5), Beat(5, 24)
    for c_hold, c_tap in ((1, 0), (0, 1)):
        for first, second in ((a, b), (b, a)):
            lo, hi = min(first, second), max(first, second)
            tail_at, tap_at = (lo, hi) if first is a else (hi, lo)
            st = [n.Note(Beat(0), c_hold, T.HOLD_HEAD, 0, None), n.Note(tail_at, c_hold, T.TAIL, 0, None), n.Note(tap_at, c_tap, T.TAP, 0, None),
                  n.Note(Beat(1), 0, T.MINE, 0, None)]
            yield sorted(st, key=lambda x: (x.beat, x.column))


class Composition(Bounded):
    function = "simfile.notes.group.ungroup_notes o group_notes"
    PARTS = 12

    def __init__(self, part=0):
        self.part = part
        self.name = f"ungroup-after-group[{part + 1}/{self.PARTS}]"

    def bound(self, tier):
        r = 3 if tier == "quick" else 4
        return (f"all single-player streams on 2 columns x {r} rows and on 3 columns x 2 rows, 5 cell kinds (tap, hold head, roll head, tail, mine; one head kind keysounded) "
                f"plus 3 and 4 simultaneously open holds with their tails in every order (with / without a trailing tap), plus streams with beats closer than a tick "
                f"x 4 sets of included types (all; heads without tails; holds without rolls; tails and taps) x 3 same-beat modes x join on/off x orphan policies {{keep, drop}}^2 x the three policies of ungroup_notes")

    def run(self, tier, seed):
        import itertools, time
        n, g = G()
        t0 = time.time()
        T = n.NoteType
        kinds = [(T.TAP, None), (T.HOLD_HEAD, 7), (T.ROLL_HEAD, None), (T.TAIL, None), (T.MINE, None)]
        rows = 3 if tier == "quick" else 4
        # "the original notes of the included types": every note type, heads without their tails, holds without rolls, no heads at all
        subsets = [frozenset(T), frozenset((T.TAP, T.HOLD_HEAD, T.ROLL_HEAD, T.LIFT)), frozenset((T.HOLD_HEAD, T.TAIL, T.MINE)), frozenset((T.TAIL, T.TAP))]
        cases, failures = 0, []
        pols = (g.OrphanedNotes.KEEP_ORPHAN, g.OrphanedNotes.DROP_ORPHAN)
        import itertools as _it
        for idx, stream in enumerate(_it.chain(grid_streams(2, rows, kinds), grid_streams(3, 2, kinds), pending_hold_streams(), subtick_streams())):
            if idx % self.PARTS != self.part:
                continue
            for include, sb, join in itertools.product(subsets, g.SameBeatNotes, (False, True)):
                for oh, ot in (itertools.product(pols, pols) if join else [(pols[0], pols[0])]):
                    cases += 1
                    try:
                        grouped = list(g.group_notes(stream, include_note_types=include, same_beat_notes=sb, join_heads_to_tails=join,
                                                     orphaned_head=oh, orphaned_tail=ot))
                        back = list(g.ungroup_notes(grouped, orphaned_notes=g.OrphanedNotes.KEEP_ORPHAN))
                        if include is subsets[0] and sb == g.SameBeatNotes.KEEP_SEPARATE:
                            # the lazy composition on a one-shot iterator: ungroup_notes(group_notes(iter(stream)))
                            lazy = list(g.ungroup_notes(g.group_notes(iter(stream), include_note_types=include, same_beat_notes=sb, join_heads_to_tails=join,
                                                                       orphaned_head=oh, orphaned_tail=ot), orphaned_notes=g.OrphanedNotes.KEEP_ORPHAN))
                            if lazy != back:
                                failures.append(dict(input=dict(stream=[repr(x) for x in stream], passed_as="iter(list), groups consumed lazily", join=join, heads=str(oh), tails=str(ot)),
                                                     detail=f"came back as {lazy!r}; through lists it is {back!r}"))
                        # what group_notes emits has no note inside a joined hold on its column: the other two policies of
                        # ungroup_notes have nothing to raise about or to drop
                        for pol in (g.OrphanedNotes.RAISE_EXCEPTION, g.OrphanedNotes.DROP_ORPHAN):
                            other = list(g.ungroup_notes(grouped, orphaned_notes=pol))
                            if other != back:
                                failures.append(dict(input=dict(stream=[repr(x) for x in stream], include=sorted(t.name for t in include), mode=str(sb), join=join,
                                                                heads=str(oh), tails=str(ot), ungroup=str(pol)),
                                                     detail=f"ungroup_notes({pol.name}) gave {other!r} where KEEP_ORPHAN gave {back!r}: nothing in the grouped stream lies inside a hold"))
                                break
                    except Exception as e:
                        failures.append(dict(input=dict(stream=[repr(x) for x in stream], include=sorted(t.name for t in include), mode=str(sb), join=join, heads=str(oh), tails=str(ot)),
                                             detail=f"raised {type(e).__name__}: {e}"))
                        continue
                    exp = expected_after_roundtrip(stream, include, sb, join, oh, ot, n, g)
                    ok = back == exp if sb != g.SameBeatNotes.JOIN_BY_NOTE_TYPE else (sorted(back) == sorted(exp) and all(a.beat <= b.beat for a, b in zip(back, back[1:])))
                    if not ok:
                        failures.append(dict(input=dict(stream=[repr(x) for x in stream], include=sorted(t.name for t in include), mode=str(sb), join=join, heads=str(oh), tails=str(ot)),
                                             detail=f"came back as {back!r}; the statement prescribes {exp!r}"))
                    if len(failures) >= 3:
                        return dict(cases=cases, failures=failures, seconds=time.time() - t0)
        return dict(cases=cases, failures=failures, seconds=time.time() - t0)


BOUNDED = [Composition(k) for k in range(Composition.PARTS)]


def witness_search(tier, seed):
    n, g = G()
    from simfile.timing import Beat
    T = n.NoteType
    import itertools
    for k in (2, 3, 4):
        for perm in itertools.permutations(range(1, k + 1)):
            items = [g.NoteWithTail(Beat(0), c, T.HOLD_HEAD, Beat(perm[c]), 0, None) for c in range(k)]
            exp = [n.Note(Beat(0), c, T.HOLD_HEAD, 0, None) for c in range(k)] + \
                sorted(n.Note(Beat(perm[c]), c, T.TAIL, 0, None) for c in range(k))
            for grouped in ([items], [[x] for x in items]):
                got = list(g.ungroup_notes(grouped, orphaned_notes=g.OrphanedNotes.KEEP_ORPHAN))
                if got != exp:
                    return dict(input=dict(grouped=[[repr(x) for x in row] for row in grouped], option="KEEP_ORPHAN"),
                                detail=f"got {got!r}; the statement prescribes {exp!r}")
    # a note inside the second of two open holds (the hold that does not end first)
    for opt in g.OrphanedNotes:
        a = g.NoteWithTail(Beat(0), 0, T.HOLD_HEAD, Beat(2), 0, None)
        b = g.NoteWithTail(Beat(0), 1, T.ROLL_HEAD, Beat(4), 0, None)
        for col, bt in ((1, Beat(1)), (0, Beat(1)), (1, Beat(3))):
            inner = n.Note(bt, col, T.TAP, 0, None)
            try:
                got = list(g.ungroup_notes([[a, b], [inner]], orphaned_notes=opt))
            except g.OrphanedNoteException:
                got = "raised"
            plain = sorted([n.Note(Beat(0), 0, T.HOLD_HEAD, 0, None), n.Note(Beat(0), 1, T.ROLL_HEAD, 0, None), n.Note(Beat(2), 0, T.TAIL, 0, None),
                            n.Note(Beat(4), 1, T.TAIL, 0, None)])
            exp = {g.OrphanedNotes.RAISE_EXCEPTION: "raised", g.OrphanedNotes.KEEP_ORPHAN: sorted(plain + [inner]), g.OrphanedNotes.DROP_ORPHAN: plain}[opt]
            if got != exp:
                return dict(input=dict(grouped=[[repr(a), repr(b)], [repr(inner)]], option=str(opt)), detail=f"got {got!r}; the statement prescribes {exp!r}")
    for opt in g.OrphanedNotes:
        outer = g.NoteWithTail(Beat(0), 0, T.HOLD_HEAD, Beat(6), 0, None)
        inner_hold = g.NoteWithTail(Beat(1), 0, T.ROLL_HEAD, Beat(2), 0, None)
        late = n.Note(Beat(4), 0, T.TAP, 0, None)
        try:
            got = list(g.ungroup_notes([[outer], [inner_hold], [late]], orphaned_notes=opt))
        except g.OrphanedNoteException:
            got = "raised"
        a_head, a_tail = n.Note(Beat(0), 0, T.HOLD_HEAD, 0, None), n.Note(Beat(6), 0, T.TAIL, 0, None)
        b_head = n.Note(Beat(1), 0, T.ROLL_HEAD, 0, None)
        # what the statement fixes here: the outer hold survives; the notes lying inside it on its column (the inner head, the
        # later tap - still inside the outer hold after the inner tail has gone) raise / pass through / are dropped
        if opt == g.OrphanedNotes.RAISE_EXCEPTION:
            ok = got == "raised"
        elif got == "raised":
            ok = False
        elif opt == g.OrphanedNotes.KEEP_ORPHAN:
            ok = a_head in got and a_tail in got and b_head in got and late in got
        else:
            ok = a_head in got and a_tail in got and b_head not in got and late not in got
        if not ok:
            return dict(input=dict(grouped=[[repr(outer)], [repr(inner_hold)], [repr(late)]], option=str(opt)),
                        detail=f"got {got!r}: every note inside the outer hold on its column follows the option for as long as that hold lasts")
    for ks in (None, 7):
        for opt in g.OrphanedNotes:
            item = g.NoteWithTail(Beat(1), 2, T.HOLD_HEAD, Beat(3), 1, ks)
            inner = n.Note(Beat(2), 2, T.TAP, 1, None)
            try:
                got = list(g.ungroup_notes([[item], [inner]], orphaned_notes=opt))
            except g.OrphanedNoteException:
                got = "raised"
            head, tail = n.Note(Beat(1), 2, T.HOLD_HEAD, 1, ks), n.Note(Beat(3), 2, T.TAIL, 1, None)
            exp = {g.OrphanedNotes.RAISE_EXCEPTION: "raised", g.OrphanedNotes.KEEP_ORPHAN: [head, inner, tail], g.OrphanedNotes.DROP_ORPHAN: [head, tail]}[opt]
            if got != exp:
                return dict(input=dict(grouped=[[repr(item)], [repr(inner)]], option=str(opt)), detail=f"got {got!r}; the statement prescribes {exp!r}")
    return None


# supplier units (see props/suppliers.py): the heap order is Note's ordering
from props import suppliers as _S   # noqa: E402
UNITS = _S.extend(UNITS, [u for u in _S.note_readers() if u.name.startswith("Note.") or u.name == "lemma:ORDER"])
