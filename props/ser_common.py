"""
Verification units for serialization and parsing, shared by C01 (SM), C02 (SSC), C03 and C04.
"""
from __future__ import annotations

import z3

from pyvc.prop import Unit
from pyvc.values import strval, SV, STR, OSTR, INT, BOOL, TSeq, term, is_sym, fresh, fresh_term
from pyvc import omap as O, models as M, stdmodels as SM, simobj as SO, msd as MSD
from pyvc.execu import HObj, NTVal, PyRaise, LoopSpec, field_slot, local_slot
from contracts import simfile_spec as SP

FRAGS = MSD.FRAGS


def classes(kind):
    import simfile.sm as sm, simfile.ssc as ssc
    if kind == "sm":
        return sm.SMSimfile, sm.SMCharts, sm.SMChart
    return ssc.SSCSimfile, ssc.SSCCharts, ssc.SSCChart


def out_of(f):
    return f.fields["out"].t


def new_file(ex):
    f = MSD.new_stringio(None, "", "file")
    f.fields["out"] = SV(fresh_term(FRAGS, "already_written"), MSD.T_FRAGS)
    return f


def chart_obj(ex, kind, label="chart"):
    _, _, ccls = classes(kind)
    c = O.new_map_obj(ex, ccls, label=label)
    if kind == "sm":
        c.fields["extradata"] = ex.sym(SO.OPT_SEQ_STR, "extradata")
    return c


def model_params(m, ps):
    """parameter list of a counter-model; keys are replaced by the model's own upper-case image of them
    (str.upper is uninterpreted, so the model may map an arbitrary key to e.g. "ATTACKS": the image is the honest input)"""
    out = MSD.PARAMS_TY.unlift(m.eval(ps, model_completion=True), m)
    res = []
    for comps in out:
        comps = list(comps)
        if comps:
            up = m.eval(M.str_upper(z3.StringVal(comps[0])), model_completion=True)
            if z3.is_string_value(up) and up.as_string():
                comps[0] = up.as_string()
        res.append(comps)
    return res


def _loop_assigns(qualname, ordinal, name):
    """does loop `ordinal` of the function assign the local `name`? (read from the real AST)"""
    import ast
    from pyvc.source import repo
    from pyvc.execu import _walk_own
    fi = repo().func(qualname)
    loops = sorted([n for n in _walk_own(fi.node) if isinstance(n, (ast.For, ast.While))], key=lambda n: (n.lineno, n.col_offset))
    if ordinal >= len(loops):
        return False
    for n in ast.walk(loops[ordinal]):
        if isinstance(n, ast.Name) and n.id == name and isinstance(n.ctx, ast.Store):
            return True
    return False


# -- callee contracts ----------------------------------------------------------------


def chart_serialize_contract(kind):
    def c_(ex, args, kwargs):
        self, file = args[0], args[1]
        ex.assumptions_used.add(f"callee contract {kind.upper()}Chart.serialize: appends the chart's parameters (proved in its own unit)")
        cv = SO.chart_value(self)
        ex.setfield(file, "out", SV(z3.Concat(out_of(file), SP.chart_frags(kind, cv)), MSD.T_FRAGS))
        return None
    return c_


def charts_serialize_contract(kind):
    def c_(ex, args, kwargs):
        self, file = args[0], args[1]
        ex.assumptions_used.add("callee contract BaseCharts.serialize: appends every chart followed by a line break (proved in its own unit)")
        d = self.fields["data"]
        charts = d.t if is_sym(d) else TSeq(SO.TChart(classes(kind)[2])).lift(d)
        ex.setfield(file, "out", SV(z3.Concat(out_of(file), SP.CHF(kind)(charts, z3.Length(charts))), MSD.T_FRAGS))
        return None
    return c_


# -- units -----------------------------------------------------------------------------


class SMChartSerialize(Unit):
    name = "SMChart.serialize"
    functions = ("simfile.sm.SMChart.serialize",)
    expected = ["post:one-NOTES-parameter"]

    def run(self, ex):
        c = chart_obj(ex, "sm", "self")
        cv = SO.chart_value(c)
        ex.assume(SP.sm_chart_wf(cv))
        f = new_file(ex)
        out0 = out_of(f)
        kind, r = ex.run_function(ex.closure_of("simfile.sm.SMChart.serialize", owner=c.cls), [c, f])
        if kind == "raise":
            ex.prove("post:noraise", False, f"raised {r!r}")
            return
        ex.prove_eq("post:one-NOTES-parameter", out_of(f), z3.Concat(out0, SP.sm_chart_frags(cv)),
                    "one NOTES parameter: the six fields in the documented order, then the extra components")
        ex.prove("post:frame", SO.chart_value(c) == cv)


class SSCChartSerialize(Unit):
    name = "SSCChart.serialize"
    functions = ("simfile.ssc.SSCChart.serialize",)
    expected = ["serialize#loop0:inv-keep:out", "post:NOTEDATA-items-notes-last"]
    Q = "simfile.ssc.SSCChart.serialize"

    def run(self, ex):
        c = chart_obj(ex, "ssc", "self")
        cv = SO.chart_value(c)
        m = SO.cmap(cv)
        ex.assume(SP.ssc_chart_wf(cv))
        f = new_file(ex)
        out0 = out_of(f)
        head = z3.Concat(z3.Unit(MSD.FragSort.Param(z3.Concat(SP.U(strval("NOTEDATA")), SP.U(strval(""))))), z3.Unit(SP.NL()))

        def inv(ex_, fr, i, vals):
            return [("out", vals["out"].t == z3.Concat(out0, head, SP.SSCP()(m, i)))]

        def using(ex_, fr, i, vals):
            k = O.key_at(m, i)
            # domain: values are strings or None; a MULTI property's value is a string when present
            return SP.SSCP_unfold(m, i)

        slots = [field_slot("out", lambda ex_, fr: fr.locals["file"], "out", MSD.T_FRAGS)]
        inv2 = inv
        if _loop_assigns(self.Q, 0, "notes_key"):
            # an implementation that discovers the notes key while iterating: `notes_key` is loop state and must be
            # "NOTES" until the note data item has been passed and the notes key afterwards
            slots.append(local_slot("notes_key", STR))
            passed = SP.fn("ssc_notes_item_passed", O.OMapSort, z3.IntSort(), z3.BoolSort())
            nk = SP.ssc_notes_key(m)

            def inv2(ex_, fr, i, vals):
                return inv(ex_, fr, i, vals) + [("notes_key", term(vals["notes_key"], STR) == z3.If(passed(m, i), nk, strval("NOTES")))]

            using0 = using

            def using(ex_, fr, i, vals):
                return using0(ex_, fr, i, vals) + [passed(m, z3.IntVal(0)) == z3.BoolVal(False),
                                                    z3.Implies(z3.And(i >= 0, i < O.cnt_(m)), passed(m, i + 1) == z3.Or(passed(m, i), O.key_at(m, i) == nk))]

        ex.loop_specs[(self.Q, 0)] = LoopSpec(slots, inv2, using)
        kind, r = ex.run_function(ex.closure_of(self.Q, owner=c.cls), [c, f])
        if kind == "raise":
            ex.prove("post:noraise", False, f"raised {r!r}")
            return
        ex.prove_eq("post:NOTEDATA-items-notes-last", out_of(f), z3.Concat(out0, SP.ssc_chart_frags(cv)),
                    "NOTEDATA, every property except the note data in order, the note data last, a blank line")
        ex.prove("post:frame", SO.chart_value(c) == cv)


class ChartsSerialize(Unit):
    def __init__(self, kind):
        self.kind = kind
        self.name = f"BaseCharts.serialize[{kind}]"
        self.functions = ("simfile.base.BaseCharts.serialize",)
        self.expected = ["serialize#loop0:inv-keep:out", "post:charts-in-order"]

    def run(self, ex):
        scls, lcls, ccls = classes(self.kind)
        charts = ex.sym(TSeq(SO.TChart(ccls)), "charts")
        lst = SM.new_userlist(lcls, charts, "self")
        f = new_file(ex)
        out0 = out_of(f)
        q = "simfile.sm.SMChart.serialize" if self.kind == "sm" else "simfile.ssc.SSCChart.serialize"
        ex.callee_contracts[q] = chart_serialize_contract(self.kind)

        def inv(ex_, fr, i, vals):
            return [("out", vals["out"].t == z3.Concat(out0, SP.CHF(self.kind)(charts.t, i)))]

        def using(ex_, fr, i, vals):
            return SP.CHF_unfold(self.kind, charts.t, i)

        ex.loop_specs[("simfile.base.BaseCharts.serialize", 0)] = LoopSpec(
            [field_slot("out", lambda ex_, fr: fr.locals["file"], "out", MSD.T_FRAGS)], inv, using)
        kind, r = ex.run_function(ex.closure_of("simfile.base.BaseCharts.serialize", owner=lcls), [lst, f])
        if kind == "raise":
            ex.prove("post:noraise", False, f"raised {r!r}")
            return
        ex.prove_eq("post:charts-in-order", out_of(f), z3.Concat(out0, SP.CHF(self.kind)(charts.t, z3.Length(charts.t))),
                    "every chart in list order, each followed by a line break")


class SimfileSerialize(Unit):
    def __init__(self, kind):
        self.kind = kind
        self.name = f"BaseSimfile.serialize[{kind}]"
        self.functions = ("simfile.base.BaseSimfile.serialize",)
        self.expected = ["serialize#loop0:inv-keep:out", "post:properties-blank-line-charts"]

    def run(self, ex):
        scls, lcls, ccls = classes(self.kind)
        sf = SO.new_simfile(ex, scls, lcls, ccls, "self")
        m = O.map_of(sf)
        charts = SO.charts_term(sf, ccls)
        f = new_file(ex)
        out0 = out_of(f)
        ex.callee_contracts["simfile.base.BaseCharts.serialize"] = charts_serialize_contract(self.kind)

        def inv(ex_, fr, i, vals):
            return [("out", vals["out"].t == z3.Concat(out0, SP.SERP()(m, i)))]

        def using(ex_, fr, i, vals):
            return SP.SERP_unfold(m, i)

        ex.loop_specs[("simfile.base.BaseSimfile.serialize", 0)] = LoopSpec(
            [field_slot("out", lambda ex_, fr: fr.locals["file"], "out", MSD.T_FRAGS)], inv, using)
        kind, r = ex.run_function(ex.closure_of("simfile.base.BaseSimfile.serialize", owner=scls), [sf, f])
        if kind == "raise":
            ex.prove("post:noraise", False, f"raised {r!r}: every simfile whose values are strings or None must serialize")
            return
        ex.prove_eq("post:properties-blank-line-charts", out_of(f), z3.Concat(out0, SP.simfile_frags(self.kind, m, charts)),
                    "one parameter per property in order (key only when there is no value; ATTACKS/DISPLAYBPM as separate components), a blank line, the charts")
        ex.prove("post:frame", z3.And(O.map_of(sf) == m, SO.charts_term(sf, ccls) == charts))

    def replay(self, model, ob):
        return replay_serialize(self.kind)


def replay_serialize(kind):
    """replay adapter: a key-only property / a MULTI property without value"""
    scls, _, _ = classes(kind)
    for key in ("TITLE", "ATTACKS"):
        sf = scls.blank()
        sf[key] = None
        try:
            text = str(sf)
            back = scls(string=text)
            if back.get(key, "missing") is not None and key not in ("ATTACKS",):
                return dict(reproduced=True, input=f"{scls.__name__}.blank() with {key}=None", detail=f"round trip gives {back.get(key)!r}")
        except Exception as e:
            return dict(reproduced=True, input=f"{scls.__name__}.blank() with {key} = None (a key-only property)",
                        detail=f"str(simfile) raised {type(e).__name__}: {e}", command=f"sf = {scls.__name__}.blank(); sf[{key!r}] = None; str(sf)")
    return dict(reproduced=False, detail="key-only properties serialize")


class SerializableStr(Unit):
    name = "Serializable.__str__"
    functions = ("simfile._private.serializable.Serializable.__str__",)
    expected = ["post:text-of-serialize"]

    def run(self, ex):
        scls, lcls, ccls = classes("sm")
        sf = SO.new_simfile(ex, scls, lcls, ccls, "self")
        produced = fresh_term(FRAGS, "serialized")

        def ser(ex_, args, kwargs):
            file = args[1]
            ex_.setfield(file, "out", SV(z3.Concat(out_of(file), produced), MSD.T_FRAGS))
            return None

        ex.callee_contracts["simfile.base.BaseSimfile.serialize"] = ser
        kind, r = ex.run_function(ex.closure_of("simfile._private.serializable.Serializable.__str__", owner=scls), [sf])
        ex.prove("post:text-of-serialize", z3.BoolVal(kind == "return") if kind != "return" else term(r, STR) == MSD.frag_text(produced),
                 "str(x) is exactly the text x.serialize() writes to an empty file")


# -- parsing ---------------------------------------------------------------------------


class SMParse(Unit):
    name = "SMSimfile._parse"
    functions = ("simfile.sm.SMSimfile._parse", "simfile.sm.SMChart.from_msd", "simfile.sm.SMChart._from_msd")
    expected = ["_parse#loop0:inv-keep:map", "_parse#loop0:inv-keep:charts", "post:documented-rules"]
    Q = "simfile.sm.SMSimfile._parse"

    def run(self, ex):
        scls, lcls, ccls = classes("sm")
        sf = O.new_map_obj(ex, scls, m=O.empty(), label="self")
        text = ex.sym(STR, "text")
        ign = ex.sym(BOOL, "ignore_stray_text")
        it = MSD.ParamIter(text.t, ign.t)
        ps = it.params()
        ex.declare_input("params", lambda m: model_params(m, ps))

        def inv(ex_, fr, i, vals):
            return [("map", vals["map"].t == SP.SMF_map()(ps, i)),
                    ("charts", vals["charts"].t == SP.SMF_charts()(ps, i))]

        def using(ex_, fr, i, vals):
            return SP.SMF_unfold(ps, i)

        slots = [field_slot("map", lambda ex_, fr: fr.locals["self"], "__map__", O.T_OMAP),
                 field_slot("charts", lambda ex_, fr: fr.locals["self"].fields["_charts"], "data", TSeq(SO.TChart(ccls)))]
        ex.loop_specs[(self.Q, 0)] = LoopSpec(slots, inv, using)
        kind, r = ex.run_function(ex.closure_of(self.Q, owner=scls), [sf, it])
        n = z3.Length(ps)
        if kind == "raise":
            import msdparser
            if r.cls is msdparser.MSDParserError:
                ex.prove("raises:parser-error-only-when-strict", z3.And(z3.Not(ign.t), MSD.msd_error(text.t, ign.t)))
            elif r.cls is ValueError:
                i = ex.ghost.get(("loop_i", (self.Q, 0)))
                ok = i is not None
                ex.prove("raises:ValueError-iff-short-NOTES",
                         z3.And(SP.pkey(MSD.P_at(ps, i)) == strval("NOTES"), z3.Length(MSD.P_at(ps, i)) - 1 < 6) if ok else z3.BoolVal(False),
                         "fewer than six chart components is a ValueError")
            else:
                ex.prove("raises:only-documented", False, f"raised {r!r}")
            return
        ex.prove("post:documented-rules",
                 z3.And(O.map_of(sf) == SP.SMF_map()(ps, n), SO.charts_term(sf, ccls) == SP.SMF_charts()(ps, n)),
                 "keys upper-cased, last value wins in first position, MULTI keep all components, NOTES become charts")


    def replay(self, model, ob):
        from contracts import oracles as OR
        params = [list(p) for p in (model.get("params") or []) if p]
        if not params or not all(isinstance(c, str) for p in params for c in p):
            return dict(reproduced=False, detail="no parameter list in the counter-model")
        bad = OR.check_sm_load(params)
        return dict(reproduced=bool(bad), input=dict(text=OR.msd_text(params)), detail=bad or "the real loader follows the rules on this text",
                    command="SMSimfile(string=text)")


class SMChartFromMsd(Unit):
    def __init__(self, entry):
        self.entry = entry
        self.name = f"SMChart.{entry}"
        self.functions = (f"simfile.sm.SMChart.{entry}", "simfile.sm.SMChart._from_msd", "simfile.sm.SMChart.__setitem__")
        self.expected = ["post:six-trimmed-fields-plus-extra", "raises:ValueError-iff-fewer-than-six"]

    def run(self, ex):
        scls, lcls, ccls = classes("sm")
        e = self.entry
        if e in ("from_msd", "_from_msd"):
            values = ex.sym(TSeq(STR), "values")
            vt = values.t
            arg = values
        elif e in ("from_str", "_from_str"):
            s = ex.sym(STR, "string")
            vt = M.str_split(s.t, strval(":"))
            arg = s
        else:  # _parse(iterator)
            text = ex.sym(STR, "text")
            it = MSD.ParamIter(text.t, z3.BoolVal(True))
            ps = it.params()
            ex.assume(z3.Length(ps) >= 1)
            p0 = MSD.P_at(ps, 0)
            vt = z3.SubSeq(p0, 1, z3.Length(p0) - 1)
            ex.assume(SP.pkey(p0) == strval("NOTES"))
            arg = it
        fn = ex.closure_of(f"simfile.sm.SMChart.{e}", owner=ccls)
        if e in ("from_msd", "from_str"):
            kind, r = ex.run_function(fn, [ccls, arg])
            obj = r if kind == "return" else None
        else:
            obj = O.new_map_obj(ex, ccls, m=O.empty(), label="self")
            kind, r = ex.run_function(fn, [obj, arg])
        short = z3.Length(vt) < 6
        if kind == "raise":
            ex.prove("raises:ValueError-iff-fewer-than-six", z3.And(z3.BoolVal(r.cls is ValueError), short), f"raised {r!r}")
            return
        ex.prove("post:enough-components", z3.Not(short))
        ex.prove("post:six-trimmed-fields-plus-extra", SO.chart_value(obj) == SP.sm_chart_of(vt),
                 "six whitespace-trimmed fields in the documented order plus the extra components")
        # the extra components of a parsed chart are its own: not a mutable object every chart shares through the class
        try:
            ed = ex.getattr(obj, "extradata")
        except PyRaise:
            ed = None
        shared = isinstance(ed, (list, dict, set)) and any(ed is v_ for k_ in type.mro(ccls) for v_ in vars(k_).values())
        ex.prove("post:extra-components-not-shared-with-the-class", z3.BoolVal(not shared),
                 "a chart without extra components must not hand out a list that every other such chart also holds")


class RoundTripElement(Unit):
    """Layer 2, per element: parsing the parameter a property/chart was written as gives the element back."""

    def __init__(self, kind):
        self.kind = kind
        self.name = f"lemma:RT-elements[{kind}]"
        self.functions = ()
        self.expected = ["lemma:property-round-trip"] + (["lemma:sm-chart-round-trip"] if kind == "sm" else [])

    def run(self, ex):
        k = ex.sym(STR, "key")
        v = ex.sym(OSTR, "value")
        ex.assume(M.str_upper(k.t) == k.t)                                           # domain: keys are upper-case
        cs = SP.P(k.t, v.t)
        # S1 (assumed string law): ':'.join(s.split(':')) == s
        sv_ = OSTR.val(v.t)
        ex.assume(M.str_join(strval(":"), M.str_split(sv_, strval(":"))) == sv_, "S1: sep.join(s.split(sep)) == s")
        ex.assume(z3.Length(M.str_split(sv_, strval(":"))) >= 1)
        ex.prove("lemma:property-round-trip", z3.And(SP.pkey(cs) == k.t, SP.pvalue(cs) == v.t),
                 "the loading rules applied to the emitted parameter give back key and value (None for key-only)")
        if self.kind == "sm":
            scls, lcls, ccls = classes("sm")
            cv = fresh_term(SO.ChartSort, "chart")
            m = SO.cmap(cv)
            ex.assume(SP.sm_chart_wf(cv))
            ind = strval("\n     ")
            facts = []
            for f_ in SP.SIX:
                fv = SP.field(cv, f_)
                # domain: chart fields equal their own strip(); S3: surrounding whitespace is stripped
                facts.append(M.str_strip(fv) == fv)
                facts.append(M.str_strip(z3.Concat(ind, fv)) == M.str_strip(fv))
                facts.append(M.str_strip(z3.Concat(strval("\n"), fv, strval("\n"))) == M.str_strip(fv))
            ex.assume(z3.And(facts), "S3: (w1 + x + w2).strip() == x.strip() for whitespace-only w1, w2")
            comps = SP.sm_chart_comps(cv)
            vals = z3.SubSeq(comps, 1, z3.Length(comps) - 1)
            back = SP.sm_chart_of(vals)
            for f_ in SP.SIX:
                ex.prove(f"lemma:sm-chart-round-trip", O.om_get(SO.cmap(back), strval(f_)) == O.om_get(m, strval(f_)),
                         "the six fields of the chart come back unchanged")
            ex.prove("lemma:sm-chart-key", SP.pkey(comps) == strval("NOTES"))


# -- SSC parsing ---------------------------------------------------------------------------


def _carried(ex, qualname, ordn):
    """the one plain local the loop carries (the chart being assembled), whatever it is called"""
    from pyvc.execu import loop_carried, Unsupported
    names = loop_carried(ex.repo.func(qualname), ordn)
    if len(names) != 1:
        raise Unsupported(f"{qualname}: loop {ordn} carries the locals {names}, the contract expects exactly one (the chart being assembled)")
    return names[0]


def opt_chart_slot(name, cls, slot_name=None):
    """a local that holds None or a chart object being built (value: Optional chart mapping)"""
    from pyvc.values import TOpt
    from pyvc.execu import Slot
    OT = TOpt(O.T_OMAP)

    def g(ex, fr):
        v = fr.locals[name]
        if v is None:
            return SV(OT.lift_none(), OT) if hasattr(OT, "lift_none") else SV(OT.dt.none, OT)
        return SV(OT.some(O.map_of(v)), OT)

    def s(ex, fr, v):
        if ex.branch(OT.is_none(v.t), f"{name}-none"):
            fr.locals[name] = None
        else:
            o = O.new_map_obj(ex, cls, m=z3.simplify(OT.val(v.t)), label=name)
            sl.owned.append(o)      # the object is this slot's state: the loop may write to it
            fr.locals[name] = o

    sl = Slot(slot_name or name, OT, g, s)
    sl.local = name
    sl.owned = []
    return sl


def SSCF():
    I = z3.IntSort()
    from pyvc.values import TOpt
    OT = TOpt(O.T_OMAP)
    return (SP.fn("ssc_load_map_prefix", MSD.PARAMS, I, O.OMapSort),
            SP.fn("ssc_load_charts_prefix", MSD.PARAMS, I, z3.SeqSort(SO.ChartSort)),
            SP.fn("ssc_load_partial_prefix", MSD.PARAMS, I, OT.sort()), OT)


def ssc_chart_v(m):
    return SO.ChartSort.mk(m, SO.OPT_SEQ_STR.lift(None))


def SSCF_unfold(ps, i):
    fm, fc, fp, OT = SSCF()
    cs = MSD.P_at(ps, i)
    k = SP.pkey(cs)
    v = SP.pvalue(cs)
    nd = k == strval("NOTEDATA")
    part = fp(ps, i)
    has_part = z3.Not(OT.is_none(part))
    g = z3.And(i >= 0, i < z3.Length(ps))
    return [fm(ps, z3.IntVal(0)) == O.empty(), fc(ps, z3.IntVal(0)) == z3.Empty(z3.SeqSort(SO.ChartSort)),
            fp(ps, z3.IntVal(0)) == OT.dt.none,
            z3.Implies(g, fm(ps, i + 1) == z3.If(z3.Or(nd, has_part), fm(ps, i), O.om_set(fm(ps, i), k, v))),
            z3.Implies(g, fc(ps, i + 1) == z3.If(z3.And(nd, has_part), z3.Concat(fc(ps, i), z3.Unit(ssc_chart_v(OT.val(part)))), fc(ps, i))),
            z3.Implies(g, fp(ps, i + 1) == z3.If(nd, OT.some(O.empty()), z3.If(has_part, OT.some(O.om_set(OT.val(part), k, v)), part)))]


class SSCParse(Unit):
    name = "SSCSimfile._parse"
    functions = ("simfile.ssc.SSCSimfile._parse",)
    expected = ["_parse#loop0:inv-keep:map", "_parse#loop0:inv-keep:charts", "_parse#loop0:inv-keep:partial_chart", "post:documented-rules"]
    Q = "simfile.ssc.SSCSimfile._parse"

    def run(self, ex):
        scls, lcls, ccls = classes("ssc")
        sf = O.new_map_obj(ex, scls, m=O.empty(), label="self")
        text = ex.sym(STR, "text")
        ign = ex.sym(BOOL, "ignore_stray_text")
        it = MSD.ParamIter(text.t, ign.t)
        ps = it.params()
        ex.declare_input("params", lambda m: model_params(m, ps))
        fm, fc, fp, OT = SSCF()

        def inv(ex_, fr, i, vals):
            return [("map", vals["map"].t == fm(ps, i)), ("charts", vals["charts"].t == fc(ps, i)),
                    ("partial_chart", vals["partial_chart"].t == fp(ps, i))]

        def using(ex_, fr, i, vals):
            return SSCF_unfold(ps, i)

        slots = [field_slot("map", lambda ex_, fr: fr.locals["self"], "__map__", O.T_OMAP),
                 field_slot("charts", lambda ex_, fr: fr.locals["self"].fields["_charts"], "data", TSeq(SO.TChart(ccls))),
                 opt_chart_slot(_carried(ex, self.Q, 0), ccls, "partial_chart")]
        ex.loop_specs[(self.Q, 0)] = LoopSpec(slots, inv, using)
        kind, r = ex.run_function(ex.closure_of(self.Q, owner=scls), [sf, it])
        n = z3.Length(ps)
        if kind == "raise":
            import msdparser
            ex.prove("raises:parser-error-only-when-strict",
                     z3.And(z3.BoolVal(r.cls is msdparser.MSDParserError), z3.Not(ign.t), MSD.msd_error(text.t, ign.t)), f"raised {r!r}")
            return
        last = fp(ps, n)
        exp_charts = z3.If(OT.is_none(last), fc(ps, n), z3.Concat(fc(ps, n), z3.Unit(ssc_chart_v(OT.val(last)))))
        ex.prove("post:documented-rules", O.map_of(sf) == fm(ps, n), "simfile-level properties: everything before the first NOTEDATA")
        ex.prove_eq("post:charts", SO.charts_term(sf, ccls), exp_charts, "every parameter after a NOTEDATA belongs to that chart; charts in order")

    def replay(self, model, ob):
        from contracts import oracles as OR
        params = [list(p) for p in (model.get("params") or []) if p]
        if not params or not all(isinstance(c, str) for p in params for c in p):
            return dict(reproduced=False, detail="no parameter list in the counter-model")
        bad = OR.check_ssc_load(params)
        return dict(reproduced=bool(bad), input=dict(text=OR.msd_text(params)), detail=bad or "the real loader follows the rules on this text",
                    command="SSCSimfile(string=text)")


def is_notes_key(k):
    return z3.Or(k == strval("NOTES"), k == strval("NOTES2"))


def SCF():
    I = z3.IntSort()
    return (SP.fn("ssc_chart_load_prefix", MSD.PARAMS, I, O.OMapSort), SP.fn("ssc_chart_notes_before", MSD.PARAMS, I, z3.BoolSort()))


def SCF_unfold(ps, i):
    f, nb = SCF()
    cs = MSD.P_at(ps, i + 1)       # parameter 0 is the NOTEDATA header
    k = SP.pkey(cs)
    g = z3.And(i >= 0, i + 1 < z3.Length(ps))
    return [f(ps, z3.IntVal(0)) == O.empty(), nb(ps, z3.IntVal(0)) == z3.BoolVal(False),
            z3.Implies(g, f(ps, i + 1) == O.om_set(f(ps, i), k, SP.pvalue(cs))),
            z3.Implies(g, nb(ps, i + 1) == z3.Or(nb(ps, i), is_notes_key(k)))]


class SSCChartParse(Unit):
    def __init__(self, entry):
        self.entry = entry
        self.name = f"SSCChart.{entry}"
        self.functions = (f"simfile.ssc.SSCChart.{entry}",) + (("simfile.ssc.SSCChart._parse",) if entry == "from_str" else ())
        self.expected = ["_parse#loop0:inv-keep:map", "post:chart-up-to-notes"]
        self.Q = "simfile.ssc.SSCChart._parse"

    def run(self, ex):
        scls, lcls, ccls = classes("ssc")
        text = ex.sym(STR, "string")
        strict = ex.sym(BOOL, "strict")
        ign = z3.Not(strict.t)
        ps = MSD.msd_params(text.t, ign)
        ex.declare_input("params", lambda m: model_params(m, ps))
        f, nb = SCF()

        def inv(ex_, fr, i, vals):
            return [("map", vals["map"].t == f(ps, i)), ("no-notes-so-far", z3.Not(nb(ps, i)))]

        def using(ex_, fr, i, vals):
            return SCF_unfold(ps, i)

        ex.loop_specs[(self.Q, 0)] = LoopSpec([field_slot("map", lambda ex_, fr: fr.locals["self"], "__map__", O.T_OMAP)], inv, using)
        if self.entry == "from_str":
            kind, r = ex.run_function(ex.closure_of("simfile.ssc.SSCChart.from_str", owner=ccls), [ccls, text, strict])
            obj = r if kind == "return" else None
        else:
            obj = O.new_map_obj(ex, ccls, m=O.empty(), label="self")
            kind, r = ex.run_function(ex.closure_of(self.Q, owner=ccls), [obj, MSD.ParamIter(text.t, ign)])
        n = z3.Length(ps)
        if kind == "raise":
            import msdparser
            if r.cls is msdparser.MSDParserError:
                ex.prove("raises:parser-error-only-when-strict", z3.And(strict.t, MSD.msd_error(text.t, ign)))
            elif r.cls is ValueError:
                ex.prove("raises:ValueError-iff-no-NOTEDATA-first", z3.And(n >= 1, SP.pkey(MSD.P_at(ps, 0)) != strval("NOTEDATA")))
            elif r.cls is StopIteration:
                ex.prove("raises:StopIteration-iff-empty", n == 0)
            else:
                ex.prove("raises:only-documented", False, f"raised {r!r}")
            return
        i = ex.ghost.get(("loop_i", (self.Q, 0)))
        broke = ex.ghost.get("broke")
        m = O.map_of(obj)
        if f"_parse#loop0:break" in ex.covers and i is not None:
            cs = MSD.P_at(ps, i + 1)
            ex.prove("post:chart-up-to-notes",
                     z3.And(m == O.om_set(f(ps, i), SP.pkey(cs), SP.pvalue(cs)), is_notes_key(SP.pkey(cs)), z3.Not(nb(ps, i))),
                     "keys upper-cased, every parameter up to and including the first NOTES/NOTES2 parameter, nothing after it")
        else:
            ex.prove("post:chart-without-notes", z3.And(m == f(ps, n - 1), z3.Not(nb(ps, n - 1))),
                     "no note data parameter: every parameter after NOTEDATA")
