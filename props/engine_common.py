"""
Verification units for simfile.timing.engine (shared by C11, C12, C13).
"""
from __future__ import annotations

import ast
import bisect as _bisect
import z3

from pyvc.prop import Unit, Bounded
from pyvc.values import SV, INT, BOOL, FRAC, DEC, FLOAT, BEAT, TNum, TNT, TSeq, TIntEnum, term, is_sym, fresh, fresh_term, coerce
from pyvc.execu import HObj, NTVal, PyRaise, Unsupported, _wrap_field, assigned_from
from pyvc import models as M, stdmodels as SM
from contracts import engine as EN

Q = "simfile.timing.engine."


def state_domain(s):
    """a state of the property's domain: positive BPM, non-negative pause length"""
    return z3.And(EN.st_bpm(s) > 0, EN.st_value(s) >= 0)


class TagOrder(Unit):
    name = "EventTag"
    functions = ()
    expected = ["closed:tag-order"]

    def run(self, ex):
        e = EN.E().EventTag
        order = ["WARP", "WARP_END", "BPM", "DELAY", "DELAY_END", "STOP", "STOP_END"]
        vals = [int(getattr(e, nme)) for nme in order]
        ok = vals == sorted(vals) and len(set(vals)) == 7 and len(list(e)) == 7
        ex.prove("closed:tag-order", z3.BoolVal(ok), f"EventTag values {dict(zip(order, vals))} must order WARP < WARP_END < BPM < DELAY < DELAY_END < STOP < STOP_END")


class TaggedLt(Unit):
    name = "TaggedEvent.__lt__"
    functions = (Q + "TaggedEvent.__lt__",)
    expected = ["post:lexicographic-beat-tag"]

    def run(self, ex):
        g = EN.TG()
        a, b = ex.sym(g, "a"), ex.sym(g, "b")
        r = ex.compare(ast.Lt(), a, b)
        ex.prove("post:lexicographic-beat-tag",
                 ex._z(r.t if is_sym(r) else r) == EN.key_lt(g.acc(a.term(), "beat"), g.acc(a.term(), "tag"), g.acc(b.term(), "beat"), g.acc(b.term(), "tag")),
                 "events are ordered by beat, then by tag")


class TimeUntil(Unit):
    name = "TimingState.time_until"
    functions = (Q + "TimingState.time_until",)
    expected = ["post:statement-formula"]

    def run(self, ex):
        e = EN.E()
        s = ex.sym(EN.TS(), "state")
        ex.assume(state_domain(s.term()))
        beat = ex.sym(BEAT, "beat")
        tg = ex.sym(TIntEnum(e.EventTag), "event_tag")
        kind, r = ex.run_function(ex.closure_of(Q + "TimingState.time_until", owner=e.TimingState), [s, beat, tg])
        if kind == "raise":
            ex.prove("post:noraise", False, f"raised {r!r}")
            return
        ex.prove("post:statement-formula", coerce(r, FRAC).t == EN.spec_time_until(s.term(), beat.t, tg.t),
                 "zero inside a warp else 60/BPM per beat; plus the pause when the state starts a stop/delay and the asked tag is an END tag")

    def replay(self, model, ob):
        return None


class BeatsUntil(Unit):
    name = "TimingState.beats_until"
    functions = (Q + "TimingState.beats_until",)
    expected = ["post:statement-formula"]

    def run(self, ex):
        e = EN.E()
        s = ex.sym(EN.TS(), "state")
        ex.assume(state_domain(s.term()))
        time = ex.sym(FLOAT, "time")
        kind, r = ex.run_function(ex.closure_of(Q + "TimingState.beats_until", owner=e.TimingState), [s, time])
        if kind == "raise":
            ex.prove("post:noraise", False, f"raised {r!r}")
            return
        rt = coerce(r, FRAC).t if is_sym(r) else FRAC.lift(r)
        exp = EN.spec_beats_until(s.term(), time.t)
        # stated without division (z3 is much faster): 48 * result == round-half-even(48 * x)
        x = (time.t - EN.st_time(s.term())) / 60 * EN.st_bpm(s.term())
        ex.prove("post:statement-formula",
                 z3.If(EN.is_pause_start(EN.st_tag(s.term())), rt == 0, rt * 48 == z3.ToReal(M.real_round_half_even(x * 48))),
                 "no beat elapses during a pause; otherwise elapsed seconds x BPM / 60 on the tick grid")


class Advance(Unit):
    name = "TimingStateMachine.advance"
    functions = (Q + "TimingStateMachine.advance", Q + "TimingStateMachine.last", Q + "TimingState.time_until")
    expected = ["post:appends-the-next-state"]

    def run(self, ex):
        e = EN.E()
        states = ex.sym(TSeq(EN.TS()), "states")
        ex.assume(z3.Length(states.t) >= 1)
        last = states.t[z3.Length(states.t) - 1]
        ex.assume(EN.st_bpm(last) > 0)      # precondition of advance (re-checked at its call site in _retime_events)
        sm = SM.new_userlist(e.TimingStateMachine, states, "self")
        ev = ex.sym(EN.TG(), "event")
        kind, r = ex.run_function(ex.closure_of(Q + "TimingStateMachine.advance", owner=e.TimingStateMachine), [sm, ev])
        if kind == "raise":
            ex.prove("post:noraise", False, f"raised {r!r}")
            return
        ex.prove_eq("post:appends-the-next-state", sm.fields["data"].t, z3.Concat(states.t, z3.Unit(EN.spec_step(last, ev.term()))),
                    "one state appended: time advanced by time_until, BPM replaced only by a BPM event, warp flag set/cleared only by WARP/WARP_END")


# ---------------------------------------------------------------------------
# look-ups on the engine's state list


class TaggedList:
    """engine._tagged_beats / _tagged_times: the (beat|time, tag) projection of the state list"""

    def __init__(self, states, what):
        self.states, self.what = states, what


def key_of(states, k, what):
    s = states[k]
    return (EN.st_beat(s) if what == "beat" else EN.st_time(s)), EN.st_tag(s)


def _bisect_model(ex, args, kwargs):
    lst, x = args[0], args[1]
    fn_name = ex.ghost.get("__bisect_name__", "bisect_right")
    ex.assumptions_used.add("T-STD: bisect returns a local boundary index on any list (the partition point on a sorted one)")
    if isinstance(lst, TaggedList):
        xv, xt = x
        xv = coerce(xv, FRAC).t if is_sym(xv) else FRAC.lift(xv)
        xt = term(xt, INT) if not is_sym(xt) else coerce(xt, INT).t
        n = z3.Length(lst.states)
        idx = fresh_term(z3.IntSort(), "bisect")
        # tuple comparison (value, tag) < (value', tag'): lexicographic
        def x_lt(k):
            v, t = key_of(lst.states, k, lst.what)
            return EN.key_lt(xv, xt, v, t)
        ex.assume(z3.And(idx >= 0, idx <= n, z3.Or(idx == 0, z3.Not(x_lt(idx - 1))), z3.Or(idx == n, x_lt(idx))))
        ex.ghost.setdefault("bisect_calls", []).append((lst, xv, xt, idx))
        return SV(idx, INT)
    if is_sym(lst) and lst.ty.kind == "seq" and lst.ty.inner.kind == "num":
        xv = coerce(x, FRAC).t if is_sym(x) else FRAC.lift(x)
        n = z3.Length(lst.t)
        idx = fresh_term(z3.IntSort(), "bisect")
        right = fn_name != "bisect_left"
        if right:
            ex.assume(z3.And(idx >= 0, idx <= n, z3.Or(idx == 0, lst.t[idx - 1] <= xv), z3.Or(idx == n, xv < lst.t[idx])))
        else:
            ex.assume(z3.And(idx >= 0, idx <= n, z3.Or(idx == 0, lst.t[idx - 1] < xv), z3.Or(idx == n, xv <= lst.t[idx])))
        ex.ghost.setdefault("bisect_calls", []).append((lst, xv, None, idx, "left" if not right else "right"))
        return SV(idx, INT)
    raise Unsupported(f"bisect on {lst!r}")


def install_bisect():
    def mk(name):
        def m(ex, args, kwargs):
            ex.ghost["__bisect_name__"] = name
            return _bisect_model(ex, args, kwargs)
        return m
    M.REAL_CALL[_bisect.bisect] = mk("bisect_right")
    M.REAL_CALL[_bisect.bisect_right] = mk("bisect_right")
    M.REAL_CALL[_bisect.bisect_left] = mk("bisect_left")


install_bisect()


def new_engine(ex):
    """an engine whose state list is arbitrary but satisfies the representation invariant SM_inv (instances on demand)"""
    e = EN.E()
    states = ex.sym(TSeq(EN.TS()), "states")
    n = z3.Length(states.t)
    ex.assume(n >= 1)
    eng = HObj(e.TimingEngine, {}, "engine")
    eng.fields["_state_machine"] = SM.new_userlist(e.TimingStateMachine, states, "state_machine")
    eng.fields["_tagged_beats"] = TaggedList(states.t, "beat")
    eng.fields["_tagged_times"] = TaggedList(states.t, "time")
    times = TSeq(TNum("SongTime"))
    tt = fresh_term(times.sort(), "state_times")
    eng.fields["_times"] = SV(tt, times)
    k = z3.Int("k!inv")
    # SM_inv (established by _retime_events; see DESIGN 6/C11): projections agree with the states,
    # times never decrease along the list, every state is in the domain
    ex.assume(z3.Length(tt) == n)
    ex.assume(z3.ForAll([k], z3.Implies(z3.And(k >= 0, k < n), z3.And(tt[k] == EN.st_time(states.t[k]), state_domain(states.t[k])))))
    ex.assume(z3.ForAll([k], z3.Implies(z3.And(k >= 0, k + 1 < n), EN.st_time(states.t[k]) <= EN.st_time(states.t[k + 1]))))
    td = HObj(EN.T().TimingData, {}, "timing_data")
    first = ex.sym(DEC, "first_bpm")
    td.fields["bpms"] = SM.new_userlist(EN.T().BeatValues, [NTVal(EN.T().BeatValue, [0, first])], "bpms")
    eng.fields["timing_data"] = td
    return eng, states.t, first


def boundary(states, j, xv, xt, what="beat"):
    """j is the prior state for the key (x, tag): last position whose key is not after it (as bisect - 1 clamps to 0)"""
    n = z3.Length(states)
    v0, t0 = key_of(states, j, what)
    v1, t1 = key_of(states, j + 1, what)
    return z3.And(j >= 0, j < n, z3.Or(j == 0, z3.Not(EN.key_lt(xv, xt, v0, t0))), z3.Or(j == n - 1, EN.key_lt(xv, xt, v1, t1)))


def prior(states, idx, j, xv, xt, what="beat"):
    """j is the state in force for the key (x, tag): the last state at or before it; before every state, the first one (clamped)"""
    v0, t0 = key_of(states, z3.IntVal(0), what)
    return z3.If(idx >= 1, boundary(states, j, xv, xt, what), z3.And(j == 0, EN.key_lt(xv, xt, v0, t0)))


class Lookup(Unit):
    def __init__(self, which):
        self.which = which
        self.name = f"TimingEngine.{which}"
        self.functions = (Q + f"TimingEngine.{which}",)
        self.expected = ["post:"]

    def run(self, ex):
        e = EN.E()
        eng, states, first = new_engine(ex)
        w = self.which
        ex.callee_contracts[Q + "TimingState.time_until"] = lambda ex_, a, k: SV(EN.spec_time_until(a[0].term(), coerce(a[1], FRAC).t, term(a[2], INT)), FLOAT)
        ex.callee_contracts[Q + "TimingState.beats_until"] = lambda ex_, a, k: SV(EN.spec_beats_until(a[0].term(), coerce(a[1], FRAC).t), BEAT)
        fn = ex.closure_of(Q + f"TimingEngine.{w}", owner=e.TimingEngine)
        TAG = TIntEnum(e.EventTag)
        if w == "time_at":
            beat, tg = ex.sym(BEAT, "beat"), ex.sym(TAG, "event_tag")
            kind, r = ex.run_function(fn, [eng, beat, tg])
            if kind == "raise":
                ex.prove("post:noraise", False, f"raised {r!r}")
                return
            calls = ex.ghost.get("bisect_calls", [])
            idx = calls[0][3]
            j = z3.If(idx - 1 > 0, idx - 1, z3.IntVal(0))
            ex.prove("post:prior-state-is-the-last-at-or-before", prior(states, idx, j, beat.t, tg.t))
            ex.prove("post:time-from-the-prior-state", coerce(r, FRAC).t == EN.st_time(states[j]) + EN.spec_time_until(states[j], beat.t, tg.t),
                     "time of the prior state plus what elapses from it to (beat, tag)")
        elif w == "bpm_at":
            beat = ex.sym(BEAT, "beat")
            kind, r = ex.run_function(fn, [eng, beat])
            if kind == "raise":
                ex.prove("post:noraise", False, f"raised {r!r}")
                return
            calls = ex.ghost.get("bisect_calls", [])
            if not calls:
                ex.prove("post:negative-beat-uses-the-first-bpm", z3.And(beat.t < 0, coerce(r, FRAC).t == first.t))
                return
            idx = calls[0][3]
            j = z3.If(idx - 1 > 0, idx - 1, z3.IntVal(0))
            ex.prove("post:bpm-of-the-last-state-at-or-before", z3.And(beat.t >= 0, prior(states, idx, j, beat.t, EN.tag("BPM")), coerce(r, FRAC).t == EN.st_bpm(states[j])),
                     "the BPM in force: that of the last state at or before (beat, BPM)")
        elif w == "hittable":
            beat = ex.sym(BEAT, "beat")
            kind, r = ex.run_function(fn, [eng, beat])
            if kind == "raise":
                ex.prove("post:noraise", False, f"raised {r!r}")
                return
            calls = ex.ghost.get("bisect_calls", [])
            idx = calls[0][3]
            j = z3.If(idx - 1 > 0, idx - 1, z3.IntVal(0))
            s = states[j]
            unhit = z3.And(EN.st_warp(s), z3.Not(z3.And(EN.is_pause_end(EN.st_tag(s)), EN.st_beat(s) == beat.t)))
            ex.prove("post:warp-flag-unless-a-pause-ends-on-that-beat",
                     z3.And(prior(states, idx, j, beat.t, EN.tag("STOP_END")), ex._z(r.t if is_sym(r) else r) == z3.Not(unhit)),
                     "unhittable iff the state in force after everything on that beat is inside a warp and no stop/delay ends on that beat")
        else:  # beat_at
            time, tg = ex.sym(FLOAT, "time"), ex.sym(TAG, "event_tag")
            kind, r = ex.run_function(fn, [eng, time, tg])
            if kind == "raise":
                ex.prove("post:noraise", False, f"raised {r!r}")
                return
            calls = ex.ghost.get("bisect_calls", [])
            c = calls[0]
            idx = c[3]
            j = z3.If(idx - 1 > 0, idx - 1, z3.IntVal(0))
            n = z3.Length(states)
            # the search must be over a sequence that is ordered in the key searched, otherwise bisect's answer is arbitrary
            if isinstance(c[0], TaggedList):
                k = fresh_term(z3.IntSort(), "k")
                v0, t0 = key_of(states, k, c[0].what)
                v1, t1 = key_of(states, k + 1, c[0].what)
                ex.prove("call-pre:bisect-on-an-ordered-list",
                         z3.Implies(z3.And(k >= 0, k + 1 < n), z3.Not(EN.key_lt(v1, t1, v0, t0))),
                         "bisect needs its list ordered in the (value, tag) key it searches")
            else:
                ex.prove("call-pre:bisect-on-an-ordered-list", c[0].t == eng.fields["_times"].t,
                         "searching the state times, which never decrease along the state list")
                left = c[4] == "left"
                tj = EN.st_time(states[j])
                # WARP tag: the beat reached just before an instantaneous stretch (first state at that time);
                # otherwise the furthest beat reached at that time (last state at or before it)
                ex.prove("post:prior-state-by-time",
                         z3.And(j >= 0, j < n, z3.Or(j == 0, (tj < time.t) if left else (tj <= time.t)),
                                z3.Or(j == n - 1, (time.t <= EN.st_time(states[j + 1])) if left else (time.t < EN.st_time(states[j + 1])))))
                ex.prove("post:tag-selects-the-side", z3.BoolVal(True) if False else (z3.BoolVal(left) == (tg.t == EN.tag("WARP"))),
                         "the WARP tag asks for the start of a stretch that elapses in no time, every other tag for its end")
            ex.prove("post:beat-from-the-prior-state", coerce(r, FRAC).t == EN.st_beat(states[j]) + EN.spec_beats_until(states[j], time.t),
                     "beat of the prior state plus the beats elapsed since its time")


# ---------------------------------------------------------------------------
# bounded stand-ins: the real engine against the exact-rational statement (contracts/timeline.py)


class EngineVsStatement(Bounded):
    function = "simfile.timing.engine.TimingEngine (whole engine) vs the statement's timeline"
    PARTS = 12

    def __init__(self, what, part=0):
        self.what, self.part = what, part
        self.name = f"{what}-vs-statement[{part + 1}/{self.PARTS}]"

    def bound(self, tier):
        return ("all placements of up to 3 events (BPM 60/240, stop 1/2 s, delay 1/4 s, warp 1/2, 1, 2 beats) on the beat grid {0, 1/2, 1, 3/2, 2, 3}, "
                "probed every quarter beat from -1 to 4 under every tag" if tier == "quick" else
                "all placements of up to 4 events on the beat grid {0, 1/2, 1, 3/2, 2, 5/2, 3}, probed every quarter beat from -1 to 5 under every tag")

    def run(self, tier, seed):
        import time
        from fractions import Fraction as F
        from contracts import timeline as TL
        from simfile.timing.engine import EventTag
        from simfile.timing import Beat
        t0 = time.time()
        cases, failures = 0, []
        tol = F(1, 10 ** 9)

        def desc(tl):
            return dict(bpms=[(str(b), str(v)) for b, v in tl.bpms], stops=[(str(b), str(v)) for b, v in tl.stops],
                        delays=[(str(b), str(v)) for b, v in tl.delays], warps=[(str(b), str(v)) for b, v in tl.warps], offset=str(tl.offset))

        import itertools as _it
        generic = [c for gi, c in enumerate(TL.generic_configurations(tier)) if gi % self.PARTS == self.part]
        for idx, tl in enumerate(_it.chain(generic, TL.configurations(tier))):
            is_generic = idx < len(generic)
            if not is_generic and (idx - len(generic)) % self.PARTS != self.part:
                continue
            eng = TL.real_engine(tl)
            bad = None
            ps = TL.probes(tier)
            if is_generic:
                ps = [F(n_, 48) for n_ in range(-48, 48 * 10 + 1)]       # every tick: values off the binary grid
            if self.what == "time_at":
                prev = None
                seen_t = {}
                for b in ps:
                    # no tag given: "a delay counts from the DELAY_END tag on (so by default) and a stop only from STOP_END"
                    dflt = F(float(eng.time_at(Beat(b))))
                    if abs(dflt - tl.time_at(b)) > tol:
                        bad = f"time_at({b}) with no tag = {float(dflt)}, the statement gives {float(tl.time_at(b))} (delays on the beat counted, stops not)"
                    if b >= 0 and eng.bpm_at(Beat(b)) != tl.bpm_at(b):
                        bad = f"bpm_at({b}) = {eng.bpm_at(Beat(b))}, the last BPM change at or before it is {tl.bpm_at(b)}"
                    for tag in TL.TAGS:
                        cases += 1
                        got = F(float(eng.time_at(Beat(b), getattr(EventTag, tag))))
                        seen_t[(b, tag)] = got
                        if abs(got - tl.time_at(b, tag)) > tol:
                            bad = f"time_at({b}, {tag}) = {float(got)}, the statement gives {float(tl.time_at(b, tag))}"
                        if prev is not None and got < prev - tol:
                            bad = f"time decreases at ({b}, {tag})"
                        prev = got
                # the same engine asked again in another order (backwards, tags reversed) gives the same answers: no query leaves
                # state behind that a later query picks up
                for b in reversed(ps[::2]):
                    for tag in reversed(TL.TAGS):
                        again = F(float(eng.time_at(Beat(b), getattr(EventTag, tag))))
                        if again != seen_t[(b, tag)]:
                            bad = f"time_at({b}, {tag}) = {float(again)} when asked after later beats, {float(seen_t[(b, tag)])} on the first pass over the same engine"
                # offset shift and redundant BPM change (every third configuration in the quick tier)
                if tier == "quick" and idx % 3:
                    if bad:
                        failures.append(dict(input=desc(tl), detail=bad))
                    continue
                tl2 = TL.Timeline(tl.bpms, tl.stops, tl.delays, tl.warps, tl.offset + F(3, 4))
                e2 = TL.real_engine(tl2)
                tl3 = TL.Timeline(tl.bpms + [(F(7, 4), tl.bpm_at(F(7, 4)))] if all(b != F(7, 4) for b, _ in tl.bpms) else tl.bpms, tl.stops, tl.delays, tl.warps, tl.offset)
                e3 = TL.real_engine(tl3)
                for b in ps[::3]:
                    if abs(F(float(e2.time_at(Beat(b)))) - (F(float(eng.time_at(Beat(b)))) - F(3, 4))) > tol:
                        bad = f"changing the offset by 3/4 does not change time_at({b}) by -3/4"
                    if abs(F(float(e3.time_at(Beat(b)))) - F(float(eng.time_at(Beat(b))))) > tol:
                        bad = f"a BPM change repeating the BPM in force changes time_at({b})"
            elif self.what == "hittable":
                for n4 in (range(-4 * 48 // 12, 4 * 48 + 1, 4) if not is_generic else range(-16, 48 * 6 + 1)):
                    b = F(n4, 48)
                    cases += 1
                    if eng.hittable(Beat(b)) != tl.hittable(b):
                        bad = f"hittable({b}) = {eng.hittable(Beat(b))}, the statement says {tl.hittable(b)}"
            else:  # beat_at
                tl3 = TL.Timeline(tl.bpms + [(F(7, 4), tl.bpm_at(F(7, 4))), (F(9, 4), tl.bpm_at(F(9, 4)))] if all(b not in (F(7, 4), F(9, 4)) for b, _ in tl.bpms) else tl.bpms,
                                  tl.stops, tl.delays, tl.warps, tl.offset)
                e3 = TL.real_engine(tl3)
                prev = None
                times = []
                seen_b = []
                for b in ps:
                    for tag in TL.TAGS:
                        times.append(tl.time_at(b, tag))
                    if tl.in_warp(b):
                        continue
                    cases += 1
                    back = eng.beat_at(eng.time_at(Beat(b)))
                    if back != b:
                        bad = f"beat_at(time_at({b})) = {back}"
                    pi = tl.pause_interval(b)
                    if pi and pi[1] - pi[0] > 0:
                        mid = (pi[0] + pi[1]) / 2
                        if eng.beat_at(float(mid)) != b:
                            bad = f"inside the pause on beat {b}: beat_at({float(mid)}) = {eng.beat_at(float(mid))}"
                for t in sorted(set(times)):
                    if is_generic:
                        break       # exact boundary times are not representable as floats for non-dyadic values
                    cases += 1
                    r = eng.beat_at(float(t))
                    if prev is not None and r < prev:
                        bad = f"beat_at decreases at time {float(t)}: {r} after {prev}"
                    prev = r
                    if e3.beat_at(float(t)) != r:
                        bad = f"beat_at({float(t)}) = {r}, but {e3.beat_at(float(t))} once two BPM changes that repeat the BPM in force are added"
                    rw = eng.beat_at(float(t), EventTag.WARP)
                    if rw > r:
                        bad = f"beat_at({float(t)}, WARP) = {rw} lies after the default answer {r}"
                    seen_b.append((float(t), r, rw))
                # "at a time at which a whole warp segment elapses, the WARP tag gives the beat where that stretch starts and the
                # default gives the furthest beat reached at that time" - for segments that do not start on a paused beat
                if not is_generic:
                    paused = {b_ for b_, _ in tl.stops} | {b_ for b_, _ in tl.delays}
                    for s_, e_ in tl.segs:
                        if s_ in paused:
                            continue
                        t_s = float(tl.time_at(s_, "WARP"))
                        cases += 1
                        rw, r = eng.beat_at(t_s, EventTag.WARP), eng.beat_at(t_s)
                        far = min([p_ for p_ in paused if s_ < p_ < e_], default=e_)      # a pause inside the segment holds the song there
                        if rw != s_ or r != far:
                            bad = f"warp segment [{s_}, {e_}) elapses at time {t_s}: beat_at(WARP) = {rw} (start {s_} expected), default = {r} (furthest beat {far} expected)"
                # the same engine asked again backwards, WARP first: same answers (no state carried between queries)
                for t_, r_, rw_ in reversed(seen_b):
                    if eng.beat_at(t_, EventTag.WARP) != rw_ or eng.beat_at(t_) != r_ or eng.beat_at(t_, EventTag.WARP) != rw_:
                        bad = f"beat_at({t_}) / beat_at({t_}, WARP) change when the same engine is asked again in another order"
            if bad:
                failures.append(dict(input=desc(tl), detail=bad))
                if len(failures) >= 3:
                    break
        return dict(cases=cases, failures=failures, seconds=time.time() - t0)


def engine_witness(whats):
    def ws(tier, seed):
        for w in whats:
            for k in range(EngineVsStatement.PARTS):
                r = EngineVsStatement(w, k).run("quick", seed)
                if r["failures"]:
                    return r["failures"][0]
        return None
    return ws


# ---------------------------------------------------------------------------
# _coalesce_warps: "the segments so far are disjoint, non-touching and cover exactly the union of the warps seen"


class CoalesceWarps(Unit):
    name = "TimingEngine._coalesce_warps"
    functions = (Q + "TimingEngine._coalesce_warps",)
    expected = ["_coalesce_warps#loop0:inv-keep:cover", "post:union-of-warps"]
    LQ = Q + "TimingEngine._coalesce_warps"

    def run(self, ex):
        from pyvc.execu import LoopSpec, field_slot, Schema
        e = EN.E()
        t = EN.T()
        BV = TNT(t.BeatValue)
        SEQ = TSeq(BV)
        W = ex.sym(SEQ, "warps")
        n = z3.Length(W.t)
        R = z3.RealSort()
        # spec functions: is y inside one of the first i warps / inside one of the segments (recursion on the last element)
        INW = z3.Function("in_first_warps", SEQ.sort(), z3.IntSort(), R, z3.BoolSort())
        INS = z3.Function("in_segments", SEQ.sort(), SEQ.sort(), R, z3.BoolSort())

        def wb(j):
            return BV.acc(W.t[j], "beat")

        def wlen(j):
            return z3.ToReal(M.real_round_half_even(BV.acc(W.t[j], "value") * 48)) / 48     # Beat(warp.value): snapped (C14)

        def beat_of(seq, k):
            return BV.acc(seq[k], "beat")

        def inw_unfold(i, y):
            return [INW(W.t, z3.IntVal(0), y) == z3.BoolVal(False),
                    z3.Implies(z3.And(i >= 0, i < n), INW(W.t, i + 1, y) == z3.Or(INW(W.t, i, y), z3.And(wb(i) <= y, y < wb(i) + wlen(i))))]

        def ins_unfold(S_, E_, y):
            m = z3.Length(S_)
            e0 = z3.Empty(SEQ.sort())
            return [INS(e0, e0, y) == z3.BoolVal(False),
                    z3.Implies(m >= 1, INS(S_, E_, y) == z3.Or(INS(z3.SubSeq(S_, 0, m - 1), z3.SubSeq(E_, 0, m - 1), y),
                                                               z3.And(beat_of(S_, m - 1) <= y, y < beat_of(E_, m - 1))))]

        jq = z3.Int("j!q")
        # domain (C11): strictly increasing non-negative beats, positive (snapped) lengths - instantiated where needed
        def dom(i):
            return z3.And(z3.Implies(z3.And(i >= 0, i < n), z3.And(wb(i) >= 0, wlen(i) > 0)),
                          z3.Implies(z3.And(i >= 1, i < n), wb(i - 1) < wb(i)))

        td = HObj(t.TimingData, {"warps": SM.new_userlist(t.BeatValues, W, "warps")}, "timing_data")
        eng = HObj(e.TimingEngine, {"timing_data": td}, "self")
        state = {}

        def inv(ex_, fr, i, vals):
            S_, E_ = vals["starts"].t, vals["ends"].t
            m = z3.Length(S_)
            prev = state.get("prev")
            state["prev"] = (S_, E_)

            def cover(y):
                return INW(W.t, i, y) == INS(S_, E_, y)

            def cover_using(y):
                out = inw_unfold(i, y) + inw_unfold(i - 1, y) + ins_unfold(S_, E_, y)
                if prev is not None:
                    out += ins_unfold(prev[0], prev[1], y)
                return out

            return [("lengths", z3.And(z3.Length(E_) == m, (m == 0) == (i == 0))),
                    ("last-segment", z3.Implies(i > 0, z3.And(beat_of(S_, m - 1) <= wb(i - 1), wb(i - 1) < beat_of(E_, m - 1),
                                                              beat_of(S_, m - 1) < beat_of(E_, m - 1)))),
                    ("segments-nonempty", Schema(z3.IntSort(), lambda k: z3.Implies(z3.And(k >= 0, k < m), beat_of(S_, k) < beat_of(E_, k)))),
                    ("segments-apart", Schema(z3.IntSort(), lambda k: z3.Implies(z3.And(k >= 0, k + 1 < m), beat_of(E_, k) < beat_of(S_, k + 1)))),
                    ("cover", Schema(R, cover, cover_using))]

        def using(ex_, fr, i, vals):
            return [dom(i), dom(i - 1), dom(i + 1)]

        slots = [field_slot("starts", lambda ex_, fr: fr.locals[assigned_from(fr.fi, "BeatValues", 0)], "data", SEQ),
                 field_slot("ends", lambda ex_, fr: fr.locals[assigned_from(fr.fi, "BeatValues", 1)], "data", SEQ)]
        ex.loop_specs[(self.LQ, 0)] = LoopSpec(slots, inv, using)
        kind, r = ex.run_function(ex.closure_of(self.LQ, owner=e.TimingEngine), [eng])
        if kind == "raise":
            ex.prove("post:noraise", False, f"raised {r!r}")
            return
        (s_obj, s_tag), (e_obj, e_tag) = r
        ok_tags = s_tag is e.EventTag.WARP and e_tag is e.EventTag.WARP_END
        S_, E_ = s_obj.fields["data"], e_obj.fields["data"]
        S_ = S_.t if is_sym(S_) else SEQ.lift(S_)
        E_ = E_.t if is_sym(E_) else SEQ.lift(E_)
        ex.prove("post:tags", z3.BoolVal(bool(ok_tags)))
        y1 = fresh_term(R, "y")
        sch = ex.ghost.get(("schemas", (self.LQ, 0)), {}).get("cover")
        if sch is not None:
            ex.assume(sch.at(ex, y1))
        ex.prove("post:union-of-warps", z3.And(z3.Length(E_) == z3.Length(S_), INW(W.t, n, y1) == INS(S_, E_, y1)),
                 "overlapping or touching warps act as their union: a beat lies between a WARP and its WARP_END exactly when it lies inside some warp")
        k1 = fresh_term(z3.IntSort(), "k")
        schs = ex.ghost.get(("schemas", (self.LQ, 0)), {})
        for lab in ("segments-nonempty", "segments-apart"):
            if lab in schs:
                ex.assume(schs[lab].at(ex, k1))
        m = z3.Length(S_)
        ex.prove("post:alternating", z3.And(z3.Implies(z3.And(k1 >= 0, k1 < m), beat_of(S_, k1) < beat_of(E_, k1)),
                                            z3.Implies(z3.And(k1 >= 0, k1 + 1 < m), beat_of(E_, k1) < beat_of(S_, k1 + 1))),
                 "WARP and WARP_END events strictly alternate: every segment is non-empty and ends before the next one starts")




# ---------------------------------------------------------------------------
# _retime_events: the state list is the fold of the state-machine step over the merged events, the look-up tables are
# its projections (this is what establishes SM_inv, the representation invariant the look-ups start from)


def _merge_model(ex, args, kwargs):
    """T-STD heapq.merge(*lists): a sequence as long as the inputs together, every element of which is an element of one input
    (on inputs that are each sorted it is their sorted merge)"""
    import simfile.timing.engine as e
    TG = EN.TG()
    ex.assumptions_used.add("T-STD: heapq.merge yields as many elements as its inputs hold, each one an element of some input (sorted when every input is)")
    if kwargs:
        raise Unsupported("heapq.merge with key=/reverse=")
    lists = []
    for a in args:
        it = M.iterable(ex, a)
        if not isinstance(it, M.SymIter):
            it_list = list(it)
            it = M.SymIter(z3.IntVal(len(it_list)), (lambda ex_, i, L=it_list: (_ for _ in ()).throw(Unsupported("concrete merge input"))), "concrete") if it_list else \
                M.SymIter(z3.IntVal(0), lambda ex_, i: None, "empty")
        lists.append(it)
    mg = fresh_term(TSeq(TG).sort(), "merged")
    total = z3.IntVal(0)
    for it in lists:
        ex.assume(it.length >= 0)
        total = total + it.length
    ex.assume(z3.Length(mg) == total)
    ex.ghost["merge"] = dict(inputs=lists, out=mg)

    def facts(ex_, i):
        alts = []
        for a, it in enumerate(lists):
            if z3.is_int_value(z3.simplify(it.length)) and z3.simplify(it.length).as_long() == 0:
                continue
            j = fresh_term(z3.IntSort(), f"from{a}")
            x = it.at(ex_, j)
            alts.append(z3.And(j >= 0, j < it.length, mg[i] == (x.term() if isinstance(x, NTVal) else term(x, TG))))
        return [z3.Or(alts) if alts else z3.BoolVal(False)]

    return M.SymIter(z3.Length(mg), lambda ex_, i: _wrap_field(TG, mg[i]), "merge", facts=facts)


def install_merge():
    import heapq
    M.REAL_CALL[heapq.merge] = _merge_model


install_merge()


class RetimeEvents(Unit):
    name = "TimingEngine._retime_events"
    functions = (Q + "TimingEngine._retime_events",)
    expected = ["_retime_events#loop0:inv-keep:states", "post:initial-state", "call-pre:merge-inputs", "post:lookup-tables-are-projections",
                "lemma:step-keeps-domain", "lemma:step-time-monotone"]
    LQ = Q + "TimingEngine._retime_events"

    def run(self, ex):
        from pyvc.execu import LoopSpec, field_slot
        e, t = EN.E(), EN.T()
        BV, TS_, TG = TNT(t.BeatValue), EN.TS(), EN.TG()
        SEQ = TSeq(BV)
        bpms, stops, delays = ex.sym(SEQ, "bpms"), ex.sym(SEQ, "stops"), ex.sym(SEQ, "delays")
        wstarts, wends = ex.sym(SEQ, "warp_starts"), ex.sym(SEQ, "warp_ends")
        offset = ex.sym(DEC, "offset")
        ex.assume(z3.Length(bpms.t) >= 1)      # BeatValues parsing of BPMS gives at least one change on every timed simfile (C15)
        td = HObj(t.TimingData, {"bpms": SM.new_userlist(t.BeatValues, bpms, "bpms"), "stops": SM.new_userlist(t.BeatValues, stops, "stops"),
                                 "delays": SM.new_userlist(t.BeatValues, delays, "delays"), "offset": offset}, "timing_data")
        eng = HObj(e.TimingEngine, {"timing_data": td}, "self")

        def coalesce(ex_, a, k):
            ex_.assumptions_used.add("callee contract _coalesce_warps: (starts, WARP), (ends, WARP_END) (proved in unit TimingEngine._coalesce_warps)")
            return [(SM.new_userlist(t.BeatValues, wstarts, "warp_starts"), e.EventTag.WARP), (SM.new_userlist(t.BeatValues, wends, "warp_ends"), e.EventTag.WARP_END)]

        def advance(ex_, a, k):
            ex_.assumptions_used.add("callee contract TimingStateMachine.advance: appends spec_step(last, event) (proved in unit TimingStateMachine.advance)")
            sm_, ev = a
            d = sm_.fields["data"]
            dt = d.t if is_sym(d) else TSeq(TS_).lift(d)
            last = dt[z3.Length(dt) - 1]
            ex_.prove("call-pre:advance", z3.And(z3.Length(dt) >= 1, EN.st_bpm(last) > 0), "advance needs a last state with a non-zero BPM")
            evt = ev.term() if isinstance(ev, NTVal) else term(ev, TG)
            ex_.setfield(sm_, "data", SV(z3.Concat(dt, z3.Unit(EN.spec_step(last, evt))), TSeq(TS_)))
            return None

        ex.callee_contracts[Q + "TimingEngine._coalesce_warps"] = coalesce
        ex.callee_contracts[Q + "TimingStateMachine.advance"] = advance
        STS = TSeq(TS_)
        FOLD = z3.Function("fold_states", TS_.sort(), TSeq(TG).sort(), z3.IntSort(), STS.sort())
        st = {}

        def mg():
            return ex.ghost["merge"]["out"]

        def init_of(fr):
            return st["init"]

        def inv(ex_, fr, i, vals):
            s = vals["states"].t
            return [("states", s == FOLD(st["init"], mg(), i)), ("length", z3.Length(s) == i + 1),
                    ("bpm-positive", EN.st_bpm(s[z3.Length(s) - 1]) > 0)]

        def using(ex_, fr, i, vals):
            m = mg()
            if "init" not in st:
                d0 = fr.loop_entry[(self.LQ, 0)]["states"].t
                st["init"] = d0[0]
                st["entry"] = d0
            f0 = FOLD(st["init"], m, z3.IntVal(0))
            fi, fi1 = FOLD(st["init"], m, i), FOLD(st["init"], m, i + 1)
            return [f0 == z3.Unit(st["init"]),
                    z3.Implies(z3.And(i >= 0, i < z3.Length(m)), fi1 == z3.Concat(fi, z3.Unit(EN.spec_step(fi[z3.Length(fi) - 1], m[i]))))]

        ex.loop_specs[(self.LQ, 0)] = LoopSpec([field_slot("states", lambda ex_, fr: fr.locals["self"].fields["_state_machine"], "data", STS)], inv, using)
        # the property's domain for the sources (instantiated at the index the merge draws from)
        k0 = z3.Int("k!dom")
        for sq, strict in ((bpms, True), (stops, False), (delays, False), (wstarts, False), (wends, False)):
            v = BV.acc(sq.t[k0], "value")
            ex.assume(z3.ForAll([k0], z3.Implies(z3.And(k0 >= 0, k0 < z3.Length(sq.t)), (v > 0) if strict else (v >= 0))),
                      "C11 domain: BPM values are positive, stop / delay lengths are not negative")
        kind, r = ex.run_function(ex.closure_of(self.LQ, owner=e.TimingEngine), [eng])
        first = bpms.t[0]
        if kind == "raise":
            ex.prove("raises:first-bpm-not-on-beat-0", z3.And(z3.BoolVal(r.cls is ValueError), BV.acc(first, "beat") != 0), f"raised {r!r}")
            return
        ex.prove("post:first-bpm-on-beat-0", BV.acc(first, "beat") == 0)
        init = st.get("init")
        if init is None:
            raise Unsupported("_retime_events: the loop over the merged events was not reached")
        ex.prove("post:initial-state",
                 z3.And(z3.Length(st["entry"]) == 1,
                        init == TS_.mk(EN.TE().mk(z3.RealVal(0), BV.acc(first, "value"), EN.tag("BPM"), -offset.t), BV.acc(first, "value"), z3.BoolVal(False))),
                 "the state list starts with the first BPM at beat 0, time = -offset, outside any warp")
        # what was merged: each of the seven event lists, with its own tag
        m = ex.ghost["merge"]
        want = {"WARP": wstarts.t, "WARP_END": wends.t, "BPM": z3.SubSeq(bpms.t, 1, z3.Length(bpms.t) - 1), "DELAY": delays.t, "DELAY_END": delays.t,
                "STOP": stops.t, "STOP_END": stops.t}
        j = fresh_term(z3.IntSort(), "j")
        seen, conj = [], [z3.BoolVal(len(m["inputs"]) == 7)]
        for it in m["inputs"]:
            x = it.at(ex, j)
            tg_ = x.get("tag") if isinstance(x, NTVal) else None
            tagname = tg_.name if isinstance(tg_, e.EventTag) else None
            if tagname is None or tagname in seen:
                conj.append(z3.BoolVal(False))
                continue
            seen.append(tagname)
            src = want[tagname]
            conj.append(z3.And(it.length == z3.Length(src),
                               z3.Implies(z3.And(j >= 0, j < z3.Length(src)),
                                          z3.And(coerce(x.get("beat"), FRAC).t == BV.acc(src[j], "beat"), coerce(x.get("value"), FRAC).t == BV.acc(src[j], "value")))))
        ex.prove("call-pre:merge-inputs", z3.And(conj),
                 "the merged events are the coalesced warp starts / ends, the BPM changes after the first, every delay and stop once as its start and once as its end, each under its own tag")
        # the look-up tables are the projections of the state list
        sm_ = eng.fields["_state_machine"].fields["data"]
        states = sm_.t if is_sym(sm_) else STS.lift(sm_)
        n = z3.Length(states)
        k = fresh_term(z3.IntSort(), "k")
        tb, tt, ts = eng.fields.get("_tagged_beats"), eng.fields.get("_tagged_times"), eng.fields.get("_times")
        parts = []
        for obj, what in ((tb, "beat"), (tt, "time")):
            if not isinstance(obj, SM.LazyList):
                parts.append(z3.BoolVal(False))
                continue
            x = obj.at(ex, k)
            v, tg_ = key_of(states, k, what)
            ok = isinstance(x, tuple) and len(x) == 2 and (isinstance(x[1], e.EventTag) or (is_sym(x[1]) and x[1].ty.kind in ("int", "ienum")))
            if ok and what == "beat" and is_sym(x[0]) and x[0].ty is FLOAT:
                ok = False      # a float conversion of the beat is not the beat: Python compares Fraction and float exactly (outside A-FLOAT)
            parts.append(z3.And(obj.length == n, z3.Implies(z3.And(k >= 0, k < n), z3.And(coerce(x[0], FRAC).t == v, term(x[1], INT) == tg_))) if ok else z3.BoolVal(False))
        if isinstance(ts, SM.LazyList):
            x = ts.at(ex, k)
            parts.append(z3.And(ts.length == n, z3.Implies(z3.And(k >= 0, k < n), coerce(x, FRAC).t == EN.st_time(states[k]))))
        else:
            parts.append(z3.BoolVal(False))
        ex.prove("post:lookup-tables-are-projections", z3.And(parts),
                 "_tagged_beats[k] == (beat, tag), _tagged_times[k] == (time, tag) and _times[k] == time of state k, one entry per state")
        ex.prove("post:states-are-the-fold", z3.And(states == FOLD(init, m["out"], z3.Length(m["out"])), n == z3.Length(m["out"]) + 1),
                 "one state per merged event after the initial one, each obtained from its predecessor by the state-machine step")
        # the two inductive steps that turn the fold into SM_inv (closed lemmas over the step function)
        s, ev = fresh_term(TS_.sort(), "s"), fresh_term(TG.sort(), "ev")
        b, v, tg2 = TG.acc(ev, "beat"), TG.acc(ev, "value"), TG.acc(ev, "tag")
        evdom = z3.And(v >= 0, z3.Implies(tg2 == EN.tag("BPM"), v > 0))
        nxt = EN.spec_step(s, ev)
        ex.prove("lemma:step-keeps-domain", z3.Implies(z3.And(state_domain(s), evdom), state_domain(nxt)),
                 "a positive BPM and a non-negative value are kept by every step on an event of the domain")
        ex.prove("lemma:step-time-monotone", z3.Implies(z3.And(state_domain(s), evdom, b >= EN.st_beat(s)), EN.st_time(nxt) >= EN.st_time(s)),
                 "time never decreases along the state list when the events come in beat order")


# ---------------------------------------------------------------------------
# thorough tier: CPython cross-check of the encoder on the pure engine functions


def engine_xchecks(which):
    from pyvc.xcheck import EncoderCrossCheck
    from decimal import Decimal
    from fractions import Fraction

    def states():
        e = EN.E()
        from simfile.timing import Beat
        out = []
        for tag in (e.EventTag.BPM, e.EventTag.STOP, e.EventTag.DELAY, e.EventTag.WARP, e.EventTag.STOP_END):
            for warp in (False, True):
                out.append(e.TimingState(event=e.TimedEvent(beat=Beat(3, 2), value=Decimal("0.25"), tag=tag, time=e.SongTime(1.5)), bpm=Decimal("90"), warp=warp))
        return out

    def cases_time_until(tier):
        e = EN.E()
        from simfile.timing import Beat
        for s in states():
            for b in (Beat(3, 2), Beat(4), Beat(7, 3)):
                for tg in (e.EventTag.WARP, e.EventTag.DELAY, e.EventTag.DELAY_END, e.EventTag.STOP, e.EventTag.STOP_END):
                    yield (s, b, tg)

    def cases_beats_until(tier):
        for s in states():
            for t in (1.5, 2.0, 1.75, 2.3333, 1.0):
                yield (s, t)

    def cases_lt(tier):
        e = EN.E()
        from simfile.timing import Beat
        evs = [e.TaggedEvent(Beat(b), Decimal(1), t) for b in (1, 2) for t in (e.EventTag.WARP, e.EventTag.BPM, e.EventTag.STOP_END)]
        for a in evs:
            for b in evs:
                yield (a, b)

    table = {"time_until": EncoderCrossCheck("TimingState.time_until", Q + "TimingState.time_until", lambda: EN.E().TimingState, lambda s, b, t: s.time_until(b, t), cases_time_until),
             "beats_until": EncoderCrossCheck("TimingState.beats_until", Q + "TimingState.beats_until", lambda: EN.E().TimingState, lambda s, t: s.beats_until(t), cases_beats_until),
             "lt": EncoderCrossCheck("TaggedEvent.__lt__", Q + "TaggedEvent.__lt__", lambda: EN.E().TaggedEvent, lambda a, b: a < b, cases_lt)}
    return [table[w] for w in which]
