"""
C04 - load, save, load loses nothing; a second save changes nothing.

A composition over the contracts of C01-C03: (1) everything a load produces is in the
domain of the serializers (values are str or None, keys upper-case, SM chart fields
equal their own strip()) - lemma LOADED-IN-DOMAIN below; (2) the serializers never
raise on that domain and emit the prescribed parameters (units shared with C01/C02);
(3) the loading rules applied to an emitted parameter give the element back
(lemma RT-elements); (4) the serialization is a function of the simfile value, so a
second save reproduces the first byte for byte.
"""
import z3

from pyvc.prop import Unit
from pyvc.values import strval, STR, OSTR, TSeq, S_at, fresh_term
from pyvc import omap as O, models as M, simobj as SO, msd as MSD
from contracts import simfile_spec as SP
from props.ser_common import (SMChartSerialize, SSCChartSerialize, ChartsSerialize, SimfileSerialize, SMParse, SSCParse,
                              RoundTripElement)

LEVEL = "proof"
TRUSTED = [
    "T-MSD-1: the parameters msdparser reads from a written text are the written parameters (outside its escaping gaps, which the property excludes)",
    "T-OD ordered-map theory incl. reconstruction; S1/S3/S4 string laws",
    "the contracts of C01-C03 (proved in their units, re-run here)",
    "pyvc VC generator; z3/cvc5",
]
ASSUMPTIONS = ["every SSC chart contains note data (the property's proviso)",
               "the composition of the four steps above is an argument over the proved contracts (DESIGN 6/C04); its two lemmas are mechanised, the chaining is not"]


class LoadedInDomain(Unit):
    name = "lemma:LOADED-IN-DOMAIN"
    functions = ()
    expected = ["lemma:loaded-keys-are-upper-case", "lemma:loaded-sm-chart-fields-are-stripped", "lemma:loaded-multi-value-rejoins"]

    def run(self, ex):
        cs = fresh_term(MSD.CS, "components")
        ex.assume(z3.Length(cs) >= 1)
        k = SP.pkey(cs)
        ex.assume(M.str_upper(M.str_upper(S_at(cs, 0))) == M.str_upper(S_at(cs, 0)), "S4: upper is idempotent")
        ex.prove("lemma:loaded-keys-are-upper-case", M.str_upper(k) == k)
        vals = z3.SubSeq(cs, 1, z3.Length(cs) - 1)
        ex.assume(z3.Length(vals) >= 6)
        cv = SP.sm_chart_of(vals)
        for j, f_ in enumerate(SP.SIX):
            x = S_at(vals, j)
            ex.assume(M.str_strip(M.str_strip(x)) == M.str_strip(x), "S3: strip is idempotent")
        ex.prove("lemma:loaded-sm-chart-fields-are-stripped",
                 z3.And([M.str_strip(SP.field(cv, f_)) == SP.field(cv, f_) for f_ in SP.SIX] + [SP.sm_chart_wf(cv)]))
        # a loaded ATTACKS/DISPLAYBPM value is ':'.join(components): splitting and re-joining it is the identity (S1)
        v = M.str_join(strval(":"), vals)
        ex.assume(M.str_join(strval(":"), M.str_split(v, strval(":"))) == v, "S1: sep.join(s.split(sep)) == s")
        ex.prove("lemma:loaded-multi-value-rejoins", M.str_join(strval(":"), M.str_split(v, strval(":"))) == v)


UNITS = [SMChartSerialize(), SSCChartSerialize(), ChartsSerialize("sm"), ChartsSerialize("ssc"), SimfileSerialize("sm"), SimfileSerialize("ssc"),
         SMParse(), SSCParse(), RoundTripElement("sm"), RoundTripElement("ssc"), LoadedInDomain()]


def witness_search(tier, seed):
    import glob, random, simfile
    from simfile.sm import SMSimfile
    from simfile.ssc import SSCSimfile
    rnd = random.Random(seed)
    texts = ["#TITLE;#ARTIST:x;", "#title:a;#TITLE:b;#Attacks:x:y;#DISPLAYBPM;#NOTES:a:b:c:d:e:f:g:h;#SUBTITLE:late;",
             "stray\n#VERSION:0.83;#TITLE:t;//c\n#NOTEDATA:;#credit:;#NOTES:0000;#AFTER:x;#NOTEDATA:;#NOTES2:11;",
             "#A:1\n#B:2;", "#ATTACKS;", "#VERSION:1;#NOTEDATA:;#ATTACKS:a:b;#DISPLAYBPM;#NOTES:;",
             "#VERSION:0.83;#NOTEDATA:;#STEPSTYPE:x;#NOTES2:0001;#CREDIT:c;#NOTES:1000;#NOTEDATA:;#NOTES2:11;#AFTER:z;",
             # a blank / key-only NOTES beside a populated NOTES2, in both orders
             "#VERSION:0.83;#NOTEDATA:;#STEPSTYPE:x;#NOTES:;#NOTES2:0001\n1000;", "#VERSION:0.83;#NOTEDATA:;#NOTES2:0001;#CREDIT:c;#NOTES;"]
    # values that need MSD escapes (backslash, ':' ';' and '//' inside note data and ordinary values), written by msdparser itself
    from msdparser import MSDParameter
    esc = "dr\\ums:k;i//ck"
    texts.append("#VERSION:0.83;#TITLE:t;" + str(MSDParameter(("NOTEDATA", ""))) + str(MSDParameter(("CREDIT", esc))) + str(MSDParameter(("NOTES", "0000\n" + esc))) + "\n")
    texts.append("#TITLE:t;#SUBTITLE" + str(MSDParameter(("X", esc)))[2:] + str(MSDParameter(("NOTES", "dance-single", "d", "Easy", "1", "0,0,0,0,0", "0000\n" + esc))) + "\n")
    texts.append("#TITLE:a;\r\n#BGCHANGES:1=x\r\n,2=y;\r\n#SUBTITLE:cr\ronly;\r\n#NOTES:dance-single:d:Easy:1:0,0,0,0,0:\r\n0000\r\n0000\r\n;\r\n")
    texts.append("#VERSION:0.83;\r\n#TITLE:a;\r\n#BGCHANGES:1=x\r\n,2=y;\r\n#NOTEDATA:;\r\n#CREDIT:two\r\nlines;\r\n#NOTES:0000\r\n0000\r\n;\r\n")
    for path in sorted(glob.glob("/repo/testdata/**/*.s*", recursive=True)):
        try:
            texts.append(open(path, encoding="utf-8").read())
        except Exception:
            pass
    base = list(texts)
    for _ in range(60 if tier == "quick" else 600):
        t = rnd.choice(base)
        if len(t) > 40:
            a = rnd.randrange(len(t))
            t = t[:a] + rnd.choice(["", "#X:y;", ";", ":", "\n#LOW:z;", "junk"]) + t[a + rnd.randrange(0, 30):]
        texts.append(t)
    # a save that fails half way (an SSC chart without note data cannot be written) leaves nothing behind for the next save
    ok_text = "#TITLE:fine;#SUBTITLE:x;"
    ref = str(simfile.loads(ok_text))
    broken = simfile.loads("#VERSION:0.83;#TITLE:b;#NOTEDATA:;#STEPSTYPE:x;")
    for _ in range(2):
        try:
            str(broken)
        except Exception:
            pass
        if str(simfile.loads(ok_text)) != ref:
            return dict(input=dict(history="str() of an SSC simfile whose chart has no NOTES (raises), then str() of another simfile", text=ok_text),
                        detail="the second save differs from the save of the same simfile before the failed one")
    for text in texts:
        if text.rstrip().endswith("\\"):
            continue
        for strict in (True, False):
            try:
                sf = simfile.loads(text, strict=strict)
            except Exception:
                continue
            if isinstance(sf, SSCSimfile) and any(c.notes is None for c in sf.charts):
                continue
            vals = [v for v in sf.values() if v] + [v for c in sf.charts for v in c.values() if v]
            import re
            if any("///" in v or re.search(r"(^|[\r\n])[:;\\]*#", v) for v in vals):
                continue
            if isinstance(sf, SMSimfile) and any((c.notes or "").startswith("#") for c in sf.charts):
                continue
            if isinstance(sf, SMSimfile) and any(re.match(r"[:;\\]*#", x) for c in sf.charts for x in (c.extradata or [])):
                continue        # an extra component starting with '#' follows the line break that ends the note data: same gap
            if any("#" in k for k in sf.keys()) or any("#" in k for c in sf.charts for k in c.keys()):
                continue        # keys containing '#': msdparser's escaping gap, excluded by the property
            try:
                out = str(sf)
            except Exception as e:
                return dict(input=dict(text=text[:300], strict=strict), detail=f"loaded fine, then str() raised {type(e).__name__}: {e}")
            sf2 = type(sf)(string=out)
            same = list(sf2.items()) == list(sf.items()) and len(sf2.charts) == len(sf.charts)
            if same:
                for a, b in zip(sf.charts, sf2.charts):
                    ia, ib = list(a.items()), list(b.items())
                    if isinstance(sf, SSCSimfile):
                        nk = "NOTES2" if ("NOTES" not in a and "NOTES2" in a) else "NOTES"
                        ia = [x for x in ia if x[0] != nk] + [(nk, a[nk])]
                    if ia != ib or getattr(a, "extradata", None) != getattr(b, "extradata", None):
                        same = False
            if not same:
                return dict(input=dict(text=text[:300], strict=strict), detail="load -> save -> load changed a property or chart")
            if str(sf2) != out:
                return dict(input=dict(text=text[:300], strict=strict), detail="second save differs from the first")
    return None

from pyvc.xcheck import MsdTextProbe   # noqa: E402
THOROUGH_BOUNDED = [MsdTextProbe()]

# tables the statement pins down by value (props/constants_common.py)
from props.constants_common import ClosedConstants   # noqa: E402
UNITS = list(UNITS) + [ClosedConstants('sm-chart-fields', 'multi-value-properties')]


# supplier units (see props/suppliers.py): load -> save -> load goes through every loader and through __str__
from props import suppliers as _S   # noqa: E402
UNITS = _S.extend(UNITS, _S.loaders(), _S.serializers())
