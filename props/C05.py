"""
C05 - mutate saves exactly the edited simfile, in the encoding it was read in.
"""
from props.mutate_common import OpenDetect, Mutate

LEVEL = "proof"
TRUSTED = [
    "T-FS: ghost file system contract (open/read/write/close; NativeOSFS and any PyFilesystem are assumed to satisfy it)",
    "T-CODEC: Python's codecs define decodable/encodable/textread/textwrite; every character decoded under e is encodable under e; "
    "textread(e, textwrite(e, s)) == s for encodable s without bare CR",
    "callee contracts: simfile.load (C03), BaseSimfile.serialize / Serializable.__str__ (C01/C02), open_with_detected_encoding inside mutate",
    "contextlib.contextmanager: the generator runs to its single yield, the block's exception is thrown in at the yield",
    "pyvc VC generator; z3/cvc5",
]
ASSUMPTIONS = ["C04: a simfile that was just loaded can always be serialized",
               "no OS-level fault while saving (fault points are C06's)",
               "'parses to exactly the simfile' = textread/textwrite inverse (T-CODEC) + C01/C02 round trip; the second no-op mutate = C04's fixed point"]
UNITS = [OpenDetect("list"), OpenDetect("explicit")] + \
        [Mutate(out, bak, "normal", False, k) for k in ("sm", "ssc") for out in ("input", "other") for bak in (False, True)]


def _decodes(raw, e):
    try:
        raw.decode(e)
        return True
    except UnicodeError:
        return False


def witness_search(tier, seed):
    import os, tempfile, shutil, simfile, itertools
    d = tempfile.mkdtemp(prefix="pyvc-c05-")
    try:
        samples = [("utf-8", "#TITLE:日本;#ARTIST:x;"), ("cp1252", "#TITLE:caf\xe9;"), ("cp932", "#TITLE:テスト;"), ("utf-8", "#VERSION:0.83;#TITLE:a;#NOTEDATA:;#NOTES:0000;")]
        orders = [None, ["cp932", "utf-8"], ["cp1252"], ["cp949", "cp1252", "utf-8"]]
        for (enc, text), encs in itertools.product(samples, orders):
            if not any(_decodes(text.encode(enc), e) for e in (encs or ["utf-8", "cp1252", "cp932", "cp949"])):
                continue      # nothing in the list decodes the sample: the error clause, not this one
            for out, bak in ((None, None), ("out.sm", None), (None, "bak.sm"), ("out.sm", "bak.sm")):
                for f in os.listdir(d):
                    os.remove(os.path.join(d, f))
                ext = ".ssc" if "VERSION" in text else ".sm"
                p = os.path.join(d, "in" + ext)
                raw = text.encode(enc)
                open(p, "wb").write(raw)
                other = os.path.join(d, "other.txt")
                open(other, "wb").write(b"keep")
                ekw = {"try_encodings": encs} if encs else {}
                first = next(e for e in (encs or ["utf-8", "cp1252", "cp932", "cp949"]) if _decodes(raw, e))
                sf0, enc0 = simfile.open_with_detected_encoding(p, **ekw)
                if enc0 != first:
                    return dict(input=dict(text=text, encoding=enc, try_encodings=encs), detail=f"detected {enc0}, the first listed encoding that decodes the file is {first}")
                kw = dict(ekw)
                if out:
                    kw["output_filename"] = os.path.join(d, out)
                if bak:
                    kw["backup_filename"] = os.path.join(d, bak)
                with simfile.mutate(p, **kw) as sf:
                    if str(sf) != str(sf0):
                        return dict(input=dict(text=text, encoding=enc, try_encodings=encs, out=out, backup=bak),
                                    detail="mutate yielded a simfile other than the file decoded in the first listed encoding that decodes it")
                    sf.title = (sf.title or "") + "!"
                    edited = str(sf)
                outp = kw.get("output_filename", p)
                got = open(outp, "rb").read().decode(enc0)
                if got.replace("\r\n", "\n") != edited:
                    return dict(input=dict(text=text, encoding=enc, try_encodings=encs, out=out, backup=bak), detail="output file is not the edited simfile in the detected encoding")
                if bak and open(kw["backup_filename"], "rb").read().decode(enc0).replace("\r\n", "\n") != str(sf0):
                    return dict(input=dict(text=text, encoding=enc, try_encodings=encs, out=out, backup=bak), detail="backup is not the original simfile")
                if out and open(p, "rb").read() != raw:
                    return dict(input=dict(text=text, encoding=enc, try_encodings=encs, out=out, backup=bak), detail="input modified although an output name was given")
                if open(other, "rb").read() != b"keep" or set(os.listdir(d)) != {"in" + ext, "other.txt"} | ({out} if out else set()) | ({bak} if bak else set()):
                    return dict(input=dict(text=text, encoding=enc, try_encodings=encs, out=out, backup=bak), detail="another file was created or changed")
        # edits below the top level: the backup still holds the simfile as it stood at block entry
        for f in os.listdir(d):
            os.remove(os.path.join(d, f))
        for ext, text in ((".sm", "#TITLE:a;#NOTES:dance-single:d:Easy:1:0,0,0,0,0:0000;"), (".ssc", "#VERSION:0.83;#TITLE:a;#NOTEDATA:;#STEPSTYPE:x;#DESCRIPTION:d;#NOTES:0000;")):
            p = os.path.join(d, "in" + ext)
            open(p, "wb").write(text.encode("utf-8"))
            sf0 = simfile.open(p)
            with simfile.mutate(p, backup_filename=os.path.join(d, "bak" + ext)) as sfm:
                sfm.charts[0].description = "edited"
                sfm.charts.append(sfm.charts[0])
            bak = simfile.open(os.path.join(d, "bak" + ext))
            if list(bak.items()) != list(sf0.items()) or [list(c.items()) for c in bak.charts] != [list(c.items()) for c in sf0.charts]:
                return dict(input=dict(text=text, edit="chart description edited and a chart appended inside the block", backup=True),
                            detail=f"the backup has {len(bak.charts)} chart(s), description {bak.charts[0].description!r}; at block entry: 1 chart, {sf0.charts[0].description!r}")
        # a large file in a later encoding of the list: an earlier encoding decodes its first chunks (to text the parser would
        # reject) and fails only further on - the whole file must be decoded before anything is parsed
        for f in os.listdir(d):
            os.remove(os.path.join(d, f))
        big = ("#TITLE:x;\n#NOTES:dance-single:\u30a6\u30bd:Easy:1:0,0,0,0,0:\n0000\n0000\n0000\n0000\n;\n"
               "#NOTES:dance-single:long:Hard:9:0,0,0,0,0:\n" + "0000\n" * 9000 + ";\n#SUBTITLE:\u3000;\n")
        p = os.path.join(d, "big.sm")
        open(p, "wb").write(big.encode("cp932"))
        try:
            sfb, encb = simfile.open_with_detected_encoding(p)
            if encb != "cp932" or sfb.charts[0].description != "\u30a6\u30bd":
                return dict(input="a 12 KB cp932 .sm file whose chart description ends in a 0x5C trail byte", detail=f"detected {encb}, description {sfb.charts[0].description!r}")
            with simfile.mutate(p) as sfm:
                sfm.subtitle = "edited"
            if open(p, "rb").read().decode("cp932").replace("\r\n", "\n") != str(sfm):
                return dict(input="the same file through mutate", detail="output is not the edited simfile in cp932")
        except Exception as e:
            return dict(input="a 12 KB cp932 .sm file whose chart description ends in a 0x5C trail byte (cp1252 decodes the first 8 KB)",
                        detail=f"raised {type(e).__name__}: {e} - cp932 is the first listed encoding under which the whole file decodes")
        # the same on an in-memory PyFilesystem: everything happens inside the filesystem that was passed, nothing on disk
        from fs.memoryfs import MemoryFS
        for out, bak in ((None, None), ("out.sm", None), (None, "bak.sm"), ("out.sm", "bak.sm")):
            mem = MemoryFS()
            mem.writebytes("in.sm", "#TITLE:caf\xe9;#ARTIST:x;".encode("cp1252"))
            mem.writebytes("other.txt", b"keep")
            cwd_before = set(os.listdir("."))
            kw = {"filesystem": mem}
            if out:
                kw["output_filename"] = out
            if bak:
                kw["backup_filename"] = bak
            try:
                with simfile.mutate("in.sm", **kw) as sf:
                    before = str(sf)
                    sf.title = "edited"
                    edited = str(sf)
            except Exception as e:
                return dict(input=dict(filesystem="MemoryFS", out=out, backup=bak), detail=f"mutate raised {type(e).__name__}: {e}")
            names = set(mem.listdir("/"))
            want = {"in.sm", "other.txt"} | ({out} if out else set()) | ({bak} if bak else set())
            stray = set(os.listdir(".")) - cwd_before
            for nm in stray:
                os.remove(nm)
            if names != want or stray:
                return dict(input=dict(filesystem="MemoryFS", out=out, backup=bak),
                            detail=f"files in the filesystem passed: {sorted(names)}, expected {sorted(want)}; new files on disk: {sorted(stray)}")
            if mem.readbytes(out or "in.sm").decode("cp1252").replace("\r\n", "\n") != edited or (bak and mem.readbytes(bak).decode("cp1252").replace("\r\n", "\n") != before):
                return dict(input=dict(filesystem="MemoryFS", out=out, backup=bak), detail="output / backup inside the filesystem passed do not hold the edited / original simfile")
        # a backup name equal to the input or output name is refused before anything is written
        for out, bak in ((None, "in.sm"), ("out.sm", "out.sm"), ("out.sm", "in.sm")):
            for f in os.listdir(d):
                os.remove(os.path.join(d, f))
            p = os.path.join(d, "in.sm")
            open(p, "wb").write(b"#TITLE:a;")
            kw = {"backup_filename": os.path.join(d, bak)}
            if out:
                kw["output_filename"] = os.path.join(d, out)
            try:
                with simfile.mutate(p, **kw) as sf:
                    sf.title = "b"
                return dict(input=dict(out=out, backup=bak), detail="clashing backup name was not refused")
            except ValueError:
                if open(p, "rb").read() != b"#TITLE:a;" or os.listdir(d) != ["in.sm"]:
                    return dict(input=dict(out=out, backup=bak), detail="something was written before the clash was refused")
        return None
    finally:
        shutil.rmtree(d, ignore_errors=True)

# tables the statement pins down by value (props/constants_common.py)
from props.constants_common import ClosedConstants   # noqa: E402
UNITS = list(UNITS) + [ClosedConstants('default-encodings')]


# supplier units (see props/suppliers.py): mutate and open rely on the loaders and on the serializers by their contracts
from props import suppliers as _S   # noqa: E402
UNITS = _S.extend(UNITS, _S.loaders(), _S.serializers())
