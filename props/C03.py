"""
C03 - loading builds exactly the documented object, through every entry point.

Every entry point gets the same postcondition: the result is
BUILD_fmt(msd_params(content handed over, ignore_stray_text = not strict)) with
fmt decided by the statement's rule, hence equal results through every entry
point; the documented per-parameter rules are the loop invariants of the two
_parse methods (units shared with C01/C02).
"""
from __future__ import annotations

import io
import z3

from pyvc.prop import Unit
from pyvc.values import strval, SV, STR, OSTR, INT, BOOL, TSeq, term, is_sym, fresh, fresh_term, S_at
from pyvc import omap as O, models as M, stdmodels as SM, simobj as SO, msd as MSD, fsys as FS
from pyvc.execu import HObj, NTVal, PyRaise
from contracts import simfile_spec as SP
from props.ser_common import (SMParse, SSCParse, SMChartFromMsd, SSCChartParse, classes, SSCF, ssc_chart_v, model_params)

LEVEL = "proof"
TRUSTED = [
    "T-MSD-3: msdparser.parse_msd is the trusted tokenizer the rules are applied to (lazy parameter sequence; file= equals string= on the remaining content; "
    "ignore_stray_text=True never raises; after the first next() on a file its position is unspecified)",
    "T-FS/T-CODEC ghost file system for open()",
    "T-OD ordered-map theory; charts as values",
    "S4/S5: str.lower/upper uninterpreted with CPython constant instances; str.rpartition / endswith per the language reference",
    "T-STD: ''.join(lines) is the text; itertools.tee; isinstance(x, typing.TextIO) is False for every real stream (closed fact evaluated on the working tree's interpreter)",
    "pyvc VC generator; z3/cvc5",
]
ASSUMPTIONS = ["texts ending in an unpaired backslash are excluded (msdparser fails an internal assertion: known finding of the dependency)",
               "when both a short NOTES parameter and stray text are present, which of ValueError / MSDParserError is raised is decided by their order in the text (not specified here)"]

Q = "simfile."


def build(kind, ps):
    """(mapping, charts) the documented rules give for the parameter list ps"""
    n = z3.Length(ps)
    if kind == "sm":
        return SP.SMF_map()(ps, n), SP.SMF_charts()(ps, n)
    fm, fc, fp, OT = SSCF()
    last = fp(ps, n)
    return fm(ps, n), z3.If(OT.is_none(last), fc(ps, n), z3.Concat(fc(ps, n), z3.Unit(ssc_chart_v(OT.val(last)))))


SHORT = z3.Function("sm_short_notes_param", MSD.PARAMS, z3.BoolSort())
"""some NOTES parameter of the list has fewer than six value components (proved to be the only ValueError of SMSimfile._parse)"""


def parse_contract(kind):
    """callee contract of SMSimfile._parse / SSCSimfile._parse (proved in units SMSimfile._parse / SSCSimfile._parse)"""
    import msdparser

    def c_(ex, args, kwargs):
        self, it = args[0], args[1]
        ex.assumptions_used.add(f"callee contract {kind.upper()}Simfile._parse: (properties, charts) := documented rules over the parameters, or the parser's error / ValueError")
        ex.ghost.setdefault("parse_calls", []).append((kind, it.text, it.ignore, it.taken))
        if it.file is not None and MSD._decide_decodable(ex, it.file):
            # the parser was handed a file that does not decode: it reads in chunks, so whatever the decodable prefix holds is
            # interpreted first - the UnicodeDecodeError may be pre-empted by the errors of that prefix
            outs = ["undecodable", "stray-text-in-the-decodable-prefix"] + (["short-NOTES-in-the-decodable-prefix"] if kind == "sm" else [])
            j = ex.choose([(o, z3.BoolVal(True)) for o in outs])
            if j == 0:
                ex.raise_(UnicodeDecodeError, "codec can't decode byte", tag="undecodable")
            if j == 1:
                if not ex.branch(it.ignore, "lenient"):
                    ex.raise_(msdparser.MSDParserError, "stray text", tag="garbage-stray")
                ex.raise_(UnicodeDecodeError, "codec can't decode byte", tag="undecodable")
            ex.raise_(ValueError, "expected at least 6 chart components", tag="garbage-short")
        ps = it.params()
        ex.assume(z3.Implies(it.ignore, z3.Not(MSD.msd_error(it.text, it.ignore))))
        alts = [("ok", z3.And(z3.Not(MSD.msd_error(it.text, it.ignore)), z3.Not(SHORT(ps)) if kind == "sm" else z3.BoolVal(True))),
                ("stray", MSD.msd_error(it.text, it.ignore))]
        if kind == "sm":
            alts.append(("short", SHORT(ps)))
        i = ex.choose(alts)
        if it.file is not None:
            MSD._consume(ex, it, all_=True)
        if alts[i][0] == "stray":
            ex.raise_(msdparser.MSDParserError, "stray text", tag="stray-text")
        if alts[i][0] == "short":
            ex.raise_(ValueError, "expected at least 6 chart components", tag="short-notes")
        mp, ch = build(kind, ps)
        scls, lcls, ccls = classes(kind)
        ex.setfield(self, "__map__", SV(mp, O.T_OMAP))
        ex.setfield(self, "_charts", SM.new_userlist(lcls, SV(ch, TSeq(SO.TChart(ccls))), "charts"))
        return None
    return c_


def install_parse_contracts(ex):
    ex.callee_contracts["simfile.sm.SMSimfile._parse"] = parse_contract("sm")
    ex.callee_contracts["simfile.ssc.SSCSimfile._parse"] = parse_contract("ssc")
    ex.callee_contracts["simfile._private.nativeosfs.NativeOSFS.open"] = FS.native_open_contract


def fmt_is_ssc(name_t, ps):
    """the statement's rule: .ssc -> SSC, .sm -> SM (any letter case), otherwise SSC iff the first key is VERSION in any case"""
    by_content = z3.And(z3.Length(ps) > 0, M.str_upper(S_at(MSD.P_at(ps, 0), 0)) == strval("VERSION"))
    if name_t is None:
        return by_content
    low = M.str_lower(name_t)
    return z3.If(z3.SuffixOf(strval(".ssc"), low), z3.BoolVal(True), z3.If(z3.SuffixOf(strval(".sm"), low), z3.BoolVal(False), by_content))


FILE_KINDS = ["StringIO", "TextIOWrapper", "lines"]


def make_file(ex, kind):
    """-> (file value, text handed over, name term or None)"""
    content = ex.sym(STR, "content")
    if kind == "lines":
        return MSD.LinesIter(content.t), content.t, None
    pos = ex.sym(INT, "position")
    ex.assume(z3.And(pos.t >= 0, pos.t <= z3.Length(content.t)))
    if kind == "StringIO":
        f = MSD.new_stringio(None, content, "file")
        f.fields["pos"] = pos
        return f, z3.SubString(content.t, pos.t, z3.Length(content.t)), None
    name = ex.sym(STR, "name")
    f = HObj(io.TextIOWrapper, {"content": content, "pos": pos, "name": name, "mode": "r", "closed": False}, "file")
    return f, z3.SubString(content.t, pos.t, z3.Length(content.t)), name.t


def check_result(ex, r, kind_is_ssc, ps, label="post"):
    sm, ssc = classes("sm")[0], classes("ssc")[0]
    is_ssc = ex.branch(kind_is_ssc, "spec:ssc")
    kind = "ssc" if is_ssc else "sm"
    ok_type = isinstance(r, HObj) and r.cls is (ssc if is_ssc else sm)
    ex.prove(f"{label}:format", z3.BoolVal(bool(ok_type)), f"result is {getattr(r, 'cls', type(r)).__name__}; the statement's rule says {'SSC' if is_ssc else 'SM'}")
    if not ok_type:
        return
    mp, ch = build(kind, ps)
    ex.prove(f"{label}:properties", O.map_of(r) == mp, "properties are the documented rules applied to the content handed over")
    ex.prove_eq(f"{label}:charts", SO.charts_term(r, classes(kind)[2]), ch)


def check_raise(ex, e, strict_t, text, ps_short=None):
    import msdparser
    if e.cls is msdparser.MSDParserError:
        ex.prove("raises:parser-error-only-if-strict-and-stray-text", z3.And(strict_t, MSD.msd_error(text, z3.Not(strict_t))),
                 "with strict parsing off no text is ever rejected for stray text")
    elif e.cls is ValueError and e.tag == "short-notes":
        ex.prove("raises:ValueError-only-for-short-NOTES", z3.BoolVal(True))
    else:
        ex.prove("raises:only-documented-errors", False, f"raised {e!r}")


class Init(Unit):
    """BaseSimfile.__init__ (string= / file=) for both classes"""

    def __init__(self, kind, src):
        self.kind, self.src = kind, src
        self.name = f"{kind.upper()}Simfile.__init__[{src}]"
        self.functions = ("simfile.base.BaseSimfile.__init__",)
        self.expected = ["post:properties", "call-pre:parse_msd"]

    def run(self, ex):
        scls, lcls, ccls = classes(self.kind)
        install_parse_contracts(ex)
        strict = ex.sym(BOOL, "strict")
        kw = {"strict": strict}
        if self.src == "string":
            s = ex.sym(STR, "string")
            kw["string"] = s
            text = s.t
        else:
            f, text, _ = make_file(ex, self.src)
            kw["file"] = f
        obj = HObj(scls, {}, "self")
        O._method(ex, obj, "__init__", [], {})
        kind, r = ex.run_function(ex.closure_of("simfile.base.BaseSimfile.__init__", owner=scls), [obj], kw)
        ign = z3.Not(strict.t)
        ps = MSD.msd_params(text, ign)
        calls = ex.ghost.get("parse_calls", [])
        ok = len(calls) == 1
        ex.prove("call-pre:parse_msd",
                 z3.And(z3.BoolVal(ok), calls[0][1] == text, calls[0][2] == ign, z3.BoolVal(calls[0][3] == 0)) if ok else z3.BoolVal(False),
                 "the tokenizer is called once, on the content handed over, with ignore_stray_text == not strict")
        if kind == "raise":
            check_raise(ex, r, strict.t, text)
            return
        mp, ch = build(self.kind, ps)
        ex.prove("post:properties", O.map_of(obj) == mp)
        ex.prove_eq("post:charts", SO.charts_term(obj, ccls), ch)


class DetectAndLoad(Unit):
    """load(file, strict) (with _detect_ssc inlined) for each kind of stream"""

    def __init__(self, fkind, entry="load"):
        self.fkind, self.entry = fkind, entry
        self.name = f"{entry}[{fkind}]"
        self.functions = ("simfile.load", "simfile._detect_ssc", "simfile.base.BaseSimfile.__init__") + (("simfile.loads",) if entry == "loads" else ())
        self.expected = ["post:format", "post:properties"]

    def run(self, ex):
        install_parse_contracts(ex)
        strict = ex.sym(BOOL, "strict")
        if self.entry == "loads":
            s = ex.sym(STR, "string")
            text, name = s.t, None
            kind, r = ex.run_function(ex.closure_of("simfile.loads"), [s], {"strict": strict})
        else:
            f, text, name = make_file(ex, self.fkind)
            kind, r = ex.run_function(ex.closure_of("simfile.load"), [f], {"strict": strict})
        ign = z3.Not(strict.t)
        ps = MSD.msd_params(text, ign)
        ex.declare_input("params", lambda m: model_params(m, ps))
        if kind == "raise":
            check_raise(ex, r, strict.t, text)
            return
        # the parse that built the result must have seen exactly the content handed over, with the caller's flag
        calls = ex.ghost.get("parse_calls", [])
        ok = len(calls) == 1
        ex.prove("call-pre:parse_msd",
                 z3.And(calls[0][1] == text, calls[0][2] == ign) if ok else z3.BoolVal(False),
                 "the result is built from the content at the position the caller handed over, with ignore_stray_text == not strict")
        check_result(ex, r, fmt_is_ssc(name, ps), ps)

    def replay(self, model, ob):
        return replay_load(model, self.fkind, self.entry)


def replay_load(model, fkind, entry):
    import simfile, tempfile, os
    from contracts import oracles as OR
    content = model.get("content") if entry not in ("loads", "ctor-string") else model.get("string")
    strict = model.get("strict", True)
    name = model.get("name")
    params = [list(p) for p in (model.get("params") or []) if p]
    if params and all(isinstance(c, str) for p in params for c in p):
        content = OR.msd_text(params)
    if not isinstance(content, str):
        content = "#VERSION:0.83;\n#TITLE:a;\n"
    tries = [(content, strict)] + [("stray\n" + content, False)]
    for text, st in tries:
        exp_ssc = None
        try:
            if fkind == "TextIOWrapper" and entry in ("load", "open", "open_with_detected_encoding"):
                d = tempfile.mkdtemp(prefix="pyvc-replay-")
                nm = name if isinstance(name, str) and name and "/" not in name and "\x00" not in name else "chart.txt"
                p = os.path.join(d, nm)
                try:
                    with open(p, "w", encoding="utf-8") as fh:
                        fh.write(text)
                    if entry == "load":
                        with open(p, "r", encoding="utf-8") as fh:
                            got = simfile.load(fh, strict=st)
                    elif entry == "open":
                        got = simfile.open(p, strict=st)
                    else:
                        got = simfile.open_with_detected_encoding(p, strict=st)[0]
                finally:
                    import shutil
                    shutil.rmtree(d, ignore_errors=True)
                low = nm.lower()
                exp_ssc = True if low.endswith(".ssc") else False if low.endswith(".sm") else None
            elif entry in ("ctor-string", "ctor-file"):
                from msdparser import parse_msd as _pm
                try:
                    first = next(iter(_pm(string=text, ignore_stray_text=not st)), None)
                except Exception:
                    first = None
                cls = simfile.SSCSimfile if first is not None and first.key.upper() == "VERSION" else simfile.SMSimfile
                exp_ssc = cls is simfile.SSCSimfile
                got = cls(string=text, strict=st) if entry == "ctor-string" else cls(file=io.StringIO(text), strict=st)
                got.charts, list(got.items())       # the object must be usable
            elif entry == "loads":
                got = simfile.loads(text, strict=st)
            elif fkind == "lines":
                got = simfile.load(iter(text.splitlines(keepends=True)), strict=st)
            else:
                got = simfile.load(io.StringIO(text), strict=st)
        except Exception as e:
            got = e
        from msdparser import parse_msd
        try:
            ps = [list(p.components) for p in parse_msd(string=text, ignore_stray_text=not st)]
            err = None
        except Exception as e:
            ps, err = None, e
        if err is not None:
            if not isinstance(got, type(err)):
                return dict(reproduced=True, input=dict(text=text, strict=st, name=name), detail=f"tokenizer rejects the text ({err!r}) but the loader gave {got!r}")
            continue
        if isinstance(got, Exception):
            if isinstance(got, ValueError) and any(p[0].upper() == "NOTES" and len(p) < 7 for p in ps):
                continue
            return dict(reproduced=True, input=dict(text=text, strict=st, name=name), detail=f"the loader raised {got!r} on a text the tokenizer accepts")
        if exp_ssc is None:
            exp_ssc = bool(ps) and ps[0][0].upper() == "VERSION"
        try:
            exp = OR.load_ssc(ps) if exp_ssc else OR.load_sm(ps)
        except ValueError as ve:
            # the documented rules refuse this text in the format its name prescribes; the loader accepted it
            return dict(reproduced=True, input=dict(text=text, strict=st, name=name),
                        detail=f"loaded as {type(got).__name__} although the {'SSC' if exp_ssc else 'SM'} rules refuse the text ({ve})")
        from collections import OrderedDict
        gotv = (OrderedDict(got.items()), [OrderedDict(c.items()) for c in got.charts] if exp_ssc else [(OrderedDict(c.items()), c.extradata) for c in got.charts])
        if type(got).__name__ != ("SSCSimfile" if exp_ssc else "SMSimfile") or gotv != exp:
            return dict(reproduced=True, input=dict(text=text, strict=st, name=name),
                        detail=f"loaded {type(got).__name__} {gotv!r}; the documented rules give {'SSC' if exp_ssc else 'SM'} {exp!r}")
    return dict(reproduced=False, detail="the real loader follows the rules on the replayed inputs")


class OpenFile(Unit):
    """open / open_with_detected_encoding: the default encoding list, loading part"""

    def __init__(self, entry):
        self.entry = entry
        self.name = f"{entry}[default encodings]"
        self.functions = (Q + entry, Q + "open_with_detected_encoding", "simfile.load", "simfile._detect_ssc")
        self.expected = ["post:format", "post:properties", "post:first-decodable-encoding"]

    def run(self, ex):
        import simfile
        install_parse_contracts(ex)
        strict = ex.sym(BOOL, "strict")
        name = ex.sym(STR, "filename")
        fs = FS.new_fs(ex)
        fs0 = FS.fs_of(ex)
        cell = z3.Select(fs0, name.t)
        b = FS.OptBytes.bytes(cell)
        from props.constants_common import STATED_ENCODINGS
        encs = list(STATED_ENCODINGS)       # the statement's list, not the module's
        fn = ex.closure_of(Q + self.entry)
        kind, r = ex.run_function(fn, [name], {"strict": strict, "filesystem": fs})
        ign = z3.Not(strict.t)
        dec = [FS.decodable(strval(e), b) for e in encs]
        first = [z3.And(dec[i], *[z3.Not(d) for d in dec[:i]]) for i in range(len(encs))]
        if kind == "raise":
            if r.cls is FileNotFoundError:
                ex.prove("raises:FileNotFoundError-iff-missing", z3.Not(FS.OptBytes.is_data(cell)))
            elif r.cls is UnicodeDecodeError:
                ex.prove("raises:UnicodeDecodeError-iff-none-decodes", z3.And(FS.OptBytes.is_data(cell), *[z3.Not(d) for d in dec]))
            else:
                i = ex.choose([(e, f_) for e, f_ in zip(encs, first)])
                check_raise(ex, r, strict.t, FS.textread(strval(encs[i]), b))
            ex.prove("post:filesystem-untouched", FS.fs_of(ex) == fs0)
            return
        i = ex.choose([(e, f_) for e, f_ in zip(encs, first)] + [("none", z3.And(*[z3.Not(d) for d in dec]))])
        if i == len(encs):
            ex.prove("post:first-decodable-encoding", False, "returned although no tried encoding decodes the file")
            return
        text = FS.textread(strval(encs[i]), b)
        ps = MSD.msd_params(text, ign)
        if self.entry == "open_with_detected_encoding":
            sf, enc = r
            ex.prove("post:first-decodable-encoding", ex._z(ex.eq(enc, encs[i])), "the reported encoding is the first of the list under which the whole file decodes")
        else:
            sf = r
            ex.prove("post:first-decodable-encoding", z3.BoolVal(True))
        check_result(ex, sf, fmt_is_ssc(name.t, ps), ps)
        ex.prove("post:filesystem-untouched", FS.fs_of(ex) == fs0)


UNITS = ([SMParse(), SSCParse()] + [SMChartFromMsd(e) for e in ("from_msd", "from_str", "_parse")] + [SSCChartParse("from_str")] +
         [Init(k, s) for k in ("sm", "ssc") for s in ("string", "StringIO", "TextIOWrapper", "lines")] +
         [DetectAndLoad(k) for k in FILE_KINDS] + [DetectAndLoad("string", "loads")] +
         [OpenFile("open"), OpenFile("open_with_detected_encoding")])


def witness_search(tier, seed):
    import itertools
    texts = ["#VERSION:0.83;\n#TITLE:a;\n#NOTEDATA:;\n#STEPSTYPE:x;\n#NOTES:0000;\n#CREDIT:late;\n",
             "#TITLE:a;#title:b;#Attacks:x:y;#ARTIST;\n#NOTES:a:b:c:d:e:f:g;\n#SUBTITLE:s;",
             "#version:1;#TITLE:t;", "", "#TITLE:a;\n#NOTES:a:b;",
             "#VERSION:0.83;#DISPLAYBPM:1:2;#NOTEDATA:;#DISPLAYBPM:90:180;#ATTACKS:a:b:c;#attacks;#NOTES:0000;#NOTEDATA:;#ATTACKS:x:y;",
             # multi-value properties whose first component is empty (a falsy value that is not "no value")
             "#DISPLAYBPM::180;#ATTACKS::TIME=1.5:LEN=2:MODS=drunk;#TITLE::t;",
             "#VERSION:0.83;#ATTACKS::;#NOTEDATA:;#DISPLAYBPM::90;#ATTACKS::a;#NOTES:0000;",
             # SM charts with extra components: the six fields are trimmed, the extra components are kept as they are
             "#TITLE:a;\n#NOTES: dance-single : d :Easy:1:0,0:\n0000\n: first extra \n: second\textra\t:;\n",
             # the first parameter far down the text (comments and blank lines before it), and a long file: nothing about
             # the rules depends on where in the text a parameter stands
             "// header\n" * 70 + "\n" * 30 + "#VERSION:0.83;\n#TITLE:far;\n#NOTEDATA:;\n#STEPSTYPE:x;\n#NOTES:0000;\n",
             "\n" * 300 + "#version:0.83;#TITLE:t;",
             "// c\n" * 100 + "#TITLE:sm;\n#NOTES:a:b:c:d:e:f;\n" + "#KEY%d:v;\n" * 3 % (1, 2, 3) + "#NOTES:a:b:c:d:e:f;\n" * 40]
    for text, stray, strict in itertools.product(texts, ("", "junk\n"), (True, False)):
        for fk, en, nm in (("StringIO", "load", None), ("lines", "load", None), ("string", "loads", None),
                           ("string", "ctor-string", None), ("StringIO", "ctor-file", None),
                           ("TextIOWrapper", "load", "a.txt"), ("TextIOWrapper", "load", "b.SM"), ("TextIOWrapper", "load", "c.ssc"),
                           ("TextIOWrapper", "load", "d.sm.bak"), ("TextIOWrapper", "load", "ssc"),
                           ("TextIOWrapper", "open", "e.SM"), ("TextIOWrapper", "open", "f.Ssc"), ("TextIOWrapper", "open_with_detected_encoding", "g.SSC"),
                           ("TextIOWrapper", "open", "h.txt")):
            r = replay_load(dict(content=stray + text, string=stray + text, strict=strict, name=nm), fk, en)
            if r.get("reproduced"):
                r["entry"] = [fk, en, nm]
                return r
    # a file with CR LF line breaks: the filename entry points and a file object the caller opened read the same simfile
    import tempfile, shutil, os, simfile
    d = tempfile.mkdtemp(prefix="pyvc-c03-")
    try:
        for nm, text in (("crlf.sm", "#TITLE:a;\r\n#BGCHANGES:1=x\r\n,2=y;\r\n#NOTES:dance-single:d:Easy:1:0,0,0,0,0:\r\n0000\r\n0000\r\n;\r\n"),
                         ("crlf.ssc", "#VERSION:0.83;\r\n#BGCHANGES:1=x\r\n,2=y;\r\n#NOTEDATA:;\r\n#CREDIT:two\r\nlines;\r\n#NOTES:0000\r\n0000\r\n;\r\n")):
            p = os.path.join(d, nm)
            with open(p, "wb") as fh:
                fh.write(text.encode("utf-8"))
            with io.open(p, encoding="utf-8") as fh:
                ref = simfile.load(fh)
            for en, got in (("open", simfile.open(p)), ("open_with_detected_encoding", simfile.open_with_detected_encoding(p)[0])):
                if type(got) is not type(ref) or list(got.items()) != list(ref.items()) or [list(c.items()) for c in got.charts] != [list(c.items()) for c in ref.charts]:
                    diff = [k for k in ref if got.get(k) != ref.get(k)]
                    return dict(reproduced=True, input=dict(file=nm, bytes=text), entry=[en],
                                detail=f"simfile.{en}(filename) differs from simfile.load(open(filename)) on a CR LF file (keys {diff}, e.g. {got.get(diff[0])!r} vs {ref.get(diff[0])!r})" if diff else "charts differ")
    finally:
        shutil.rmtree(d, ignore_errors=True)
    return None

from pyvc.xcheck import MsdTextProbe, StringAxiomProbe   # noqa: E402
THOROUGH_BOUNDED = [MsdTextProbe(), StringAxiomProbe()]

# tables the statement pins down by value (props/constants_common.py)
from props.constants_common import ClosedConstants   # noqa: E402
UNITS = list(UNITS) + [ClosedConstants('default-encodings', 'multi-value-properties')]
