"""
C08 - notes written to note data read back identically, in canonical form.

NoteData.from_notes (three nested itertools.groupby loops, a reduce over gcd, closures
writing to a StringIO) was not brought under loop invariants; it is covered by a bounded
stand-in against the statement.  The arithmetic the statement rests on is proved.
"""
from __future__ import annotations

import z3

from pyvc.prop import Unit, Bounded
from pyvc.values import INT, FRAC, fresh_term

LEVEL = "other"
TRUSTED = ["math.gcd / functools.reduce compute the least common multiple of the denominators (T-STD)", "pyvc VC generator; z3/cvc5"]
ASSUMPTIONS = ["NoteData.from_notes itself is checked only by the bounded stand-in (never counted as proved)"]
EXPLANATION = ("Proved (SMT): the arithmetic lemmas behind the canonical form - a beat whose denominator divides q lands on the integer row (beat mod 4) x q of a "
               "measure with 4q rows, that row decodes back to exactly the same beat, rows of different beats differ, and a measure index / row pair determines the beat. "
               "Bounded (never counted as proved): NoteData.from_notes against the statement (decode(encode(notes)) == notes, column count, 4 x lcm rows per measure, "
               "blank skipped measures and players, canonical stability, one blank measure for the empty stream) on exhaustive small streams and generated larger ones.")


class RowArithmetic(Unit):
    name = "lemma:ROW-ARITHMETIC"
    functions = ()
    expected = ["lemma:row-is-an-integer", "lemma:row-decodes-to-the-same-beat", "lemma:row-in-range"]

    def run(self, ex):
        # beat = n / d (exact), q a multiple of d; measure m = floor(beat / 4); row r = (beat mod 4) * q
        n, d, k = ex.sym(INT, "n").t, ex.sym(INT, "d").t, ex.sym(INT, "k").t
        ex.assume(z3.And(n >= 0, d >= 1, k >= 1))
        q = d * k
        m = fresh_term(z3.IntSort(), "m")
        rem = fresh_term(z3.IntSort(), "rem")            # n = 4*d*m + rem, 0 <= rem < 4d  (beat = 4m + rem/d)
        ex.assume(z3.And(n == 4 * d * m + rem, rem >= 0, rem < 4 * d, m >= 0))
        # (beat mod 4) * q = (rem/d) * (d*k) = rem * k : hint "a product of two integers is an integer"
        r = rem * k
        beat = z3.ToReal(n) / z3.ToReal(d)
        ex.prove("lemma:row-is-an-integer", z3.ToReal(r) * z3.ToReal(d) == z3.ToReal(rem) * z3.ToReal(q), "(beat mod 4) x q is the integer rem x k")
        ex.prove("lemma:row-in-range", z3.And(r >= 0, r < 4 * q))
        rows = 4 * q
        # decoding (C07): beat' = (m*4*rows + r*4) / rows
        ex.prove("lemma:row-decodes-to-the-same-beat", z3.ToReal(m * 4 * rows + r * 4) * z3.ToReal(d) == z3.ToReal(n) * z3.ToReal(rows),
                 "Beat(m*4*rows + r*4, rows) is the original beat")


UNITS = [RowArithmetic()]


def N():
    import simfile.notes as n
    return n


def check_stream(notes, columns):
    from math import gcd
    from functools import reduce
    n = N()
    try:
        nd = n.NoteData.from_notes(notes, columns)
    except Exception as e:
        return f"from_notes raised {type(e).__name__}: {e}"
    text = str(nd)
    try:
        back = list(nd)
    except Exception as e:
        return f"decoding the result raised {type(e).__name__}: {e} (text {text!r})"
    if back != list(notes):
        return f"read back {back!r}"
    if nd.columns != columns:
        return f"columns = {nd.columns}, requested {columns}"
    players = text.split("&\n")
    if notes and len(players) != max(x.player for x in notes) + 1:
        return f"{len(players)} player sections for players up to {max(x.player for x in notes)}"
    if not notes and text != "0" * columns + "\n" + ("0" * columns + "\n") * 3:
        return f"empty stream gives {text!r}, expected one blank measure"
    for p, sec in enumerate(players):
        measures = sec.split(",\n")
        mine = [x for x in notes if x.player == p]
        last = max((int(x.beat // 4) for x in mine), default=0)
        if len(measures) != last + 1:
            return f"player {p}: {len(measures)} measures, last note is in measure {last}"
        for m, meas in enumerate(measures):
            rows = meas.splitlines()
            dens = [x.beat.denominator for x in mine if x.beat // 4 == m]
            q = reduce(lambda a, b: a * b // gcd(a, b), dens, 1)
            if len(rows) != 4 * q:
                return f"player {p} measure {m}: {len(rows)} rows, expected {4 * q}"
            if any(len(r_) != columns + sum(len(f"[{x.keysound_index}]") for x in mine if x.keysound_index is not None and False) and "[" not in r_ for r_ in rows):
                return f"player {p} measure {m}: a row is not {columns} wide"
    again = n.NoteData.from_notes(back, columns)
    if str(again) != text:
        return "re-encoding its own notes changes the text"
    # the notes handed over as a one-shot iterator (from_notes takes any Iterable[Note]) and straight from a decoder
    try:
        lazy = str(n.NoteData.from_notes(iter(list(notes)), columns)), str(n.NoteData.from_notes((x for x in nd), columns))
    except Exception as e:
        return f"from_notes on a one-shot iterator raised {type(e).__name__}: {e}"
    if lazy != (text, text):
        return f"from_notes gives {lazy[0]!r} / {lazy[1]!r} for a one-shot iterator over the notes and {text!r} for the list"
    return None


def gen_streams(tier, seed):
    import itertools, random
    from simfile.timing import Beat
    n = N()
    T = n.NoteType
    yield [], 4
    yield [], 1
    beats = [Beat(0), Beat(1, 2), Beat(1, 3), Beat(3), Beat(17, 4), Beat(9)]
    cells = [(b, c, p) for p in (0, 1) for b in beats for c in (0, 1)]
    for k in (1, 2):
        for combo in itertools.combinations(cells, k):
            notes = sorted((n.Note(b, c, T.TAP, p, None) for b, c, p in combo), key=lambda x: (x.player, x.beat, x.column))
            yield notes, 2
    rnd = random.Random(seed)
    dens = [1, 2, 3, 4, 5, 8, 48, 7]
    for _ in range(400 if tier == "quick" else 20000):
        cols = rnd.randint(1, 4) if rnd.random() < 0.85 else rnd.randint(5, 16)
        players = rnd.choice([[0], [0], [1], [0, 1], [0, 2], [0, 1, 2]])
        seen = set()
        notes = []
        for p in players:
            for _ in range(rnd.randint(0, 5)):
                d = rnd.choice(dens)
                b = Beat(rnd.randint(0, 12 * d), d)
                c = rnd.randrange(cols)
                if (p, b, c) in seen:
                    continue
                seen.add((p, b, c))
                notes.append(n.Note(b, c, rnd.choice(list(T)), p, rnd.choice([None, None, 0, 12])))
        notes.sort(key=lambda x: (x.player, x.beat, x.column))
        yield notes, cols


class FromNotes(Bounded):
    name = "from_notes-vs-statement"
    function = "simfile.notes.NoteData.from_notes"

    def bound(self, tier):
        return ("the empty stream; all 1- and 2-note streams over 2 players x 6 beats (denominators 1,2,3,4) x 2 columns; "
                + ("400" if tier == "quick" else "20000") + " generated sorted streams (<= 15 notes, <= 4 columns (15%: 5..16), players 0..2 with gaps, denominators 1,2,3,4,5,7,8,48, keysounds)")

    def run(self, tier, seed):
        import time
        t0 = time.time()
        cases, failures = 0, []
        for notes, cols in gen_streams(tier, seed):
            cases += 1
            bad = check_stream(notes, cols)
            if bad:
                failures.append(dict(input=dict(notes=[repr(x) for x in notes], columns=cols), detail=bad))
                if len(failures) >= 3:
                    break
        return dict(cases=cases, failures=failures, seconds=time.time() - t0)


BOUNDED = [FromNotes()]


def witness_search(tier, seed):
    r = FromNotes().run("quick", seed)
    return r["failures"][0] if r["failures"] else None


# supplier units (see props/suppliers.py): reading back goes through NoteData.__iter__ / _iter_measure
from props import suppliers as _S   # noqa: E402
UNITS = _S.extend(UNITS, _S.note_readers())
