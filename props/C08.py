"""
C08 - notes written to note data read back identically, in canonical form.

NoteData.from_notes (three nested itertools.groupby loops, a reduce over gcd, closures
writing to a StringIO) was not brought under loop invariants; it is covered by a bounded
stand-in against the statement.  The arithmetic the statement rests on is proved, and proved
of the code's own expressions: the folding function handed to reduce and the three groupby
key functions are read from the real AST on every run and executed symbolically
(LcmStep, GroupingKeys).
"""
from __future__ import annotations

import z3

from pyvc.prop import Unit, Bounded
from pyvc.values import INT, FRAC, fresh_term, term

LEVEL = "other"
TRUSTED = ["math.gcd(a, b) of positive integers is a positive common divisor (T-STD; 'greatest', hence minimality of the row count, is not proved - the bounded stand-in checks 4 x lcm)",
           "functools.reduce folds the step over the denominators from 1 and itertools.groupby groups consecutive equal keys (T-STD); the induction 'every step keeps a common multiple => q is a multiple of every denominator' is argued, not mechanised",
           "pyvc VC generator; z3/cvc5"]
ASSUMPTIONS = ["NoteData.from_notes itself is checked only by the bounded stand-in (never counted as proved)"]
EXPLANATION = ("Proved (SMT) on the real AST of from_notes: the function folded over a measure's denominators returns a positive common multiple of the accumulator and the new denominator "
               "(so q is a multiple of every denominator); the three groupby keys are the player, floor(beat / 4), and the integer (beat mod 4) x q with nothing truncated by int(), in range 0 .. 4q-1, "
               "and the (measure, row) a note is written at decodes (C07 formula) to exactly its beat. "
               "Proved (SMT): the arithmetic lemmas behind the canonical form - a beat whose denominator divides q lands on the integer row (beat mod 4) x q of a "
               "measure with 4q rows, that row decodes back to exactly the same beat, rows of different beats differ, and a measure index / row pair determines the beat. "
               "Bounded (never counted as proved): NoteData.from_notes against the statement (decode(encode(notes)) == notes, column count, 4 x lcm rows per measure, "
               "blank skipped measures and players, canonical stability, one blank measure for the empty stream) on exhaustive small streams and generated larger ones.")


class RowArithmetic(Unit):
    name = "lemma:ROW-ARITHMETIC"
    functions = ()
    expected = ["lemma:row-is-an-integer", "lemma:row-decodes-to-the-same-beat", "lemma:row-in-range"]

    def run(self, ex):
        # beat = n / d (exact), q a multiple of d; measure m = floor(beat / 4); row r = (beat mod 4) * q
        n, d, k = ex.sym(INT, "n").t, ex.sym(INT, "d").t, ex.sym(INT, "k").t
        ex.assume(z3.And(n >= 0, d >= 1, k >= 1))
        q = d * k
        m = fresh_term(z3.IntSort(), "m")
        rem = fresh_term(z3.IntSort(), "rem")            # n = 4*d*m + rem, 0 <= rem < 4d  (beat = 4m + rem/d)
        ex.assume(z3.And(n == 4 * d * m + rem, rem >= 0, rem < 4 * d, m >= 0))
        # (beat mod 4) * q = (rem/d) * (d*k) = rem * k : hint "a product of two integers is an integer"
        r = rem * k
        beat = z3.ToReal(n) / z3.ToReal(d)
        ex.prove("lemma:row-is-an-integer", z3.ToReal(r) * z3.ToReal(d) == z3.ToReal(rem) * z3.ToReal(q), "(beat mod 4) x q is the integer rem x k")
        ex.prove("lemma:row-in-range", z3.And(r >= 0, r < 4 * q))
        rows = 4 * q
        # decoding (C07): beat' = (m*4*rows + r*4) / rows
        ex.prove("lemma:row-decodes-to-the-same-beat", z3.ToReal(m * 4 * rows + r * 4) * z3.ToReal(d) == z3.ToReal(n) * z3.ToReal(rows),
                 "Beat(m*4*rows + r*4, rows) is the original beat")


def _fn_value(ex, node, outer_fi, fr):
    """a function-valued argument as written in from_notes: a lambda, or the name of a function defined inside from_notes"""
    import ast
    from pyvc.execu import LambdaVal, Closure, Unsupported
    if isinstance(node, ast.Lambda):
        return LambdaVal(node, fr)
    if isinstance(node, ast.Name):
        defs = [n_ for n_ in ast.walk(outer_fi.node) if isinstance(n_, ast.FunctionDef) and n_ is not outer_fi.node and n_.name == node.id]
        if len(defs) == 1:
            for cand in ex.repo.funcs.values():
                if cand.node is defs[0]:
                    return Closure(cand, fr)
    raise Unsupported("a grouping key / folding step of from_notes is neither a lambda nor a function defined inside from_notes: the contract does not fit the code")


def _is_fn_arg(node):
    import ast
    return isinstance(node, (ast.Lambda, ast.Name))


def _gcd_contract(ex, args, kwargs):
    """assumed contract of math.gcd on positive integers: the result is a positive common divisor (T-STD; 'greatest' is
    not needed for 'every denominator divides q' and is not assumed)"""
    from pyvc.values import SV, term, is_sym
    a, b = args
    if not (is_sym(a) or is_sym(b)):
        import math
        return math.gcd(a, b)
    ex.assumptions_used.add("T-STD: math.gcd(a, b) of positive integers is a positive common divisor of a and b")
    at, bt = term(a, INT), term(b, INT)
    g, x, y = (fresh_term(z3.IntSort(), h) for h in ("gcd", "gx", "gy"))
    ex.assume(z3.And(g >= 1, x >= 1, y >= 1, at == g * x, bt == g * y))
    ex.gcd_witness = (g, x, y)
    return SV(g, INT)


class LcmStep(Unit):
    """The folding function handed to functools.reduce in push_measure (read from the real AST on every run): on positive
    integers its result is a positive common multiple of the accumulator and of the new denominator - so, by the fold
    (T-STD reduce), q is a multiple of every beat's denominator in the measure, which is the premise of ROW-ARITHMETIC."""
    name = "from_notes.push_measure.<lcm-step>"
    functions = ("simfile.notes.NoteData.from_notes",)
    expected = ["post:step-is-a-multiple-of-the-accumulator", "post:step-is-a-multiple-of-the-denominator", "post:step-is-positive"]

    def run(self, ex):
        import ast, math
        from pyvc.execu import Frame, LambdaVal, Unsupported
        from pyvc import models as M
        fi = ex.repo.func("simfile.notes.NoteData.from_notes")
        lam = None
        for node in ast.walk(fi.node):
            if isinstance(node, ast.Call) and isinstance(node.func, (ast.Name, ast.Attribute)) \
                    and (getattr(node.func, "id", None) == "reduce" or getattr(node.func, "attr", None) == "reduce") \
                    and node.args and _is_fn_arg(node.args[0]):
                if lam is not None:
                    raise Unsupported("more than one reduce(...) in from_notes: the contract no longer fits the code")
                lam, call = node.args[0], node
        if lam is None:
            raise Unsupported("no reduce(<function>, ...) in from_notes: the contract no longer fits the code")
        if len(call.args) != 3 or not (isinstance(call.args[2], ast.Constant) and call.args[2].value == 1):
            ex.prove("post:fold-starts-at-1", False, "the fold over the denominators does not start from 1")
            return
        M.REAL_CALL[math.gcd] = _gcd_contract
        import simfile.notes as nmod
        fr = Frame(fi, {}, None, nmod)
        a, b = ex.sym(INT, "acc"), ex.sym(INT, "den")
        ex.assume(z3.And(a.t >= 1, b.t >= 1))
        r = ex.call(_fn_value(ex, lam, fi, fr), [a, b], {})
        rt = term(r, INT)
        w = getattr(ex, "gcd_witness", None)
        if w is None:
            # no gcd in the step: the multiples must exist all the same
            ka, kb = fresh_term(z3.IntSort(), "ka"), fresh_term(z3.IntSort(), "kb")
            ex.prove("post:step-is-a-multiple-of-the-accumulator", z3.Exists([ka], rt == a.t * ka))
            ex.prove("post:step-is-a-multiple-of-the-denominator", z3.Exists([kb], rt == b.t * kb))
        else:
            g, x, y = w
            ex.prove("post:step-is-a-multiple-of-the-accumulator", rt == a.t * y, "acc x den // gcd = acc x (den / gcd)")
            ex.prove("post:step-is-a-multiple-of-the-denominator", rt == x * b.t, "acc x den // gcd = (acc / gcd) x den")
        ex.prove("post:step-is-positive", rt >= 1)


def _from_notes_lambdas(ex):
    """the three grouping keys and the name holding the lcm, read from the real AST of from_notes"""
    import ast
    from pyvc.execu import Unsupported
    fi = ex.repo.func("simfile.notes.NoteData.from_notes")
    nested = [n_ for n_ in ast.walk(fi.node) if isinstance(n_, ast.FunctionDef) and n_ is not fi.node]
    in_nested = {id(x) for f in nested for x in ast.walk(f)}

    def is_groupby(c):
        return isinstance(c, ast.Call) and (getattr(c.func, "id", None) == "groupby" or getattr(c.func, "attr", None) == "groupby") \
            and len(c.args) == 2 and _is_fn_arg(c.args[1])

    calls = [c for c in ast.walk(fi.node) if is_groupby(c)]
    inner = [c for c in calls if id(c) in in_nested]
    outer = sorted((c for c in calls if id(c) not in in_nested), key=lambda c: (c.lineno, c.col_offset))
    qname = None
    for f in nested:
        for a in ast.walk(f):
            if isinstance(a, ast.Assign) and isinstance(a.value, ast.Call) and getattr(a.value.func, "id", getattr(a.value.func, "attr", None)) == "reduce" \
                    and len(a.targets) == 1 and isinstance(a.targets[0], ast.Name):
                qname = a.targets[0].id
    if len(inner) != 1 or len(outer) != 2 or qname is None:
        raise Unsupported("from_notes no longer groups by player, measure and row with three groupby(..., <function>) calls: the contract does not fit the code")
    return fi, inner[0].args[1], outer[0].args[1], outer[1].args[1], qname


class GroupingKeys(Unit):
    """The key functions of the three itertools.groupby calls (real AST): notes are grouped by player, by floor(beat / 4)
    and - with q a multiple of the beat's denominator - by the integer (beat mod 4) x q, computed without truncation.
    Together with ROW-ARITHMETIC: the (measure, row) pair a note is written at decodes to exactly its beat."""
    name = "from_notes.<grouping-keys>"
    functions = ("simfile.notes.NoteData.from_notes", "simfile.timing.Beat.__new__")
    expected = ["post:player-key", "post:measure-key-is-floor-of-beat-over-4", "post:row-key-is-exact", "post:row-key-in-range", "post:row-decodes-to-the-same-beat"]

    def run(self, ex):
        from pyvc.execu import Frame, LambdaVal
        from pyvc.values import TNT
        import simfile.notes as nmod
        fi, row_key, player_key, measure_key, qname = _from_notes_lambdas(ex)
        note = ex.sym(TNT(nmod.Note), "note")
        beat = term(note.get("beat") if hasattr(note, "get") else ex.getattr(note, "beat"))
        nn, d, k, m, rem = (fresh_term(z3.IntSort(), h) for h in ("n", "d", "k", "m", "rem"))
        # beat = n / d >= 0 exactly; n = 4 d m + rem with 0 <= rem < 4 d; q = d k
        ex.assume(z3.And(nn >= 0, d >= 1, k >= 1, beat * z3.ToReal(d) == z3.ToReal(nn), nn == 4 * d * m + rem, rem >= 0, rem < 4 * d, m >= 0))
        q = ex.sym(INT, "q")
        ex.assume(q.t == d * k)
        fr = Frame(fi, {qname: q}, None, nmod)
        pk = ex.call(_fn_value(ex, player_key, fi, fr), [note], {})
        ex.prove("post:player-key", term(pk, INT) == term(ex.getattr(note, "player"), INT), "notes are grouped by player")
        mk = ex.call(_fn_value(ex, measure_key, fi, fr), [note], {})
        mkt = term(mk)
        mkt = z3.ToReal(mkt) if mkt.sort() == z3.IntSort() else mkt
        ex.prove("post:measure-key-is-floor-of-beat-over-4", mkt == z3.ToReal(m), "notes are grouped by the measure floor(beat / 4)")
        rk = ex.call(_fn_value(ex, row_key, fi, fr), [note], {})
        rt = term(rk, INT)
        ex.prove("post:row-key-is-exact", rt == rem * k, "(beat mod 4) x q is the integer rem x k: int() truncates nothing")
        ex.prove("post:row-key-in-range", z3.And(rt >= 0, rt < 4 * q.t))
        rows = 4 * q.t
        ex.prove("post:row-decodes-to-the-same-beat", z3.ToReal(m * 4 * rows + rt * 4) == beat * z3.ToReal(rows),
                 "row r of the 4q rows of measure m reads back (C07) as Beat(m*4*rows + r*4, rows) = the note's beat")


UNITS = [RowArithmetic(), LcmStep(), GroupingKeys()]


def N():
    import simfile.notes as n
    return n


def check_stream(notes, columns):
    from math import gcd
    from functools import reduce
    n = N()
    try:
        nd = n.NoteData.from_notes(notes, columns)
    except Exception as e:
        return f"from_notes raised {type(e).__name__}: {e}"
    text = str(nd)
    try:
        back = list(nd)
    except Exception as e:
        return f"decoding the result raised {type(e).__name__}: {e} (text {text!r})"
    if back != list(notes):
        return f"read back {back!r}"
    if nd.columns != columns:
        return f"columns = {nd.columns}, requested {columns}"
    players = text.split("&\n")
    if notes and len(players) != max(x.player for x in notes) + 1:
        return f"{len(players)} player sections for players up to {max(x.player for x in notes)}"
    if not notes and text != "0" * columns + "\n" + ("0" * columns + "\n") * 3:
        return f"empty stream gives {text!r}, expected one blank measure"
    for p, sec in enumerate(players):
        measures = sec.split(",\n")
        mine = [x for x in notes if x.player == p]
        last = max((int(x.beat // 4) for x in mine), default=0)
        if len(measures) != last + 1:
            return f"player {p}: {len(measures)} measures, last note is in measure {last}"
        for m, meas in enumerate(measures):
            rows = meas.splitlines()
            dens = [x.beat.denominator for x in mine if x.beat // 4 == m]
            q = reduce(lambda a, b: a * b // gcd(a, b), dens, 1)
            if len(rows) != 4 * q:
                return f"player {p} measure {m}: {len(rows)} rows, expected {4 * q}"
            if any(len(r_) != columns + sum(len(f"[{x.keysound_index}]") for x in mine if x.keysound_index is not None and False) and "[" not in r_ for r_ in rows):
                return f"player {p} measure {m}: a row is not {columns} wide"
    again = n.NoteData.from_notes(back, columns)
    if str(again) != text:
        return "re-encoding its own notes changes the text"
    # the notes handed over as a one-shot iterator (from_notes takes any Iterable[Note]) and straight from a decoder
    try:
        lazy = str(n.NoteData.from_notes(iter(list(notes)), columns)), str(n.NoteData.from_notes((x for x in nd), columns))
    except Exception as e:
        return f"from_notes on a one-shot iterator raised {type(e).__name__}: {e}"
    if lazy != (text, text):
        return f"from_notes gives {lazy[0]!r} / {lazy[1]!r} for a one-shot iterator over the notes and {text!r} for the list"
    return None


def gen_streams(tier, seed):
    import itertools, random
    from simfile.timing import Beat
    n = N()
    T = n.NoteType
    yield [], 4
    yield [], 1
    beats = [Beat(0), Beat(1, 2), Beat(1, 3), Beat(3), Beat(17, 4), Beat(9)]
    cells = [(b, c, p) for p in (0, 1) for b in beats for c in (0, 1)]
    for k in (1, 2):
        for combo in itertools.combinations(cells, k):
            notes = sorted((n.Note(b, c, T.TAP, p, None) for b, c, p in combo), key=lambda x: (x.player, x.beat, x.column))
            yield notes, 2
    rnd = random.Random(seed)
    dens = [1, 2, 3, 4, 5, 8, 48, 7]
    for _ in range(400 if tier == "quick" else 20000):
        cols = rnd.randint(1, 4) if rnd.random() < 0.85 else rnd.randint(5, 16)
        players = rnd.choice([[0], [0], [1], [0, 1], [0, 2], [0, 1, 2]])
        seen = set()
        notes = []
        for p in players:
            for _ in range(rnd.randint(0, 5)):
                d = rnd.choice(dens)
                b = Beat(rnd.randint(0, 12 * d), d)
                c = rnd.randrange(cols)
                if (p, b, c) in seen:
                    continue
                seen.add((p, b, c))
                notes.append(n.Note(b, c, rnd.choice(list(T)), p, rnd.choice([None, None, 0, 12])))
        notes.sort(key=lambda x: (x.player, x.beat, x.column))
        yield notes, cols


class FromNotes(Bounded):
    name = "from_notes-vs-statement"
    function = "simfile.notes.NoteData.from_notes"

    def bound(self, tier):
        return ("the empty stream; all 1- and 2-note streams over 2 players x 6 beats (denominators 1,2,3,4) x 2 columns; "
                + ("400" if tier == "quick" else "20000") + " generated sorted streams (<= 15 notes, <= 4 columns (15%: 5..16), players 0..2 with gaps, denominators 1,2,3,4,5,7,8,48, keysounds)")

    def run(self, tier, seed):
        import time
        t0 = time.time()
        cases, failures = 0, []
        for notes, cols in gen_streams(tier, seed):
            cases += 1
            bad = check_stream(notes, cols)
            if bad:
                failures.append(dict(input=dict(notes=[repr(x) for x in notes], columns=cols), detail=bad))
                if len(failures) >= 3:
                    break
        return dict(cases=cases, failures=failures, seconds=time.time() - t0)


BOUNDED = [FromNotes()]


def witness_search(tier, seed):
    r = FromNotes().run("quick", seed)
    return r["failures"][0] if r["failures"] else None


# supplier units (see props/suppliers.py): reading back goes through NoteData.__iter__ / _iter_measure
from props import suppliers as _S   # noqa: E402
UNITS = _S.extend(UNITS, _S.note_readers())
