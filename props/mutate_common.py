"""
Verification units for simfile.mutate / open / open_with_detected_encoding over the
ghost file system (shared by C05 and C06).
"""
from __future__ import annotations

import z3

from pyvc.prop import Unit
from pyvc.values import strval, SV, STR, OSTR, INT, BOOL, TSeq, TOpt, term, is_sym, fresh, fresh_term, S_at
from pyvc import omap as O, models as M, stdmodels as SM, simobj as SO, msd as MSD, fsys as FS
from pyvc.execu import HObj, NTVal, PyRaise, LoopSpec, local_slot, Slot, ExcVal
from contracts import simfile_spec as SP
from props.ser_common import classes

Q = "simfile."
S = z3.StringSort()

# what C03 proves about loading, as functions of (text, strict, file name)
load_is_ssc = z3.Function("load_is_ssc", S, S, z3.BoolSort(), z3.BoolSort())
load_map = z3.Function("load_map", S, S, z3.BoolSort(), O.OMapSort)
load_charts = z3.Function("load_charts", S, S, z3.BoolSort(), z3.SeqSort(SO.ChartSort))
load_ok = z3.Function("load_ok", S, S, z3.BoolSort(), z3.BoolSort())          # the text loads (no parser error / ValueError)
serializable = z3.Function("serializable", O.OMapSort, z3.SeqSort(SO.ChartSort), z3.BoolSort())


def simfile_value(sf):
    kind = "ssc" if sf.cls.__name__ == "SSCSimfile" else "sm"
    return kind, O.map_of(sf), SO.charts_term(sf, classes(kind)[2])


def ser_of(sf):
    kind, m, ch = simfile_value(sf)
    return SP.simfile_frags(kind, m, ch)


def load_contract(ex, args, kwargs):
    """callee contract of simfile.load on an open text file (proved in C03)"""
    import msdparser
    f = args[0]
    strict = kwargs.get("strict", args[1] if len(args) > 1 else True)
    ex.assumptions_used.add("callee contract simfile.load: the documented object for the file's text, or the parser's error (proved in C03)")
    MSD.check_decodable(ex, f)
    text = MSD.remaining_text(f)
    name = term(f.fields["name"], STR)
    st = ex._z(ex.truthy(strict))
    ex.setfield(f, "pos", SV(z3.Length(term(f.fields["content"], STR)), INT))
    if not ex.branch(load_ok(text, name, st), "loads"):
        ex.raise_(msdparser.MSDParserError, "stray text", tag="load-error")
    kind = "ssc" if ex.branch(load_is_ssc(text, name, st), "is-ssc") else "sm"
    scls, lcls, ccls = classes(kind)
    sf = SO.new_simfile(ex, scls, lcls, ccls, "loaded", m=load_map(text, name, st),
                        charts=SV(load_charts(text, name, st), TSeq(SO.TChart(ccls))))
    ex.ghost["loaded_from"] = (text, name, st)
    return sf


def serialize_contract(ex, args, kwargs):
    """callee contract of BaseSimfile.serialize (proved in C01/C02): appends SER(simfile), or fails having written some prefix"""
    self, file = args[0], args[1]
    ex.assumptions_used.add("callee contract BaseSimfile.serialize: writes exactly SER(simfile); a simfile that cannot be serialized raises after some prefix")
    kind, m, ch = simfile_value(self)
    if not ex.branch(serializable(m, ch), "serializable"):
        prefix = fresh_term(S, "partial_output")
        file.fields["__suppress_faults__"] = True
        try:
            ex.models.call_method(ex, file, "write", [SV(prefix, STR)], {})
        finally:
            file.fields.pop("__suppress_faults__", None)
        ex.raise_(AttributeError, "'NoneType' object has no attribute 'replace'", tag="unserializable")
    ex.models.call_method(ex, file, "write", [SV(MSD.frag_text(SP.simfile_frags(kind, m, ch)), STR)], {})
    return None


def str_contract(ex, args, kwargs):
    """Serializable.__str__ (proved in C01): the text of serialize(), or its exception"""
    self = args[0]
    kind, m, ch = simfile_value(self)
    if not ex.branch(serializable(m, ch), "serializable"):
        ex.raise_(AttributeError, "'NoneType' object has no attribute 'replace'", tag="unserializable")
    return SV(MSD.frag_text(SP.simfile_frags(kind, m, ch)), STR)


def _str_encode(ex, recv, name, args, kwargs):
    if name == "encode" and (is_sym(recv) and recv.ty.kind == "str"):
        enc = args[0] if args else kwargs.get("encoding", "utf-8")
        if not ex.branch(FS.encodable(term(enc, STR), recv.t), "encodable"):
            ex.raise_(UnicodeEncodeError, "codec can't encode character", tag="unencodable")
        return HObj(bytes, {}, "encoded")
    return NotImplemented


M.METHOD_HOOKS.append(_str_encode)

# ---------------------------------------------------------------------------
# open_with_detected_encoding over an arbitrary list of encodings

_ANYDEC = {}


def anydec():
    if "f" not in _ANYDEC:
        _ANYDEC["f"] = z3.Function("some_encoding_decodes_before", TSeq(STR).sort(), FS.Bytes, z3.IntSort(), z3.BoolSort())
    return _ANYDEC["f"]


def anydec_unfold(encs, b, i):
    f = anydec()
    return [f(encs, b, z3.IntVal(0)) == z3.BoolVal(False),
            z3.Implies(z3.And(i >= 0, i < z3.Length(encs)), f(encs, b, i + 1) == z3.Or(f(encs, b, i), FS.decodable(S_at(encs, i), b)))]


def exception_slot(local="exception"):
    """the one local the loop carries (`exception` on the pinned tree): None, or the UnicodeDecodeError of the previous encodings"""
    def g(ex, fr):
        return SV(z3.BoolVal(fr.locals[local] is not None), BOOL)

    def s(ex, fr, v):
        if ex.branch(v.t, "has-exception"):
            fr.locals[local] = ExcVal(UnicodeDecodeError, ("earlier encodings",))
        else:
            fr.locals[local] = None

    sl = Slot("exception", BOOL, g, s)
    sl.local = local
    return sl


class OpenDetect(Unit):
    """open_with_detected_encoding(filename, try_encodings=<any list>) and open(..., encoding=e)"""

    def __init__(self, entry):
        self.entry = entry
        self.name = {"list": "open_with_detected_encoding[any list]", "explicit": "open[encoding=e]"}[entry]
        self.functions = (Q + "open_with_detected_encoding",) + ((Q + "open",) if entry == "explicit" else ())
        self.expected = ["post:first-decodable-encoding", "post:loads-that-text", "raises:UnicodeDecodeError-iff-none-decodes"]
        self.LQ = Q + "open_with_detected_encoding"

    def run(self, ex):
        FS.install()
        strict = ex.sym(BOOL, "strict")
        name = ex.sym(STR, "filename")
        fs = FS.new_fs(ex)
        fs0 = FS.fs_of(ex)
        cell = z3.Select(fs0, name.t)
        b = FS.OptBytes.bytes(cell)
        ex.callee_contracts["simfile.load"] = load_contract
        ex.callee_contracts["simfile._private.nativeosfs.NativeOSFS.open"] = FS.native_open_contract
        if self.entry == "list":
            encs = ex.sym(TSeq(STR), "try_encodings")
            et = encs.t
            args, kw = [name], {"try_encodings": encs, "strict": strict, "filesystem": fs}
            fn = ex.closure_of(Q + "open_with_detected_encoding")
        else:
            e = ex.sym(STR, "encoding")
            et = TSeq(STR).unit(e.t)
            args, kw = [name], {"strict": strict, "filesystem": fs, "encoding": e}
            fn = ex.closure_of(Q + "open")

        def inv(ex_, fr, i, vals):
            return [("none-decoded-so-far", z3.Not(anydec()(et, b, i))),
                    ("exception-iff-tried", vals["exception"].t == (i > 0))]

        def using(ex_, fr, i, vals):
            return anydec_unfold(et, b, i)

        if self.entry == "list":
            from pyvc.execu import loop_carried
            carried = loop_carried(ex.repo.func(self.LQ), 0)      # by role, not by name
            ex.loop_specs[(self.LQ, 0)] = LoopSpec([exception_slot(carried[0] if len(carried) == 1 else "exception")], inv, using)
        kind, r = ex.run_function(fn, args, kw)
        ex.prove("post:filesystem-untouched", FS.fs_of(ex) == fs0, "opening never writes")
        n = z3.Length(et)
        i = ex.ghost.get(("loop_i", (self.LQ, 0))) if self.entry == "list" else z3.IntVal(0)
        if self.entry != "list":
            for u in anydec_unfold(et, b, z3.IntVal(0)):
                ex.assume(u)
        in_iter = self.entry != "list" or any(l.endswith(":iter") for _, l in ex.decisions)
        if kind == "raise":
            if r.cls is FileNotFoundError:
                ex.prove("raises:FileNotFoundError-iff-missing", z3.Not(FS.OptBytes.is_data(cell)))
            elif r.cls is UnicodeDecodeError:
                ex.prove("raises:UnicodeDecodeError-iff-none-decodes", z3.And(n > 0, z3.Not(anydec()(et, b, n))),
                         "UnicodeDecodeError only when no tried encoding decodes the whole file")
            elif r.cls is UnicodeError:
                ex.prove("raises:UnicodeError-only-for-empty-list", n == 0)
            elif r.tag == "load-error" and in_iter:
                cur = S_at(et, i)
                ex.prove("raises:load-error-of-first-decodable",
                         z3.And(FS.decodable(cur, b), z3.Not(anydec()(et, b, i)), z3.Not(load_ok(FS.textread(cur, b), name.t, strict.t))))
            else:
                ex.prove("raises:only-documented", False, f"raised {r!r}")
            return
        if self.entry == "list":
            sf, enc = r
        else:
            sf, enc = r, None
        cur = S_at(et, i)
        ex.prove("post:first-decodable-encoding",
                 z3.And(FS.decodable(cur, b), z3.Not(anydec()(et, b, i)), z3.BoolVal(True) if enc is None else term(enc, STR) == cur),
                 "the reported encoding is the first of the tried list under which the whole file decodes")
        text, nm, st = ex.ghost["loaded_from"]
        ex.prove("post:loads-that-text", z3.And(text == FS.textread(cur, b), nm == name.t, st == strict.t),
                 "the simfile is loaded from exactly the text decoded with that encoding")


# ---------------------------------------------------------------------------
# mutate


class BlockOutcome:
    NORMAL, CANCEL, RAISE = "normal", "cancel", "raise"


class Mutate(Unit):
    """
    simfile.mutate for one configuration:
      out:    "input" (no output_filename) | "other"
      backup: False | True
      block:  what the caller's with-block does after an arbitrary edit of the yielded simfile
      faults: inject OSError at open-for-writing / write (C06) or not (C05)
    """

    yield_hook_func = "simfile.mutate"

    def __init__(self, out, backup, block, faults=False, kindsf="sm", save_failures=None):
        self.out, self.backup, self.block, self.faults, self.kindsf = out, backup, block, faults, kindsf
        self.save_failures = faults if save_failures is None else save_failures
        self.name = f"mutate[{kindsf}/out={out}/backup={'yes' if backup else 'no'}/block={block}{'/faults' if faults else ''}]"
        self.functions = (Q + "mutate",)
        self.expected = ["raises:"] if (block == "raise" or faults) else ["post:"]

    def on_yield(self, ex, frame, value):
        """the caller's block: arbitrary edits of the yielded simfile, then one of three outcomes"""
        import simfile
        sf = value
        ex.ghost["entry_value"] = simfile_value(sf)
        ex.ghost["entry_ser"] = ser_of(sf)
        ex.ghost["fs_at_yield"] = FS.fs_of(ex)
        ex.ghost["yielded"] = sf
        kind = simfile_value(sf)[0]
        ccls = classes(kind)[2]
        # arbitrary edit script: any mapping, any charts
        ex.setfield(sf, "__map__", O.fresh_map(ex, "edited"))
        ex.setfield(sf.fields["_charts"], "data", fresh(TSeq(SO.TChart(ccls)), "edited_charts"))
        ex.ghost["exit_ser"] = ser_of(sf)
        ex.ghost["exit_value"] = simfile_value(sf)
        if not self.save_failures:
            kd, m_, ch_ = simfile_value(sf)
            enc_t = ex.ghost["enc_t"]
            ex.assume(z3.And(serializable(m_, ch_), FS.encodable(enc_t, MSD.frag_text(ex.ghost["exit_ser"]))),
                      "C05 domain: the edited simfile can be serialized and encoded (failures are C06's)")
        if self.block == BlockOutcome.CANCEL:
            ex.raise_(simfile.CancelMutation, tag="block")
        if self.block == BlockOutcome.RAISE:
            cls = [KeyboardInterrupt, SystemExit, ValueError, Exception][ex.choose([(c, z3.BoolVal(True)) for c in ("KeyboardInterrupt", "SystemExit", "ValueError", "Exception")])]
            ex.ghost["block_exc"] = cls
            ex.raise_(cls, "raised by the block", tag="block")
        return None

    def run(self, ex):
        import simfile
        FS.install()
        fs = FS.new_fs(ex)
        fs0 = FS.fs_of(ex)
        ex.ghost["faults"] = FS.FaultPlan(open_write=self.faults, write=self.faults)
        inp = ex.sym(STR, "input_filename")
        ex.assume(z3.Length(inp.t) > 0)
        outn = None
        if self.out == "other":
            outn = ex.sym(STR, "output_filename")
            ex.assume(z3.And(z3.Length(outn.t) > 0, outn.t != inp.t))
        bak = None
        if self.backup:
            bak = ex.sym(STR, "backup_filename")
            ex.assume(z3.Length(bak.t) > 0)
        strict = ex.sym(BOOL, "strict")
        enc = ex.sym(STR, "detected_encoding")
        ex.ghost["enc_t"] = enc.t
        scls, lcls, ccls = classes(self.kindsf)

        def owde(ex_, args, kwargs):
            ex_.assumptions_used.add("callee contract open_with_detected_encoding: (loaded simfile, first decodable encoding), file system untouched (proved in unit open_with_detected_encoding)")
            ex_.ghost["owde_args"] = (args, kwargs)
            sf = SO.new_simfile(ex_, scls, lcls, ccls, "simfile")
            kd, m_, ch_ = simfile_value(sf)
            ex_.assume(serializable(m_, ch_), "C04: a simfile that was just loaded can always be serialized")
            ex_.assume(FS.encodable(enc.t, MSD.frag_text(SP.simfile_frags(kd, m_, ch_))),
                       "T-CODEC: every character produced by decoding under e is encodable under e")
            return (sf, enc)

        ex.callee_contracts[Q + "open_with_detected_encoding"] = owde
        ex.callee_contracts["simfile.base.BaseSimfile.serialize"] = serialize_contract
        ex.callee_contracts["simfile._private.serializable.Serializable.__str__"] = str_contract
        ex.callee_contracts["simfile._private.nativeosfs.NativeOSFS.open"] = FS.native_open_contract
        fn = ex.closure_of(Q + "mutate")
        encs = ex.sym(TSeq(STR), "try_encodings")
        kw = {"strict": strict, "filesystem": fs, "try_encodings": encs}
        if outn is not None:
            kw["output_filename"] = outn
        if bak is not None:
            kw["backup_filename"] = bak
        kind, r = ex.run_function(fn, [inp], kw)
        fs1 = FS.fs_of(ex)
        out_t = outn.t if outn is not None else inp.t
        reached_block = "yielded" in ex.ghost
        et = enc.t

        def content(frags):
            return FS.OptBytes.data(FS.textwrite(et, MSD.frag_text(frags)))

        p = fresh_term(S, "any_other_path")
        clash = z3.BoolVal(False)
        if bak is not None:
            clash = z3.Or(bak.t == inp.t, bak.t == outn.t) if outn is not None else bak.t == inp.t
        if not reached_block:
            # refused before anything happened
            ex.prove("raises:backup-name-clash-refused-before-writing",
                     z3.And(z3.BoolVal(kind == "raise" and r.cls is ValueError), clash, fs1 == fs0),
                     "a backup name equal to the input or output name is refused before anything is written")
            return
        ex.prove("post:no-clash", z3.Not(clash), "the block was entered although the backup name clashes")
        a, k = ex.ghost["owde_args"]
        ex.prove("call-pre:open_with_detected_encoding",
                 z3.And(term(a[0], STR) == inp.t, ex._z(ex.eq(k.get("strict"), strict)), z3.BoolVal(k.get("filesystem") is fs),
                        z3.BoolVal(is_sym(k.get("try_encodings"))) if not is_sym(k.get("try_encodings")) else k.get("try_encodings").t == encs.t),
                 "the input file is opened with the caller's list of encodings, strict flag and file system")
        entry_ser, exit_ser = ex.ghost["entry_ser"], ex.ghost["exit_ser"]
        if self.block == BlockOutcome.RAISE:
            ok = kind == "raise" and r.cls is ex.ghost["block_exc"] and r.tag == "block"
            ex.prove("raises:block-exception-propagates-unchanged", z3.BoolVal(bool(ok)), f"outcome {kind} {r!r}")
            ex.prove("raises:nothing-created-or-modified", fs1 == fs0, "if the body raises nothing on the file system is created or modified")
            return
        if self.block == BlockOutcome.CANCEL:
            ex.prove("post:CancelMutation-swallowed", z3.BoolVal(kind == "return"), f"outcome {kind} {r!r}")
            ex.prove("post:nothing-created-or-modified", fs1 == fs0)
            return
        # the block exited normally: saving
        if kind == "raise":
            tag = r.tag or ""
            ex.prove("raises:only-save-failures", z3.BoolVal(tag in ("unserializable", "unencodable", "fault:open-w", "fault:write")), f"raised {r!r}")
            if tag in ("unserializable", "unencodable", "fault:open-w"):
                ex.prove("raises:input-intact", z3.Select(fs1, inp.t) == z3.Select(fs0, inp.t),
                         "saving failed (not serializable / not encodable / cannot open for writing): the input file still holds its original bytes")
            ex.prove("raises:other-files-untouched",
                     z3.Implies(z3.And(p != out_t, p != (bak.t if bak is not None else out_t)), z3.Select(fs1, p) == z3.Select(fs0, p)))
            if bak is not None:
                done = [ok for (w, ok) in ex.ghost.get("closed_files", []) if w.cls is MSD._Writer and w.fields["name"] is bak and ok]
                if done:
                    ex.prove("raises:backup-complete", z3.Select(fs1, bak.t) == content(entry_ser),
                             "at every later point where saving fails, the backup that has been written is complete and holds the original simfile")
            return
        ex.prove("post:output-is-the-edited-simfile", z3.Select(fs1, out_t) == content(exit_ser),
                 "the output file, in the detected encoding, is exactly the serialization of the simfile at block exit")
        if bak is not None:
            ex.prove("post:backup-is-the-original-simfile", z3.Select(fs1, bak.t) == content(entry_ser),
                     "the backup file is the serialization of the simfile as it stood at block entry")
        if outn is not None:
            ex.prove("post:input-untouched", z3.Select(fs1, inp.t) == z3.Select(fs0, inp.t))
        ex.prove("post:no-other-file-changed",
                 z3.Implies(z3.And(p != out_t, p != (bak.t if bak is not None else out_t)), z3.Select(fs1, p) == z3.Select(fs0, p)),
                 "no other file is created or changed")
