"""
C09 - grouping and counting notes follow the documented rules for every stream.

Deductive part: the seven counting functions (call-site obligations: group_notes is
called with exactly the documented options; the count is the number of groups of at
least `minimum` notes; mines are counted singly).  Bounded part (labelled): group_notes
itself (filter, head/tail joining with its buffering, same-beat grouping) against a
declarative reading of the statement, exhaustively on the property's grid.
"""
from __future__ import annotations

import z3

from pyvc.prop import Unit, Bounded
from pyvc.values import strval, SV, STR, INT, BOOL, TNT, TSeq, TEnum, TAbs, Ty, term, is_sym, fresh, fresh_term
from pyvc.execu import Unsupported, HObj, NTVal, PyRaise, SymIter
from pyvc import models as M

LEVEL = "other"
TRUSTED = [
    "callee contracts: group_notes is a function of (notes, include_note_types, same_beat_notes, join_heads_to_tails, orphaned_head, orphaned_tail); "
    "sum(cond(x) for x in xs) is the number of x with cond(x) (T-STD)",
    "pyvc VC generator; z3/cvc5",
]
ASSUMPTIONS = ["generator laziness is not modelled"]
EXPLANATION = ("Proved (SMT, all inputs): count_steps / count_jumps / count_hands / count_holds / count_rolls / _count_holds_or_rolls pass exactly the "
               "documented options to group_notes (default types = tap, hold head, roll head, lift; JOIN_ALL; minimum 1 / 2 / 3; holds and rolls: "
               "{head, TAIL}, joined, KEEP_SEPARATE, the caller's orphan policies) and return count_grouped_notes of the result; count_grouped_notes "
               "and count_mines are the stated counts; the three function-valued pieces inside group_notes (type filter, row key, join-by-type selection) read from the real AST. Bounded (never counted as proved): group_notes against the declarative fate specification "
               "taken from the statement, exhaustively over all streams of the grid and all option combinations; the counters on the same grid.")
Q = "simfile.notes.count."


def G():
    import simfile.notes as n, simfile.notes.group as g, simfile.notes.count as c
    return n, g, c


GroupsSort = z3.DeclareSort("GroupedStream")
NotesSort = z3.DeclareSort("NoteStream")
TypeSetSort = z3.DeclareSort("NoteTypeSet")


class TAbsV(Ty):
    kind = "absv"

    def __init__(self, name, srt):
        self.name, self._s = name, srt

    def key(self):
        return (self.name,)

    def sort(self):
        return self._s

    def unlift(self, mv, model=None):
        return str(mv)


T_GROUPS, T_NOTES, T_TYPES = TAbsV("groups", GroupsSort), TAbsV("notes", NotesSort), TAbsV("types", TypeSetSort)
_F = {}


def fns():
    if not _F:
        n, g, c = G()
        SB, OR = TEnum(g.SameBeatNotes).sort(), TEnum(g.OrphanedNotes).sort()
        _F["groups"] = z3.Function("group_notes_of", NotesSort, TypeSetSort, SB, z3.BoolSort(), OR, OR, GroupsSort)
        _F["count"] = z3.Function("groups_with_at_least", GroupsSort, z3.IntSort(), z3.IntSort())
        _F["typeset"] = z3.Function("frozenset_of_types", TEnum(n.NoteType).sort(), TEnum(n.NoteType).sort(), TypeSetSort)
        _F["default_types"] = z3.Const("DEFAULT_NOTE_TYPES", TypeSetSort)
    return _F


def typeset_term(ex, v):
    n, g, c = G()
    f = fns()
    if is_sym(v):
        return v.t
    if isinstance(v, frozenset):
        if v == frozenset((n.NoteType.TAP, n.NoteType.HOLD_HEAD, n.NoteType.ROLL_HEAD, n.NoteType.LIFT)):
            return f["default_types"]
        if len(v) == 2 and n.NoteType.TAIL in v:
            NTy = TEnum(n.NoteType)
            (head,) = [x for x in v if x is not n.NoteType.TAIL]
            return f["typeset"](NTy.lift(head), NTy.lift(n.NoteType.TAIL))
        # any other concrete set: its own constant, different from the documented default and from every other set seen
        nm = "TYPES_" + "_".join(sorted(x.name for x in v))
        ct = z3.Const(nm, TypeSetSort)
        seen = ex.ghost.setdefault("typesets", {"DEFAULT_NOTE_TYPES": f["default_types"]})
        if nm not in seen:
            seen[nm] = ct
            ex.assume(z3.Distinct(*seen.values()) if len(seen) > 1 else z3.BoolVal(True), "different sets of note types are different values")
        return ct
    raise Unsupported(f"type set {v!r}")


def group_contract(ex, args, kwargs):
    n, g, c = G()
    f = fns()
    ex.assumptions_used.add("callee contract group_notes: a function of its six arguments (bounded stand-in group_notes-vs-statement)")
    notes = args[0]
    SB, OR = TEnum(g.SameBeatNotes), TEnum(g.OrphanedNotes)
    inc = kwargs.get("include_note_types", frozenset(n.NoteType))
    if isinstance(inc, frozenset) and not is_sym(inc):
        if inc == frozenset(n.NoteType):
            inc_t = z3.Const("ALL_NOTE_TYPES", TypeSetSort)
        else:
            inc_t = typeset_term(ex, inc)
    elif isinstance(inc, _TypePair):
        inc_t = f["typeset"](inc.a, inc.b)
    else:
        inc_t = inc.t
    sb = term(kwargs.get("same_beat_notes", g.SameBeatNotes.KEEP_SEPARATE), SB)
    jn = kwargs.get("join_heads_to_tails", False)
    jn_t = z3.BoolVal(jn) if isinstance(jn, bool) else jn.t
    oh = term(kwargs.get("orphaned_head", g.OrphanedNotes.RAISE_EXCEPTION), OR)
    ot = term(kwargs.get("orphaned_tail", g.OrphanedNotes.RAISE_EXCEPTION), OR)
    extra = set(kwargs) - {"include_note_types", "same_beat_notes", "join_heads_to_tails", "orphaned_head", "orphaned_tail"}
    if extra or len(args) != 1:
        ex.raise_(TypeError, "unexpected arguments to group_notes")
    return SV(f["groups"](notes.t, inc_t, sb, jn_t, oh, ot), T_GROUPS)


def count_contract(ex, args, kwargs):
    f = fns()
    ex.assumptions_used.add("callee contract count_grouped_notes: the number of groups with at least `same_beat_minimum` notes (proved in its unit)")
    grp = args[0]
    mn = kwargs.get("same_beat_minimum", args[1] if len(args) > 1 else 1)
    return SV(f["count"](grp.t, term(mn, INT)), INT)


class _TypePair:
    """frozenset((head, NoteType.TAIL))"""
    immutable_value = True      # a frozenset: sharing one between calls cannot be observed

    def __init__(self, a, b):
        self.a, self.b = a, b


def _frozenset_model(ex, args, kwargs):
    if args:
        items = M.as_list(ex, args[0])
        if len(items) == 2 and any(is_sym(x) for x in items):
            n, g, c = G()
            NTy = TEnum(n.NoteType)
            return _TypePair(term(items[0], NTy), term(items[1], NTy))
        return frozenset(items)
    return frozenset()


class Counter(Unit):
    def __init__(self, fname):
        self.fname = fname
        self.name = fname
        self.functions = (Q + fname,)
        self.expected = ["post:documented-count"]

    def run(self, ex):
        n, g, c = G()
        f = fns()
        SB, OR, NTy = TEnum(g.SameBeatNotes), TEnum(g.OrphanedNotes), TEnum(n.NoteType)
        M.TYPE_CALL[frozenset] = _frozenset_model
        try:
            self._run(ex, n, g, c, f, SB, OR, NTy)
        finally:
            M.TYPE_CALL[frozenset] = M.b_frozenset

    def _run(self, ex, n, g, c, f, SB, OR, NTy):
        ex.callee_contracts["simfile.notes.group.group_notes"] = group_contract
        notes = SV(fresh_term(NotesSort, "notes"), T_NOTES)
        fn = self.fname
        KEEP = SB.lift(g.SameBeatNotes.KEEP_SEPARATE)
        JALL = SB.lift(g.SameBeatNotes.JOIN_ALL)
        RAISE = OR.lift(g.OrphanedNotes.RAISE_EXCEPTION)
        if fn != "count_steps":
            ex.callee_contracts[Q + "count_grouped_notes"] = count_contract
        if fn in ("count_steps", "count_jumps", "count_hands"):
            # the documented defaults, and the caller's overrides when given
            for override in (False, True):
                pass
            kw = {}
            inc_t, sb_t = f["default_types"], JALL
            cfg = ex.choose([("defaults", z3.BoolVal(True)), ("overrides", z3.BoolVal(True))])
            mn = {"count_steps": 1, "count_jumps": 2, "count_hands": 3}[fn]
            mn_t = z3.IntVal(mn)
            if cfg == 1:
                inc = SV(fresh_term(TypeSetSort, "include_note_types"), T_TYPES)
                sbv = ex.sym(SB, "same_beat_notes")
                kw = {"include_note_types": inc, "same_beat_notes": sbv}
                inc_t, sb_t = inc.t, sbv.t
                if fn != "count_jumps":
                    m = ex.sym(INT, "same_beat_minimum")
                    kw["same_beat_minimum"] = m
                    mn_t = m.t
            if fn == "count_steps":
                ex.callee_contracts[Q + "count_grouped_notes"] = count_contract
            kind, r = ex.run_function(ex.closure_of(Q + fn), [notes], kw)
            exp = f["count"](f["groups"](notes.t, inc_t, sb_t, z3.BoolVal(False), RAISE, RAISE), mn_t)
            what = {"count_steps": "beats carrying at least one tap, hold head, roll head or lift",
                    "count_jumps": "beats carrying at least two of them", "count_hands": "beats carrying at least three of them"}[fn]
        else:
            oh, ot = ex.sym(OR, "orphaned_head"), ex.sym(OR, "orphaned_tail")
            cfg = ex.choose([("defaults", z3.BoolVal(True)), ("policies", z3.BoolVal(True))])
            kw = {} if cfg == 0 else {"orphaned_head": oh, "orphaned_tail": ot}
            oh_t, ot_t = (RAISE, RAISE) if cfg == 0 else (oh.t, ot.t)
            if fn == "_count_holds_or_rolls":
                head = ex.sym(NTy, "head")
                args = [notes, head]
                head_t = head.t
            else:
                args = [notes]
                head_t = NTy.lift(n.NoteType.HOLD_HEAD if fn == "count_holds" else n.NoteType.ROLL_HEAD)
            kind, r = ex.run_function(ex.closure_of(Q + fn), args, kw)
            exp = f["count"](f["groups"](notes.t, f["typeset"](head_t, NTy.lift(n.NoteType.TAIL)), KEEP, z3.BoolVal(True), oh_t, ot_t), z3.IntVal(1))
            what = "the number of items that joining emits for that head type and tails"
        if kind == "raise":
            ex.prove("post:noraise", False, f"raised {r!r}")
            return
        ex.prove("post:documented-count", term(r, INT) == exp, what)


class CountGrouped(Unit):
    name = "count_grouped_notes"
    functions = (Q + "count_grouped_notes",)
    expected = ["post:groups-of-at-least-minimum"]

    def run(self, ex):
        from pyvc import stdmodels as SM
        n, g, c = G()
        GT = TSeq(TSeq(TNT(n.Note)))
        groups = ex.sym(GT, "grouped_notes")
        mn = ex.sym(INT, "same_beat_minimum")
        kind, r = ex.run_function(ex.closure_of(Q + "count_grouped_notes"), [groups, mn])
        inner = GT.inner
        lam = SM.pred_lambda(inner.sort(), lambda x: z3.Length(inner.unbox(x)) >= mn.t)
        exp = SM.count_where(groups.t.sort(), inner.sort())(groups.t, lam)
        ex.prove("post:groups-of-at-least-minimum", z3.BoolVal(kind == "return") if kind != "return" else term(r, INT) == exp,
                 "the number of groups holding at least same_beat_minimum notes")


class CountMines(Unit):
    name = "count_mines"
    functions = (Q + "count_mines",)
    expected = ["post:mines-counted-singly"]

    def run(self, ex):
        from pyvc import stdmodels as SM
        n, g, c = G()
        NT = TNT(n.Note)
        notes = ex.sym(TSeq(NT), "notes")
        kind, r = ex.run_function(ex.closure_of(Q + "count_mines"), [notes])
        lam = SM.pred_lambda(NT.sort(), lambda x: NT.acc(x, "note_type") == TEnum(n.NoteType).lift(n.NoteType.MINE))
        exp = SM.count_where(notes.t.sort(), NT.sort())(notes.t, lam)
        ex.prove("post:mines-counted-singly", z3.BoolVal(kind == "return") if kind != "return" else term(r, INT) == exp,
                 "the number of notes whose type is MINE")


UNITS = [CountGrouped(), CountMines()] + [Counter(f_) for f_ in ("count_steps", "count_jumps", "count_hands", "_count_holds_or_rolls", "count_holds", "count_rolls")]


class GroupNotesPredicates(Unit):
    """The three function-valued arguments inside group_notes (real AST, located on every run as a lambda or as a function
    defined inside group_notes): the filter keeps exactly the notes whose type is in include_note_types (every one of the
    2^|NoteType| sets of members, every note), rows are grouped by the beat itself, and JOIN_BY_NOTE_TYPE selects the notes
    of a row whose type equals the type being joined.  group_notes as a whole stays with the bounded stand-in."""
    name = "group_notes.<filter-and-keys>"
    functions = ("simfile.notes.group.group_notes",)
    expected = ["post:filter-keeps-exactly-the-included-types", "post:rows-are-keyed-by-the-beat", "post:join-by-type-selects-the-equal-type"]

    def run(self, ex):
        import ast, itertools
        from pyvc.execu import Frame, LambdaVal, Closure
        n, g, c = G()
        fi = ex.repo.func("simfile.notes.group.group_notes")
        nested = [x for x in ast.walk(fi.node) if isinstance(x, ast.FunctionDef) and x is not fi.node]
        in_nested = {id(y) for f in nested for y in ast.walk(f)}

        def named(cl, nm):
            return isinstance(cl, ast.Call) and (getattr(cl.func, "id", None) == nm or getattr(cl.func, "attr", None) == nm) \
                and len(cl.args) == 2 and not cl.keywords

        def fnval(node, fr):
            if isinstance(node, ast.Lambda):
                return LambdaVal(node, fr)
            if isinstance(node, ast.Name):
                defs = [x for x in nested if x.name == node.id]
                if len(defs) == 1:
                    for cand in ex.repo.funcs.values():
                        if cand.node is defs[0]:
                            return Closure(cand, fr)
            raise Unsupported("a predicate / key of group_notes is neither a lambda nor a function defined inside group_notes: the contract does not fit the code")

        calls = list(ast.walk(fi.node))
        top_filters = [x for x in calls if named(x, "filter") and id(x) not in in_nested]
        top_groupbys = [x for x in calls if named(x, "groupby") and id(x) not in in_nested]
        row_filters = [x for x in calls if named(x, "filter") and id(x) in in_nested]
        row_comps = [x for x in calls if isinstance(x, ast.ListComp) and id(x) in in_nested and len(x.generators) == 1 and len(x.generators[0].ifs) == 1
                     and isinstance(x.generators[0].target, ast.Name) and isinstance(x.elt, ast.Name) and x.elt.id == x.generators[0].target.id]
        if len(top_filters) != 1 or len(top_groupbys) != 1 or len(row_filters) + len(row_comps) != 1:
            raise Unsupported("group_notes no longer has one filter(<pred>, notes), one groupby(<stream>, <key>) and one selection of a row by note type "
                              "(filter(<pred>, row) or [n for n in row if <cond>]): the contract does not fit the code")
        params = [a.arg for a in fi.node.args.args + fi.node.args.kwonlyargs]
        if "include_note_types" not in params:
            raise Unsupported("group_notes has no include_note_types parameter")
        NT = TNT(n.Note)
        TY = TEnum(n.NoteType)
        note = ex.sym(NT, "note")
        nty = term(ex.getattr(note, "note_type"))
        members = list(n.NoteType)
        # 1. the include filter, for every set of members
        conj = []
        for k in range(len(members) + 1):
            for sub in itertools.combinations(members, k):
                fr = Frame(fi, {"include_note_types": frozenset(sub)}, None, g)
                r = ex.call(fnval(top_filters[0].args[0], fr), [note], {})
                tv = ex.truthy(r)
                tv = z3.BoolVal(tv) if isinstance(tv, bool) else tv
                conj.append(tv == z3.Or([nty == TY.lift(m) for m in sub] + [z3.BoolVal(False)]))
        ex.prove("post:filter-keeps-exactly-the-included-types", z3.And(conj),
                 f"for each of the {len(conj)} sets of note types: a note passes the filter exactly when its type is in the set")
        # 2. the row key
        fr = Frame(fi, {}, None, g)
        key = ex.call(fnval(top_groupbys[0].args[1], fr), [note], {})
        ex.prove("post:rows-are-keyed-by-the-beat", term(key) == term(ex.getattr(note, "beat")), "notes are grouped into rows by their exact beat")
        # 3. JOIN_BY_NOTE_TYPE: filter(<pred>, row) or [n for n in row if <cond>]; the one free variable is the type being joined
        bi = set(__builtins__) if isinstance(__builtins__, dict) else set(dir(__builtins__))

        def free_of(node, own):
            return sorted({x.id for x in ast.walk(node) if isinstance(x, ast.Name) and isinstance(x.ctx, ast.Load)} - own - set(vars(g)) - bi)

        joined = ex.sym(TY, "joined_type")
        if row_filters:
            pred = row_filters[0].args[0]
            defs = [x for x in nested if x.name == getattr(pred, "id", None)]
            body = pred if isinstance(pred, ast.Lambda) else defs[0] if len(defs) == 1 else None
            if body is None:
                raise Unsupported("the row filter of group_notes is neither a lambda nor a function defined inside group_notes")
            free = free_of(body, {a.arg for a in body.args.args})
            if len(free) != 1:
                raise Unsupported(f"the row filter of group_notes has free variables {free}: the contract expects exactly the note type being joined")
            fr = Frame(fi, {free[0]: joined}, None, g)
            r = ex.call(fnval(pred, fr), [note], {})
        else:
            lc = row_comps[0]
            gen = lc.generators[0]
            free = free_of(gen.ifs[0], {gen.target.id})
            if len(free) != 1:
                raise Unsupported(f"the row selection of group_notes has free variables {free}: the contract expects exactly the note type being joined")
            fr = Frame(fi, {free[0]: joined, gen.target.id: note}, None, g)
            r = ex.eval(gen.ifs[0], fr)
        tv = ex.truthy(r)
        tv = z3.BoolVal(tv) if isinstance(tv, bool) else tv
        ex.prove("post:join-by-type-selects-the-equal-type", tv == (nty == joined.t), "a note of the row joins the group exactly when its type is the type being joined")


UNITS = list(UNITS) + [GroupNotesPredicates()]


# ---------------------------------------------------------------------------
# the statement as a declarative specification (bounded stand-in and witness search)


class SpecRaise(Exception):
    def __init__(self, note):
        self.note = note


def spec_group(stream, include, sb, join, oh, ot):
    """fate of every note per the statement; returns the list of groups or raises SpecRaise(note)"""
    n, g, c = G()
    T, P = n.NoteType, g.OrphanedNotes
    items = [x for x in stream if x.note_type in include]
    out = list(items)               # index-aligned; None = not emitted
    if join:
        open_ = {}
        for i, x in enumerate(items):
            if x.column in open_ or x.note_type == T.TAIL:
                h = open_.pop(x.column, None)
                if h is None:
                    if ot == P.RAISE_EXCEPTION:
                        raise SpecRaise(x)
                    if ot == P.DROP_ORPHAN:
                        out[i] = None
                elif x.note_type == T.TAIL:
                    hd = items[h]
                    out[h] = g.NoteWithTail(hd.beat, hd.column, hd.note_type, x.beat, hd.player, hd.keysound_index)
                    out[i] = None
                else:
                    if oh == P.RAISE_EXCEPTION:
                        raise SpecRaise(items[h])
                    if oh == P.DROP_ORPHAN:
                        out[h] = None
            if x.note_type in (T.HOLD_HEAD, T.ROLL_HEAD):
                open_[x.column] = i
        if open_:
            if oh == P.RAISE_EXCEPTION:
                raise SpecRaise(None)
            if oh == P.DROP_ORPHAN:
                for h in open_.values():
                    out[h] = None
    emitted = [x for x in out if x is not None]
    groups = []
    i = 0
    while i < len(emitted):
        j = i
        while j < len(emitted) and emitted[j].beat == emitted[i].beat:
            j += 1
        row = emitted[i:j]
        if sb == g.SameBeatNotes.KEEP_SEPARATE:
            groups += [[x] for x in row]
        elif sb == g.SameBeatNotes.JOIN_ALL:
            groups.append(row)
        else:
            seen = []
            for x in row:
                if x.note_type not in seen:
                    seen.append(x.note_type)
                    groups.append([y for y in row if y.note_type == x.note_type])
        i = j
    return groups


def real_group(stream, include, sb, join, oh, ot):
    n, g, c = G()
    try:
        return [list(r) for r in g.group_notes(stream, include_note_types=include, same_beat_notes=sb, join_heads_to_tails=join,
                                               orphaned_head=oh, orphaned_tail=ot)]
    except g.OrphanedNoteException as e:
        return ("raises", e.args[0] if e.args else None)
    except Exception as e:      # anything else is an exception the statement does not provide for
        return ("unexpected", f"{type(e).__name__}: {e}")


def compare(stream, include, sb, join, oh, ot):
    try:
        exp = spec_group(stream, include, sb, join, oh, ot)
    except SpecRaise as s:
        exp = ("raises", s.note)
    got = real_group(stream, include, sb, join, oh, ot)
    if isinstance(got, tuple) and got[0] == "unexpected":
        return f"group_notes raised {got[1]}; the statement prescribes {exp!r}"
    if isinstance(exp, tuple) and isinstance(got, tuple):
        if exp[1] is not None and got[1] != exp[1]:
            return f"OrphanedNoteException names {got[1]!r}; the statement's first orphan is {exp[1]!r}"
        return None
    if got != exp:
        return f"group_notes gave {got!r}; the statement prescribes {exp!r}"
    return None


def check_counts(stream):
    n, g, c = G()
    T = n.NoteType
    dflt = frozenset((T.TAP, T.HOLD_HEAD, T.ROLL_HEAD, T.LIFT))
    beats = {}
    for x in stream:
        if x.note_type in dflt:
            beats[x.beat] = beats.get(x.beat, 0) + 1
    exp = dict(steps=len(beats), jumps=sum(v >= 2 for v in beats.values()), hands=sum(v >= 3 for v in beats.values()),
               mines=sum(x.note_type == T.MINE for x in stream))
    got = dict(steps=c.count_steps(stream), jumps=c.count_jumps(stream), hands=c.count_hands(stream), mines=c.count_mines(stream))
    if got != exp:
        return f"counts {got}; the statement gives {exp}"
    for m in (1, 2, 3, 4):      # an explicit same_beat_minimum, where the function takes one
        e = sum(v >= m for v in beats.values())
        for fn in (c.count_steps, c.count_hands):
            r = fn(stream, same_beat_minimum=m)
            if r != e:
                return f"{fn.__name__}(same_beat_minimum={m}) = {r}; the statement gives {e} (beats carrying at least {m} of them)"
    for head, fn in ((T.HOLD_HEAD, c.count_holds), (T.ROLL_HEAD, c.count_rolls)):
        for oh in g.OrphanedNotes:
            for ot in g.OrphanedNotes:
                try:
                    e = len(spec_group(stream, frozenset((head, T.TAIL)), g.SameBeatNotes.KEEP_SEPARATE, True, oh, ot))
                except SpecRaise:
                    e = "raises"
                try:
                    r = fn(stream, orphaned_head=oh, orphaned_tail=ot)
                except g.OrphanedNoteException:
                    r = "raises"
                except Exception as x:
                    r = f"raises {type(x).__name__}: {x}"
                if r != e:
                    return f"{fn.__name__}({oh.name}, {ot.name}) = {r}; the statement gives {e}"
    return None


class GroupVsStatement(Bounded):
    function = "simfile.notes.group.group_notes (incl. join_heads_to_tails_, add_row) and the counters"
    PARTS = 12

    def __init__(self, part=0):
        self.part = part
        self.name = f"group_notes-vs-statement[{part + 1}/{self.PARTS}]"

    def bound(self, tier):
        r = 3 if tier == "quick" else 4
        return (f"all position-sorted single-player streams on 2 columns x {r} rows x 5 cell kinds (tap, hold head, roll head, tail, mine) "
                f"and on 3 columns x 2 rows, x 3 same-beat modes x join on/off x 3x3 orphan policies x 5 type subsets (with and without TAIL, and the empty set); counters on every stream; every stream also as a one-shot iterator")

    def run(self, tier, seed):
        import itertools, time
        from props.C10 import grid_streams
        n, g, c = G()
        t0 = time.time()
        T = n.NoteType
        kinds = [(T.TAP, None), (T.HOLD_HEAD, None), (T.ROLL_HEAD, 3), (T.TAIL, None), (T.MINE, None)]
        rows = 3 if tier == "quick" else 4
        subsets = [frozenset(T), frozenset((T.HOLD_HEAD, T.TAIL, T.TAP)), frozenset((T.HOLD_HEAD, T.ROLL_HEAD, T.TAP)), frozenset((T.TAIL, T.MINE)), frozenset()]
        cases, failures = 0, []
        import itertools as _it
        for idx, stream in enumerate(_it.chain(grid_streams(2, rows, kinds), grid_streams(3, 2, kinds))):
            if idx % self.PARTS != self.part:
                continue
            bad = check_counts(stream)
            cases += 1
            if bad:
                failures.append(dict(input=[repr(x) for x in stream], detail=bad))
            # the stream handed over as a one-shot iterator (the API takes any Iterable[Note]): same groups, same counts
            sbm = list(g.SameBeatNotes)[idx % 3]
            pol = list(g.OrphanedNotes)[1 + idx % 2]
            as_list = real_group(stream, frozenset(T), sbm, True, pol, pol)
            as_iter = real_group(iter(stream), frozenset(T), sbm, True, pol, pol)
            as_gen = real_group((x for x in stream), frozenset(T), sbm, True, pol, pol)
            cases += 2
            if as_iter != as_list or as_gen != as_list:
                failures.append(dict(input=dict(stream=[repr(x) for x in stream], passed_as="iter(list) / generator", mode=sbm.name, join=True, heads=pol.name, tails=pol.name),
                                     detail=f"group_notes gives {as_iter!r} for a one-shot iterator over the notes and {as_list!r} for the list"))
            try:
                ci, cl = (c.count_holds(iter(stream), orphaned_head=pol, orphaned_tail=pol), c.count_steps(iter(stream))), \
                         (c.count_holds(stream, orphaned_head=pol, orphaned_tail=pol), c.count_steps(stream))
            except Exception as e:
                ci, cl = f"raised {type(e).__name__}: {e}", None
            if ci != cl:
                failures.append(dict(input=dict(stream=[repr(x) for x in stream], passed_as="iter(list)", heads=pol.name, tails=pol.name),
                                     detail=f"count_holds / count_steps give {ci!r} for a one-shot iterator and {cl!r} for the list"))
            for inc, sb in itertools.product(subsets, g.SameBeatNotes):
                combos = [(False, g.OrphanedNotes.RAISE_EXCEPTION, g.OrphanedNotes.RAISE_EXCEPTION)] + \
                         [(True, oh, ot) for oh in g.OrphanedNotes for ot in g.OrphanedNotes]
                for join, oh, ot in combos:
                    cases += 1
                    bad = compare(stream, inc, sb, join, oh, ot)
                    if bad:
                        failures.append(dict(input=dict(stream=[repr(x) for x in stream], include=sorted(t.name for t in inc), mode=sb.name, join=join,
                                                        heads=oh.name, tails=ot.name), detail=bad))
                        if len(failures) >= 3:
                            return dict(cases=cases, failures=failures, seconds=time.time() - t0)
        return dict(cases=cases, failures=failures, seconds=time.time() - t0)


BOUNDED = [GroupVsStatement(k) for k in range(GroupVsStatement.PARTS)]


def counters_with_defaults():
    """the counting functions with their documented defaults on streams that carry every note type: steps are beats with a
    tap, hold head, roll head or lift; jumps / hands need two / three of them; mines singly"""
    import itertools
    n, g, c = G()
    from simfile.timing import Beat
    T = n.NoteType
    counted = {T.TAP, T.HOLD_HEAD, T.ROLL_HEAD, T.LIFT}
    for combo in itertools.product(list(T), repeat=3):
        for beats in ((0, 0, 0), (0, 0, 1), (0, 1, 2)):
            stream = [n.Note(Beat(b), col, t) for col, (b, t) in enumerate(zip(beats, combo))]
            rows = {}
            for x in stream:
                rows.setdefault(x.beat, []).append(x)
            per_row = [sum(1 for x in r if x.note_type in counted) for r in rows.values()]
            want = dict(count_steps=sum(1 for k in per_row if k >= 1), count_jumps=sum(1 for k in per_row if k >= 2),
                        count_hands=sum(1 for k in per_row if k >= 3), count_mines=sum(1 for x in stream if x.note_type == T.MINE))
            for fn_, exp in want.items():
                try:
                    got = getattr(c, fn_)(stream)
                except Exception as e:
                    got = f"raised {type(e).__name__}"
                if got != exp:
                    return dict(input=dict(stream=[repr(x) for x in stream], function=fn_ + " with its default options"),
                                detail=f"{fn_} = {got!r}; the documentation counts {exp}")
    return None


def counters_on_an_edited_list():
    """count, let the caller edit the very same list, count again: every call answers for the notes it is given"""
    n, g, c = G()
    from simfile.timing import Beat
    T = n.NoteType
    notes = [n.Note(Beat(0), 0, T.TAP), n.Note(Beat(0), 1, T.TAP), n.Note(Beat(1), 0, T.TAP)]
    first = (c.count_steps(notes), c.count_jumps(notes), c.count_hands(notes), c.count_mines(notes))
    notes += [n.Note(Beat(2), 0, T.TAP), n.Note(Beat(2), 1, T.TAP), n.Note(Beat(2), 2, T.LIFT), n.Note(Beat(3), 0, T.MINE)]
    second = (c.count_steps(notes), c.count_jumps(notes), c.count_hands(notes), c.count_mines(notes))
    del notes[1:]
    third = (c.count_steps(notes), c.count_jumps(notes), c.count_hands(notes), c.count_mines(notes))
    if (first, second, third) != ((2, 1, 0, 0), (3, 2, 1, 1), (1, 0, 0, 0)):
        return dict(input="count_steps/jumps/hands/mines on one list: 3 notes, then 7 (appended in place), then 1 (truncated in place)",
                    detail=f"counts {first}, {second}, {third}; the documentation gives (2, 1, 0, 0), (3, 2, 1, 1), (1, 0, 0, 0)")
    return None


def witness_search(tier, seed):
    w = counters_with_defaults() or counters_on_an_edited_list()
    if w:
        return w
    for k in range(GroupVsStatement.PARTS):
        r = GroupVsStatement(k).run("quick", seed)
        if r["failures"]:
            return r["failures"][0]
    return None


# tables the statement pins down by value (props/constants_common.py)
from props.constants_common import ClosedConstants   # noqa: E402
UNITS = list(UNITS) + [ClosedConstants('group-notes-default-types', 'count-default-types')]
