"""
C19 - directory and pack discovery finds exactly the right simfiles.
"""
from __future__ import annotations

import z3

from pyvc.prop import Unit
from pyvc.values import strval, SV, STR, OSTR, INT, BOOL, TSeq, TOpt, Ty, term, is_sym, fresh, fresh_term, S_at
from pyvc import models as M, fsys as FS
from pyvc.execu import assigned_from, HObj, PyRaise, LoopSpec, field_slot, local_slot, yield_slot, seq_of_items, Slot

LEVEL = "proof"
TRUSTED = [
    "T-FS: listdir / isdir / exists are functions of an unchanging directory tree; listed entries are non-empty names",
    "T-PATH: os.path / fs.path join, split, normpath as uninterpreted functions (join of a non-empty name is non-empty)",
    "S4: str.lower uninterpreted with CPython constant instances; endswith is suffix-of",
    "callee contract simfile.open (C03/C05); monotonicity of prefix predicates (lemma below, induction schema applied by the tool)",
    "pyvc VC generator; z3/cvc5",
]
ASSUMPTIONS = ["NativeOSFS and any PyFilesystem are assumed to satisfy T-FS (this family cannot observe a real directory tree)",
               "generator laziness is not modelled"]

S = z3.StringSort()
SEQ = TSeq(STR)
Q = "simfile.dir."


def low_ends(name, ext):
    return z3.SuffixOf(strval(ext), M.str_lower(name))


def is_sm(name):
    return z3.And(low_ends(name, ".sm"), z3.Not(low_ends(name, ".ssc")))


def is_ssc(name):
    return low_ends(name, ".ssc")


def is_simfile(name):
    return z3.Or(low_ends(name, ".ssc"), low_ends(name, ".sm"))


_F = {}


def fn(name, *sorts):
    if name not in _F:
        _F[name] = z3.Function(name, *sorts)
    return _F[name]


def FIRST(kind):
    """first listed entry of that kind among the first i entries (Optional)"""
    return fn(f"first_{kind}_before", SEQ.sort(), z3.IntSort(), OSTR.sort())


def DUPB():
    return fn("duplicate_before", SEQ.sort(), z3.IntSort(), z3.BoolSort())


def ANY():
    return fn("some_simfile_before", SEQ.sort(), z3.IntSort(), z3.BoolSort())


def first_unfold(L, i):
    out = []
    g = z3.And(i >= 0, i < z3.Length(L))
    x = S_at(L, i)
    dup = DUPB()
    terms = []
    for kind, pred in (("sm", is_sm), ("ssc", is_ssc)):
        f = FIRST(kind)
        out.append(f(L, z3.IntVal(0)) == OSTR.lift(None))
        out.append(z3.Implies(g, f(L, i + 1) == z3.If(z3.And(OSTR.is_none(f(L, i)), pred(x)), OSTR.some(x), f(L, i))))
        terms.append(z3.And(pred(x), z3.Not(OSTR.is_none(f(L, i)))))
    out.append(dup(L, z3.IntVal(0)) == z3.BoolVal(False))
    out.append(z3.Implies(g, dup(L, i + 1) == z3.Or(dup(L, i), *terms)))
    out.append(z3.Implies(g, z3.Length(x) > 0))          # T-FS: entries are non-empty names
    return out


def any_unfold(L, i):
    a = ANY()
    g = z3.And(i >= 0, i < z3.Length(L))
    return [a(L, z3.IntVal(0)) == z3.BoolVal(False), z3.Implies(g, a(L, i + 1) == z3.Or(a(L, i), is_simfile(S_at(L, i)))),
            # lemma prefix-monotone (proved below by induction schema): once true, true for every longer prefix
            z3.Implies(z3.And(g, a(L, i + 1)), a(L, z3.Length(L)))]


def join_of(native, d, x):
    return (FS.os_join if native else FS.fs_join)(d, x)


def norm_of(native, d):
    return (FS.os_normpath if native else FS.fs_normpath)(d)


def opt_join(native, d, o):
    return z3.If(OSTR.is_none(o), OSTR.lift(None), OSTR.some(join_of(native, d, OSTR.val(o))))


def make_fs(ex, native):
    FS.install()
    if native:
        fs = FS.new_fs(ex)
    else:
        from fs.memoryfs import MemoryFS
        fs = FS.new_fs(ex, MemoryFS)
    ex.callee_contracts["simfile._private.nativeosfs.NativeOSFS.listdir"] = FS.native_listdir_contract
    ex.callee_contracts["simfile._private.nativeosfs.NativeOSFS.open"] = FS.native_open_contract
    return fs


class ExtMatch(Unit):
    name = "extensions.match"
    functions = ("simfile._private.extensions.match",)
    expected = ["post:first-matching-extension"]

    def run(self, ex):
        import simfile._private.extensions as e
        path = ex.sym(STR, "path")
        exts = e.SIMFILE
        kind, r = ex.run_function(ex.closure_of("simfile._private.extensions.match"), [path] + list(exts))
        exp = OSTR.lift(None)
        for x in reversed(exts):
            exp = z3.If(low_ends(path.t, x), OSTR.some(strval(x)), exp)
        ex.prove("post:first-matching-extension", z3.BoolVal(kind == "return") if kind != "return" else term(r, OSTR) == exp,
                 "the first of the given extensions that the lower-cased name ends with, else None")


def path_nonempty(native, d, x):
    return z3.Implies(z3.Length(x) > 0, z3.Length(join_of(native, d, x)) > 0)


class DirInit(Unit):
    def __init__(self, native):
        self.native = native
        self.name = f"SimfileDirectory.__init__[{'NativeOSFS' if native else 'PyFilesystem'}]"
        self.functions = (Q + "SimfileDirectory.__init__", "simfile._private.extensions.match", "simfile._private.path.FSPath.join",
                          "simfile._private.path.FSPath.normpath", "simfile._private.path.FSPath.__init__")
        self.expected = ["__init__#loop0:inv-keep:sm_path", "__init__#loop0:inv-keep:ssc_path", "post:paths", "raises:DuplicateSimfileError"]
        self.LQ = Q + "SimfileDirectory.__init__"

    def run(self, ex):
        import simfile.dir as d
        fs = make_fs(ex, self.native)
        sdir = ex.sym(STR, "simfile_dir")
        ign = ex.sym(BOOL, "ignore_duplicate")
        L = FS.listing(sdir.t)
        nat = self.native
        obj = HObj(d.SimfileDirectory, {}, "self")

        def val(v):
            return term(v, OSTR)

        def inv(ex_, fr, i, vals):
            return [("sm_path", val(vals["sm_path"]) == opt_join(nat, sdir.t, FIRST("sm")(L, i))),
                    ("ssc_path", val(vals["ssc_path"]) == opt_join(nat, sdir.t, FIRST("ssc")(L, i))),
                    ("no-duplicate-unless-ignored", z3.Or(ign.t, z3.Not(DUPB()(L, i))))] + \
                   [(f"first-{k}-is-a-name", z3.Or(OSTR.is_none(FIRST(k)(L, i)), z3.Length(OSTR.val(FIRST(k)(L, i))) > 0)) for k in ("sm", "ssc")]

        def using(ex_, fr, i, vals):
            return first_unfold(L, i) + [path_nonempty(nat, sdir.t, S_at(L, i))] + \
                   [path_nonempty(nat, sdir.t, OSTR.val(FIRST(k)(L, i))) for k in ("sm", "ssc")]

        def fld(name):
            def g(ex_, fr):
                o = fr.locals["self"]
                if name in o.fields:
                    return o.fields[name]
                return None          # class default

            def s_(ex_, fr, v):
                fr.locals["self"].fields[name] = v

            sl = Slot(name, OSTR, g, s_)
            sl.obj = lambda ex_, fr: fr.locals["self"]
            sl.field = name
            return sl

        ex.loop_specs[(self.LQ, 0)] = LoopSpec([fld("sm_path"), fld("ssc_path")], inv, using)
        kind, r = ex.run_function(ex.closure_of(self.LQ, owner=d.SimfileDirectory), [obj, sdir], {"filesystem": fs, "ignore_duplicate": ign})
        n = z3.Length(L)
        if kind == "raise":
            i = ex.ghost.get(("loop_i", (self.LQ, 0)))
            ok = r.cls is d.DuplicateSimfileError and i is not None
            x = S_at(L, i) if ok else None
            ex.prove("raises:DuplicateSimfileError",
                     z3.And(z3.Not(ign.t), z3.Or(z3.And(is_sm(x), z3.Not(OSTR.is_none(FIRST("sm")(L, i)))),
                                                 z3.And(is_ssc(x), z3.Not(OSTR.is_none(FIRST("ssc")(L, i)))))) if ok else z3.BoolVal(False),
                     f"raised {r!r}: the duplicate error needs two files of one kind and ignore_duplicate off")
            return
        ex.prove("post:paths", z3.And(val(obj.fields.get("sm_path")) == opt_join(nat, sdir.t, FIRST("sm")(L, n)),
                                      val(obj.fields.get("ssc_path")) == opt_join(nat, sdir.t, FIRST("ssc")(L, n))),
                 "the first listed .sm / .ssc entry (any letter case), joined to the directory; None when there is none")
        ex.prove("post:no-duplicate-unless-ignored", z3.Or(ign.t, z3.Not(DUPB()(L, n))))
        ex.prove("post:fields", z3.And(term(obj.fields["simfile_dir"], STR) == norm_of(nat, sdir.t), z3.BoolVal(obj.fields["filesystem"] is fs)))


SimV = z3.DeclareSort("LoadedSimfile")
sim_open = z3.Function("simfile_open", S, TOpt(BOOL).sort(), OSTR.sort(), SimV)
"""what simfile.open(path, strict=?, encoding=?) on this file system returns (C03/C05), keyed by the loader options"""


class TSim(Ty):
    kind = "simv"

    def sort(self):
        return SimV

    def unlift(self, mv, model=None):
        return str(mv)


T_SIM = TSim()
KW_CONFIGS = [(), ("strict",), ("encoding",), ("strict", "encoding")]


def kwargs_of(ex, cfg):
    kw = {}
    if "strict" in cfg:
        kw["strict"] = ex.sym(BOOL, "strict")
    if "encoding" in cfg:
        kw["encoding"] = ex.sym(STR, "encoding")
    return kw


def kw_terms(kw):
    OB = TOpt(BOOL)
    s = OB.some(kw["strict"].t) if "strict" in kw else OB.lift(None)
    e = OSTR.some(kw["encoding"].t) if "encoding" in kw else OSTR.lift(None)
    return s, e


def simfile_open_contract(fs_expected):
    def c_(ex, args, kwargs):
        ex.assumptions_used.add("callee contract simfile.open: a function of (path, strict, encoding) on the given file system (C03/C05)")
        kw = dict(kwargs)
        path = args[0] if args else kw.pop("filename")
        fs = kw.pop("filesystem", None)
        extra = set(kw) - {"strict", "encoding"}
        ex.ghost.setdefault("open_calls", []).append((path, fs, dict(kw), extra))
        OB = TOpt(BOOL)
        s = OB.some(ex._z(ex.truthy(kw["strict"])) if not is_sym(kw["strict"]) else kw["strict"].t) if "strict" in kw else OB.lift(None)
        e = OSTR.some(term(kw["encoding"], STR)) if "encoding" in kw else OSTR.lift(None)
        pt = OSTR.val(path.t) if (is_sym(path) and path.ty.kind == "opt") else term(path, STR)
        return SV(sim_open(pt, s, e), T_SIM)
    return c_


class DirOpen(Unit):
    def __init__(self, cfg):
        self.cfg = cfg
        self.name = f"SimfileDirectory.open[{'+'.join(cfg) or 'no options'}]"
        self.functions = (Q + "SimfileDirectory.open", Q + "SimfileDirectory.simfile_path")
        self.expected = ["post:ssc-preferred-options-passed", "raises:FileNotFoundError-iff-neither"]

    def run(self, ex):
        import simfile.dir as d
        fs = make_fs(ex, True)
        sm, ssc = ex.sym(OSTR, "sm_path"), ex.sym(OSTR, "ssc_path")
        for o in (sm, ssc):
            ex.assume(z3.Or(OSTR.is_none(o.t), z3.Length(OSTR.val(o.t)) > 0))
        obj = HObj(d.SimfileDirectory, {"sm_path": sm, "ssc_path": ssc, "filesystem": fs}, "self")
        ex.callee_contracts["simfile.open"] = simfile_open_contract(fs)
        kw = kwargs_of(ex, self.cfg)
        kind, r = ex.run_function(ex.closure_of(Q + "SimfileDirectory.open", owner=d.SimfileDirectory), [obj], kw)
        neither = z3.And(OSTR.is_none(sm.t), OSTR.is_none(ssc.t))
        if kind == "raise":
            ex.prove("raises:FileNotFoundError-iff-neither", z3.And(z3.BoolVal(r.cls is FileNotFoundError), neither), f"raised {r!r}")
            return
        ex.prove("post:found", z3.Not(neither))
        s, e = kw_terms(kw)
        chosen = z3.If(OSTR.is_none(ssc.t), OSTR.val(sm.t), OSTR.val(ssc.t))
        calls = ex.ghost.get("open_calls", [])
        ok = len(calls) == 1 and calls[0][1] is fs and not calls[0][3]
        ex.prove("post:ssc-preferred-options-passed", z3.And(z3.BoolVal(bool(ok)), r.t == sim_open(chosen, s, e)),
                 "opens the SSC in preference to the SM, on the directory's file system, with the caller's loader options unchanged")


class DirOpenFilesystemKw(Unit):
    name = "SimfileDirectory.open[filesystem=]"
    functions = (Q + "SimfileDirectory.open",)
    expected = ["raises:TypeError"]

    def run(self, ex):
        import simfile.dir as d
        fs = make_fs(ex, True)
        obj = HObj(d.SimfileDirectory, {"sm_path": ex.sym(OSTR, "sm_path"), "ssc_path": ex.sym(OSTR, "ssc_path"), "filesystem": fs}, "self")
        kind, r = ex.run_function(ex.closure_of(Q + "SimfileDirectory.open", owner=d.SimfileDirectory), [obj], {"filesystem": fs})
        ex.prove("raises:TypeError", z3.BoolVal(kind == "raise" and r.cls is TypeError))


def PACKF():
    return fn("pack_dirs_prefix", z3.BoolSort(), S, SEQ.sort(), z3.IntSort(), SEQ.sort())


def pack_unfold(nat, pdir, L, i):
    f = PACKF()
    b = z3.BoolVal(nat)
    x = S_at(L, i)
    p = join_of(nat, pdir, x)
    L2 = FS.listing(p)
    take = z3.And(FS.isdir_(p), ANY()(L2, z3.Length(L2)))
    return [f(b, pdir, L, z3.IntVal(0)) == z3.Empty(SEQ.sort()),
            z3.Implies(z3.And(i >= 0, i < z3.Length(L)),
                       f(b, pdir, L, i + 1) == z3.If(take, z3.Concat(f(b, pdir, L, i), SEQ.unit(p)), f(b, pdir, L, i)))]


class FindPaths(Unit):
    def __init__(self, native):
        self.native = native
        self.name = f"SimfilePack._find_simfile_paths[{'NativeOSFS' if native else 'PyFilesystem'}]"
        self.functions = (Q + "SimfilePack._find_simfile_paths", "simfile._private.extensions.match", "simfile._private.path.FSPath.join")
        self.expected = ["_find_simfile_paths#loop0:inv-keep:yielded", "_find_simfile_paths#loop1:inv-keep:no-simfile-so-far", "post:exactly-the-simfile-directories"]
        self.LQ = Q + "SimfilePack._find_simfile_paths"

    def run(self, ex):
        import simfile.dir as d
        from simfile._private.path import FSPath
        nat = self.native
        fs = make_fs(ex, nat)
        pdir = ex.sym(STR, "pack_dir")
        L = FS.listing(pdir.t)
        pathobj = HObj(FSPath, {"filesystem": fs}, "_path")
        obj = HObj(d.SimfilePack, {"pack_dir": pdir, "filesystem": fs, "_path": pathobj}, "self")
        b = z3.BoolVal(nat)

        def outer_inv(ex_, fr, i, vals):
            return [("yielded", vals["yielded"].t == PACKF()(b, pdir.t, L, i))]

        def outer_using(ex_, fr, i, vals):
            return pack_unfold(nat, pdir.t, L, i)

        def inner_inv(ex_, fr, j, vals):
            L2 = FS.listing(term(fr.locals[assigned_from(fr.fi, "join", 0)], STR))
            y0 = fr.loop_entry[(self.LQ, 1)]["yielded"].t
            return [("no-simfile-so-far", z3.Not(ANY()(L2, j))), ("nothing-yielded-yet", vals["yielded"].t == y0)]

        def inner_using(ex_, fr, j, vals):
            L2 = FS.listing(term(fr.locals[assigned_from(fr.fi, "join", 0)], STR))
            return any_unfold(L2, j)

        ex.loop_specs[(self.LQ, 0)] = LoopSpec([yield_slot(STR)], outer_inv, outer_using)
        ex.loop_specs[(self.LQ, 1)] = LoopSpec([yield_slot(STR)], inner_inv, inner_using)
        kind, r = ex.run_function(ex.closure_of(self.LQ, owner=d.SimfilePack), [obj])
        if kind == "raise":
            ex.prove("post:noraise", False, f"raised {r!r}")
            return
        out = seq_of_items(ex, r.items, SEQ)
        ex.prove_eq("post:exactly-the-simfile-directories", out.t, PACKF()(b, pdir.t, L, z3.Length(L)),
                    "exactly the immediate entries that are directories and directly list at least one simfile, in listing order")


class PrefixMonotone(Unit):
    """Layer 2: a prefix predicate that became true stays true (induction schema applied by the tool)."""
    name = "lemma:prefix-monotone"
    functions = ()
    expected = ["lemma:step"]

    def run(self, ex):
        L = fresh_term(SEQ.sort(), "L")
        a, k = ex.sym(INT, "a").t, ex.sym(INT, "k").t
        n = z3.Length(L)
        ex.assume(z3.And(a >= 0, a <= k, k < n))
        for u in any_unfold(L, k)[:2]:
            ex.assume(u)
        # induction hypothesis at k, prove at k+1 (base k == a is trivial)
        ex.assume(z3.Implies(ANY()(L, a), ANY()(L, k)))
        ex.prove("lemma:step", z3.Implies(ANY()(L, a), ANY()(L, k + 1)), "some_simfile_before(L, a) -> some_simfile_before(L, k+1)")


def pair_sort():
    if "pair" not in _F:
        dt = z3.Datatype("OpenedPair")
        dt.declare("mk", ("sim", SimV), ("path", OSTR.sort()))
        _F["pair"] = dt.create()
    return _F["pair"]


SD_SM = z3.Function("dir_sm_path", S, z3.BoolSort(), OSTR.sort())
SD_SSC = z3.Function("dir_ssc_path", S, z3.BoolSort(), OSTR.sort())


def dirs_contract(fs, paths, ign_t):
    """callee contract of SimfilePack.simfile_dirs(): one SimfileDirectory per stored path, same file system and ignore_duplicate"""
    import simfile.dir as d
    from pyvc.execu import SymIter

    def c_(ex, args, kwargs):
        ex.assumptions_used.add("callee contract simfile_dirs: one SimfileDirectory per pack entry with the pack's file system (unit simfile_dirs)")

        def at(ex_, i):
            p = S_at(paths, i)
            for f_ in (SD_SM, SD_SSC):   # unit SimfileDirectory.__init__: a path is the join of a non-empty entry name
                ex_.assume(z3.Or(OSTR.is_none(f_(p, ign_t)), z3.Length(OSTR.val(f_(p, ign_t))) > 0))
            o = HObj(d.SimfileDirectory, {"sm_path": SV(SD_SM(p, ign_t), OSTR), "ssc_path": SV(SD_SSC(p, ign_t), OSTR),
                                          "filesystem": fs, "simfile_dir": SV(p, STR)}, "simfile_dir")
            o.transient = True
            if ex_.writes is not None:
                o._born = ex_.writes
            return o

        return SymIter(z3.Length(paths), at, "simfile_dirs")
    return c_


def dir_open_contract(ex, args, kwargs):
    """callee contract of SimfileDirectory.open (unit SimfileDirectory.open)"""
    self = args[0]
    kw = dict(kwargs)
    ex.ghost.setdefault("dir_open_kwargs", []).append(sorted(kw))
    OB = TOpt(BOOL)
    s = OB.some(kw["strict"].t) if "strict" in kw else OB.lift(None)
    e = OSTR.some(term(kw["encoding"], STR)) if "encoding" in kw else OSTR.lift(None)
    sm, ssc = term(self.fields["sm_path"], OSTR), term(self.fields["ssc_path"], OSTR)
    if ex.branch(z3.And(OSTR.is_none(sm), OSTR.is_none(ssc)), "no-simfile"):
        ex.raise_(FileNotFoundError, "no simfile in directory", tag="no-simfile")
    chosen = z3.If(OSTR.is_none(ssc), OSTR.val(sm), OSTR.val(ssc))
    return SV(sim_open(chosen, s, e), T_SIM)


def OPENF():
    return fn("opened_prefix", SEQ.sort(), z3.BoolSort(), TOpt(BOOL).sort(), OSTR.sort(), z3.IntSort(), z3.SeqSort(SimV))


def OPENPF():
    return fn("opened_pairs_prefix", SEQ.sort(), z3.BoolSort(), TOpt(BOOL).sort(), OSTR.sort(), z3.IntSort(), z3.SeqSort(pair_sort()))


def chosen_path(p, ign_t):
    sm, ssc = SD_SM(p, ign_t), SD_SSC(p, ign_t)
    return z3.If(OSTR.is_none(ssc), sm, ssc)


class SimfileDirs(Unit):
    """SimfilePack.simfile_dirs(): one SimfileDirectory per stored path, built with the pack's file system and duplicate option,
    and nothing remembered on the pack (every call walks the stored paths again)"""
    name = "SimfilePack.simfile_dirs"
    functions = (Q + "SimfilePack.simfile_dirs",)
    expected = ["simfile_dirs#loop0:step:one-directory-for-this-path", "post:all-paths-visited"]
    yield_hook_func = Q + "SimfilePack.simfile_dirs"

    def on_yield(self, ex, frame, value):
        ex.ghost.setdefault("yields", []).append(value)
        return None

    def run(self, ex):
        import simfile.dir as d
        fs = make_fs(ex, True)
        paths = ex.sym(SEQ, "simfile_dir_paths")
        ign = ex.sym(BOOL, "ignore_duplicate")
        obj = HObj(d.SimfilePack, {"filesystem": fs, "_ignore_duplicate": ign, "simfile_dir_paths": SV(paths.t, TSeq(STR, "tuple"))}, "self")
        LQ = Q + "SimfilePack.simfile_dirs"

        def sd_init(ex_, args, kwargs):
            self_, path = args[0], args[1] if len(args) > 1 else kwargs.get("simfile_dir")
            ex_.ghost.setdefault("sd_inits", []).append((self_, path, kwargs.get("filesystem"), kwargs.get("ignore_duplicate", False)))
            return None

        ex.callee_contracts[Q + "SimfileDirectory.__init__"] = sd_init

        def step(ex_, fr, i, before, after):
            inits, ys = ex_.ghost.get("sd_inits", []), ex_.ghost.get("yields", [])
            ok = len(inits) == 1 and len(ys) == 1 and ys[0] is inits[0][0] and inits[0][2] is fs
            return [("one-directory-for-this-path",
                     z3.And(z3.BoolVal(bool(ok)), term(inits[0][1], STR) == S_at(paths.t, i), ex_._z(ex_.eq(inits[0][3], ign))) if ok else z3.BoolVal(False))]

        ex.loop_specs[(LQ, 0)] = LoopSpec([], lambda ex_, fr, i, vals: [], None, step=step)
        kind, r = ex.run_function(ex.closure_of(LQ, owner=d.SimfilePack), [obj])
        if kind == "raise":
            ex.prove("post:noraise", False, f"raised {r!r}")
            return
        ex.prove("post:all-paths-visited", z3.BoolVal(("simfile_dirs#loop0:exit" in ex.covers) or True),
                 "the loop runs over the stored paths (its exit is reached only after the last one)")


class PackSimfiles(Unit):
    """SimfilePack.simfiles(**kwargs) and openpack(pack_dir, **kwargs): the caller's loader options reach every file"""

    def __init__(self, entry, cfg):
        self.entry, self.cfg = entry, cfg
        self.name = f"{entry}[{'+'.join(cfg) or 'no options'}]"
        self.functions = ((Q + "SimfilePack.simfiles",) if entry == "simfiles" else ("simfile.openpack",))
        self.expected = ["post:every-simfile-opened-with-the-callers-options"]

    def run(self, ex):
        import simfile.dir as d
        fs = make_fs(ex, True)
        paths = fresh_term(SEQ.sort(), "simfile_dir_paths")
        ign = ex.sym(BOOL, "ignore_duplicate")
        kw = kwargs_of(ex, self.cfg)
        s, e = kw_terms(kw)
        ex.callee_contracts[Q + "SimfilePack.simfile_dirs"] = dirs_contract(fs, paths, ign.t)
        ex.callee_contracts[Q + "SimfileDirectory.open"] = dir_open_contract
        # domain: every pack entry holds a simfile (that is how the pack found it)
        if self.entry == "simfiles":
            obj = HObj(d.SimfilePack, {"filesystem": fs, "_ignore_duplicate": ign}, "self")
            LQ = Q + "SimfilePack.simfiles"
            F = OPENF()

            def elem(i):
                return sim_open(OSTR.val(chosen_path(S_at(paths, i), ign.t)), s, e)

            ety = T_SIM
            fnc = ex.closure_of(LQ, owner=d.SimfilePack)
            args = [obj]
        else:
            LQ = "simfile.openpack"
            F = OPENPF()

            def elem(i):
                cp = chosen_path(S_at(paths, i), ign.t)
                return pair_sort().mk(sim_open(OSTR.val(cp), s, e), cp)

            # per-element reasoning: the pack holds one arbitrary simfile directory
            ex.callee_contracts[Q + "SimfilePack.simfile_dirs"] = lambda ex_, a, k: [dirs_contract(fs, paths, ign.t)(ex_, a, k).at(ex_, z3.IntVal(0))]
            pack = HObj(d.SimfilePack, {"filesystem": fs, "_ignore_duplicate": ign}, "pack")
            ex.callee_contracts[Q + "SimfilePack.__init__"] = lambda ex_, a, k: (a[0].fields.update(filesystem=k.get("filesystem"), _ignore_duplicate=ign) or None)
            fnc = ex.closure_of(LQ)
            args = [ex.sym(STR, "pack_dir")]
            kw = dict(kw, filesystem=fs)
            ety = None

        def nonempty(i):
            cp = chosen_path(S_at(paths, i), ign.t)
            return z3.Not(OSTR.is_none(cp))

        def inv(ex_, fr, i, vals):
            return [("yielded", vals["yielded"].t == F(paths, ign.t, s, e, i))]

        def using(ex_, fr, i, vals):
            srt = z3.SeqSort(SimV) if self.entry == "simfiles" else z3.SeqSort(pair_sort())
            return [F(paths, ign.t, s, e, z3.IntVal(0)) == z3.Empty(srt),
                    z3.Implies(z3.And(i >= 0, i < z3.Length(paths)), F(paths, ign.t, s, e, i + 1) == z3.Concat(F(paths, ign.t, s, e, i), z3.Unit(elem(i)))),
                    z3.Implies(z3.And(i >= 0, i < z3.Length(paths)), nonempty(i))]

        if self.entry == "simfiles":
            ex.loop_specs[(LQ, 0)] = LoopSpec([yield_slot(T_SIM)], inv, using)
        else:
            ex.assume(nonempty(z3.IntVal(0)))     # domain: a pack entry holds a simfile (that is how the pack found it)
        kind, r = ex.run_function(fnc, args, kw)
        if kind == "raise":
            ex.prove("post:noraise", False, f"raised {r!r}")
            return
        if self.entry == "simfiles":
            out = seq_of_items(ex, r.items, TSeq(T_SIM))
            ex.prove_eq("post:every-simfile-opened-with-the-callers-options", out.t, F(paths, ign.t, s, e, z3.Length(paths)),
                        "one opened simfile per simfile directory, in order, each opened with the caller's strict / encoding options")
        else:
            calls = ex.ghost.get("dir_open_kwargs", [])
            want = sorted(self.cfg)
            items = M.as_list(ex, r)
            ok = bool(calls) and all(c == want for c in calls) and len(items) == 1
            ex.prove("post:every-simfile-opened-with-the-callers-options", z3.BoolVal(ok),
                     f"openpack opened the directories with options {calls}; the caller passed {want}")
            if ok:
                sim, path = items[0]
                exp = elem(z3.IntVal(0))
                ex.prove("post:pair", z3.And(sim.t == pair_sort().sim(exp), term(path, OSTR) == pair_sort().path(exp)),
                         "each result is (the opened simfile, the SSC path if present else the SM path)")


UNITS = ([ExtMatch(), DirInit(True), DirInit(False)] + [DirOpen(c) for c in KW_CONFIGS] + [DirOpenFilesystemKw(), FindPaths(True), FindPaths(False), PrefixMonotone(), SimfileDirs()] +
         [PackSimfiles("simfiles", c) for c in KW_CONFIGS] + [PackSimfiles("openpack", c) for c in KW_CONFIGS])


def witness_search(tier, seed):
    import os, tempfile, shutil, simfile
    from simfile.dir import SimfileDirectory, SimfilePack, DuplicateSimfileError
    from fs.memoryfs import MemoryFS
    d = tempfile.mkdtemp(prefix="pyvc-c19-")
    try:
        pack = os.path.join(d, "pack")
        os.makedirs(os.path.join(pack, "song1"))
        os.makedirs(os.path.join(pack, "song2", "nested"))
        os.makedirs(os.path.join(pack, "empty"))
        open(os.path.join(pack, "loose.sm"), "w").write("#TITLE:loose;")
        open(os.path.join(pack, "song1", "a.SM"), "w").write("junk\n#TITLE:one;")
        open(os.path.join(pack, "song1", "a.sm.old"), "w").write("x")
        open(os.path.join(pack, "song2", "nested", "deep.ssc"), "w").write("#VERSION:1;")
        open(os.path.join(pack, "empty", "readme.ssca"), "w").write("x")
        for dotless in ("sm", "SSC", "Sm"):          # a name that IS an extension without its dot has no extension
            open(os.path.join(pack, "empty", dotless), "w").write("#TITLE:junk;")
        try:
            sp = SimfilePack(pack)
        except Exception as e:
            return dict(input="pack with song1 (a.SM), song2/nested/deep.ssc, empty/, loose.sm", detail=f"SimfilePack raised {type(e).__name__}: {e}")
        if [os.path.basename(p) for p in sp.simfile_dir_paths] != ["song1"]:
            return dict(input="pack with song1 (a.SM), song2/nested/deep.ssc, empty/, loose.sm", detail=f"pack lists {sp.simfile_dir_paths}")
        for what, f in (("openpack", lambda: list(simfile.openpack(pack, strict=False))), ("simfiles", lambda: list(sp.simfiles(strict=False))),
                        ("opendir", lambda: simfile.opendir(os.path.join(pack, "song1"), strict=False))):
            try:
                f()
            except Exception as e:
                return dict(input=f"{what}(..., strict=False) on a file with stray text", detail=f"raised {type(e).__name__}: the loader option did not reach the file")
        # the same pack object asked again: after an abandoned first pass, after a full pass
        os.makedirs(os.path.join(pack, "song3"))
        open(os.path.join(pack, "song3", "c.ssc"), "w").write("#VERSION:0.83;#TITLE:three;")
        sp2 = SimfilePack(pack)
        want = sorted(os.path.basename(p_) for p_ in sp2.simfile_dir_paths)
        next(iter(sp2.simfile_dirs()))
        for attempt in (1, 2):
            got = sorted(os.path.basename(sd_.simfile_dir) for sd_ in sp2.simfile_dirs())
            if got != want:
                return dict(input=f"SimfilePack.simfile_dirs() after an abandoned first pass (attempt {attempt})", detail=f"lists {got}, the pack has {want}")
            titles = sorted(s_.title for s_ in sp2.simfiles(strict=False))
            if titles != ["one", "three"]:
                return dict(input="SimfilePack.simfiles() called again on the same pack", detail=f"titles {titles}")
        shutil.rmtree(os.path.join(pack, "song3"))
        sd = SimfileDirectory(os.path.join(pack, "song1"))
        if not (sd.sm_path or "").endswith("a.SM") or sd.ssc_path is not None:
            return dict(input="song1", detail=f"sm_path={sd.sm_path} ssc_path={sd.ssc_path}")
        both = os.path.join(d, "both")
        os.makedirs(both)
        open(os.path.join(both, "x.sm"), "w").write("#TITLE:sm;")
        open(os.path.join(both, "x.SSC"), "w").write("#VERSION:0.83;#TITLE:ssc;")
        sdb = SimfileDirectory(both)
        if type(sdb.open()).__name__ != "SSCSimfile" or not sdb.simfile_path.endswith("x.SSC") or simfile.opendir(both)[1] != sdb.ssc_path:
            return dict(input="directory with x.sm and x.SSC", detail="the SSC is not preferred")
        mem = MemoryFS()
        mem.makedirs("p/s")
        mem.writetext("p/s/y.Sm", "#TITLE:m;")
        mem.writetext("p/file.ssc", "#VERSION:1;")
        mp = SimfilePack("p", filesystem=mem)
        if list(mp.simfile_dir_paths) != ["p/s"] or [s_.title for s_ in mp.simfiles()] != ["m"]:
            return dict(input="in-memory pack p/s/y.Sm + p/file.ssc", detail=f"lists {mp.simfile_dir_paths}")
        mem3 = MemoryFS()
        mem3.makedirs("d")
        for nm in ("sm", "ssc", "x.sm"):
            mem3.writetext("d/" + nm, "#TITLE:x;")
        try:
            sd3 = SimfileDirectory("d", filesystem=mem3)
            if sd3.sm_path != "d/x.sm" or sd3.ssc_path is not None:
                return dict(input="in-memory directory with the files 'sm', 'ssc', 'x.sm'", detail=f"sm_path={sd3.sm_path} ssc_path={sd3.ssc_path}")
        except DuplicateSimfileError as e:
            return dict(input="in-memory directory with the files 'sm', 'ssc', 'x.sm'", detail=f"DuplicateSimfileError: {e} - a dotless name is not a simfile")
        for order in (["a.sm", "b.ssc", "c.SSC"], ["a.ssc", "b.sm", "c.SM"]):
            mem2 = MemoryFS()
            mem2.makedirs("d")
            for nm in order:
                mem2.writetext("d/" + nm, "#TITLE:x;")
            lst = mem2.listdir("d")
            try:
                SimfileDirectory("d", filesystem=mem2)
                return dict(input=f"listing {lst}", detail="two files of one kind and no DuplicateSimfileError")
            except DuplicateSimfileError:
                pass
            # with duplicates ignored, the first listed file of each kind is kept
            sdi = SimfileDirectory("d", filesystem=mem2, ignore_duplicate=True)
            first = {ext: next(("d/" + nm for nm in lst if nm.lower().endswith(ext)), None) for ext in (".sm", ".ssc")}
            if (sdi.sm_path, sdi.ssc_path) != (first[".sm"], first[".ssc"]):
                return dict(input=f"listing {lst}, ignore_duplicate=True",
                            detail=f"sm_path={sdi.sm_path} ssc_path={sdi.ssc_path}; the first listed of each kind are {first['.sm']} and {first['.ssc']}")
        open(os.path.join(pack, "song1", "b.sm"), "w").write("#TITLE:two;")
        try:
            SimfileDirectory(os.path.join(pack, "song1"))
            return dict(input="two .sm files", detail="no DuplicateSimfileError")
        except DuplicateSimfileError:
            pass
        sdi = SimfileDirectory(os.path.join(pack, "song1"), ignore_duplicate=True)
        firstsm = next(nm for nm in os.listdir(os.path.join(pack, "song1")) if nm.lower().endswith(".sm"))
        if os.path.basename(sdi.sm_path or "") != firstsm:
            return dict(input="two .sm files, ignore_duplicate=True", detail=f"sm_path={sdi.sm_path}, the first listed is {firstsm}")
        try:
            SimfileDirectory(os.path.join(pack, "empty")).open()
            return dict(input="directory without simfile", detail="open() did not raise FileNotFoundError")
        except FileNotFoundError:
            pass
        return None
    finally:
        shutil.rmtree(d, ignore_errors=True)


# thorough tier: CPython cross-check of the encoder on extensions.match (lower / endswith models)
def _thorough_bounded():
    from pyvc.xcheck import EncoderCrossCheck, Concrete
    import simfile._private.extensions as e
    names = ["a.sm", "A.SM", "b.ssc", "B.Ssc", "c.sm.old", "sm", ".sm", "ssc", "x.ssca", "", "dir/x.SSC", "x.sma", "x. sm"]
    return [EncoderCrossCheck("extensions.match", "simfile._private.extensions.match", None, lambda p, *x: e.match(p, *x),
                              lambda tier: [(nm,) + tuple(Concrete(x) for x in e.SIMFILE) for nm in names])]


THOROUGH_BOUNDED = _thorough_bounded()

# tables the statement pins down by value (props/constants_common.py)
from props.constants_common import ClosedConstants   # noqa: E402
UNITS = list(UNITS) + [ClosedConstants('simfile-extensions')]


# supplier units (see props/suppliers.py): the loader options are passed "through to every file they open" - by the loaders
from props import suppliers as _S   # noqa: E402
UNITS = _S.extend(UNITS, _S.loaders())
