"""
Verification units for simfile.convert, shared by C16 (SM -> SSC) and C17 (SSC -> SM).
"""
from __future__ import annotations

import z3

from pyvc.prop import Unit
from pyvc.values import strval, SV, STR, OSTR, INT, BOOL, DEC, TSeq, TNT, term, is_sym, fresh, fresh_term
from pyvc import omap as O, models as M, stdmodels as SM, simobj as SO
from pyvc.execu import loop_targets, assigned_from, first_assigned, HObj, NTVal, PyRaise, LoopSpec, field_slot, local_slot
from contracts import convert as CV
from contracts import timing as T

Q = "simfile.convert."


def classes():
    import simfile.sm as sm, simfile.ssc as ssc
    return sm, ssc


def direction(d):
    sm, ssc = classes()
    if d == "sm2ssc":
        return dict(src_sim=sm.SMSimfile, src_chart=sm.SMChart, src_charts=sm.SMCharts,
                    tgt_sim=ssc.SSCSimfile, tgt_chart=ssc.SSCChart, tgt_charts=ssc.SSCCharts)
    return dict(src_sim=ssc.SSCSimfile, src_chart=ssc.SSCChart, src_charts=ssc.SSCCharts,
                tgt_sim=sm.SMSimfile, tgt_chart=sm.SMChart, tgt_charts=sm.SMCharts)


def in_six(k):
    return z3.Or([k == strval(c) for c in CV.SIX])


def invalid_member(target_cls, k):
    tbl = CV.invalid_table(target_cls)
    ps = [p for v in tbl.values() for p in v]
    return z3.Or([k == strval(p) for p in ps]) if ps else z3.BoolVal(False)


def item_domain(target_cls, k, v, beh):
    """domain of C17 for one source item (see the property's quantifier)"""
    cs = [M.str_upper(k) == k]                      # keys are upper-case strings
    cs.append(z3.Implies(invalid_member(target_cls, k), z3.Not(OSTR.is_none(v))))   # SSC-only properties hold strings
    if target_cls.__name__ == "SMChart":
        cp, rf = CV.decision(target_cls, k, v, beh)
        # known finding (excluded from the domain): copying a chart key the SM chart cannot hold ends in KeyError
        cs.append(z3.Implies(cp, in_six(k)))
    return z3.And(cs)


# ---------------------------------------------------------------------------


class ShouldCopy(Unit):
    def __init__(self, target_name):
        self.target_name = target_name
        self.name = f"_should_copy_property[{target_name}]"
        self.functions = (Q + "_should_copy_property",)
        self.expected = ["post:copy-iff-table", "raises:iff-refused"] if target_name.startswith("SM") else ["post:copy-iff-table"]

    def run(self, ex):
        sm, ssc = classes()
        c = CV.C()
        tgt = getattr(sm, self.target_name, None) or getattr(ssc, self.target_name)
        prop = ex.sym(STR, "property")
        val = ex.sym(OSTR, "value")
        beh = CV.sym_behaviors(ex)
        ex.assume(z3.Implies(invalid_member(tgt, prop.t), z3.Not(OSTR.is_none(val.t))))
        cp, rf = CV.decision(tgt, prop.t, val.t, beh)
        fn = ex.closure_of(Q + "_should_copy_property")
        kind, r = ex.run_function(fn, [prop, val, c.INVALID_PROPERTIES.get(tgt, {}), beh])
        if kind == "raise":
            ex.prove("raises:iff-refused", z3.And(z3.BoolVal(r.cls is c.InvalidPropertyException), rf),
                     f"raised {r!r}")
            if r.cls is c.InvalidPropertyException:
                msg = r.args[0]
                ex.prove("raises:names-the-property", z3.Contains(term(msg, STR), CV.py_repr(prop.t)))
        else:
            rt = ex._z(r.t if is_sym(r) else r)
            ex.prove("post:not-refused", z3.Not(rf), "a refused property must raise InvalidPropertyException")
            ex.prove("post:copy-iff-table", rt == cp)


def should_copy_contract(target_cls, beh):
    def c_(ex, args, kwargs):
        c = CV.C()
        prop, val = args[0], args[1]
        ex.assumptions_used.add("callee contract _should_copy_property: copy / skip / InvalidPropertyException per the behaviour table (proved in unit _should_copy_property)")
        cp, rf = CV.decision(target_cls, term(prop, STR), term(val, OSTR), beh)
        i = ex.choose([("refuse", rf), ("copy", z3.And(z3.Not(rf), cp)), ("skip", z3.And(z3.Not(rf), z3.Not(cp)))])
        if i == 0:
            ex.ghost["refused_prop"] = term(prop, STR)
            ex.raise_(c.InvalidPropertyException, M.str_concat(ex, ["cannot convert ", M.repr_(ex, prop)]), tag="refused")
        return i == 1
    return c_


class CopyProps(Unit):
    """_copy_properties: loop over the source items"""

    def __init__(self, d, level):
        self.d, self.level = d, level
        self.name = f"_copy_properties[{d}/{level}]"
        self.functions = (Q + "_copy_properties",) + (("simfile.sm.SMChart.__setitem__",) if (d == "ssc2sm" and level == "chart") else ())
        self.expected = ["_copy_properties#loop0:inv-keep:output", "post:output-is-fold"]

    def run(self, ex):
        D = direction(self.d)
        c = CV.C()
        src_cls = D["src_sim"] if self.level == "simfile" else D["src_chart"]
        tgt_cls = D["tgt_sim"] if self.level == "simfile" else D["tgt_chart"]
        src = O.new_map_obj(ex, src_cls, label="source")
        out = O.new_map_obj(ex, tgt_cls, label="output")
        ms, mo = O.map_of(src), O.map_of(out)
        beh = CV.sym_behaviors(ex) if self.d == "ssc2sm" else {}
        cfg = CV.Cfg(1, tgt_cls, beh)
        ex.callee_contracts[Q + "_should_copy_property"] = should_copy_contract(tgt_cls, beh)
        if tgt_cls.__name__ == "SMChart":
            kq = fresh_term(z3.StringSort(), "anykey")
            ex.assume(z3.Implies(O.om_has(mo, kq), in_six(kq)))

        def inv(ex_, fr, i, vals):
            return [("output", vals["output"].t == CV.COPYF()(mo, ms, cfg.id, i)),
                    ("none-refused-so-far", z3.Not(CV.REFB()(ms, cfg.id, i)))]

        def using(ex_, fr, i, vals):
            k, v = cfg.item(ms, i)
            return cfg.unfold(mo, ms, i) + [z3.Implies(z3.And(i >= 0, i < O.cnt_(ms)), item_domain(tgt_cls, k, v, beh))]

        slot = field_slot("output", lambda ex_, fr: fr.locals["output"], "__map__", O.T_OMAP)
        ex.loop_specs[(Q + "_copy_properties", 0)] = LoopSpec([slot], inv, using)
        fn = ex.closure_of(Q + "_copy_properties")
        kind, r = ex.run_function(fn, [], dict(source=src, output=out, output_type=tgt_cls, invalid_property_behaviors=beh))
        if kind == "raise":
            i = ex.ghost.get(("loop_i", (Q + "_copy_properties", 0)))
            ok = r.cls is c.InvalidPropertyException and i is not None
            if ok:
                k, v = cfg.item(ms, i)
                cp, rf = CV.decision(tgt_cls, k, v, beh)
                ex.prove("raises:first-refused-property", z3.And(rf, ex.ghost["refused_prop"] == k, z3.Not(CV.REFB()(ms, cfg.id, i))),
                         "InvalidPropertyException is raised for the first refused property in iteration order")
            else:
                ex.prove("raises:only-InvalidPropertyException", False, f"raised {r!r}")
            ex.prove("raises:source-untouched", O.map_of(src) == ms)
            return
        ex.prove("post:output-is-fold", O.map_of(out) == cfg.copyall(mo, ms), "every copied property set in order, nothing else changed")
        ex.prove("post:none-refused", z3.Not(cfg.refused(ms)))
        ex.prove("post:source-untouched", O.map_of(src) == ms)


def copy_props_contract(ex, args, kwargs):
    """callee contract of _copy_properties"""
    c = CV.C()
    src, out, tgt, beh = kwargs["source"], kwargs["output"], kwargs["output_type"], kwargs["invalid_property_behaviors"]
    ex.assumptions_used.add("callee contract _copy_properties: output := fold of the copied items, or InvalidPropertyException for the first refused item (proved in unit _copy_properties)")
    ms, mo = O.map_of(src), O.map_of(out)
    level = 1 if tgt.__name__.endswith("Simfile") else 2
    cfg = CV.Cfg(level, tgt, beh)
    # domain of the statement for every item of this source (the loop invariant instantiates it per item)
    ex.ghost.setdefault("copy_calls", []).append((cfg, mo, ms, out))
    if ex.branch(cfg.refused(ms), "some-refused"):
        ex.raise_(c.InvalidPropertyException, "cannot convert", tag="refused")
    ex.setfield(out, "__map__", SV(cfg.copyall(mo, ms), O.T_OMAP))
    return None


_ANYNEG = {}


def anyneg():
    if "f" not in _ANYNEG:
        _ANYNEG["f"] = z3.Function("any_negative_before", z3.SeqSort(T.BV_TY().sort()), z3.IntSort(), z3.BoolSort())
    return _ANYNEG["f"]


def anyneg_unfold(L, i):
    f = anyneg()
    return [f(L, z3.IntVal(0)) == z3.BoolVal(False),
            z3.Implies(z3.And(i >= 0, i < z3.Length(L)), f(L, i + 1) == z3.Or(f(L, i), T.BV_TY().acc(L[i], "value") < 0))]


def warps_refusal(d, ms):
    """when the statement demands NotImplementedError"""
    if d == "sm2ssc":
        bp = T.bv_parse(T.attr_value(ms, "BPMS"))
        st = T.bv_parse(T.attr_value(ms, "STOPS", "FREEZES"))
        return z3.Or(anyneg()(bp, z3.Length(bp)), anyneg()(st, z3.Length(st)))
    w = T.attr_value(ms, "WARPS")
    return T.nonempty(w)


class ConvertWarps(Unit):
    def __init__(self, d):
        self.d = d
        self.name = f"_convert_warps[{d}]"
        self.functions = (Q + "_convert_warps",)
        self.expected = ["post:no-refusal-condition", "raises:iff-warps"]

    def run(self, ex):
        D = direction(self.d)
        src = O.new_map_obj(ex, D["src_sim"], label="source")
        out = O.new_map_obj(ex, D["tgt_sim"], label="output")
        ms, mo = O.map_of(src), O.map_of(out)
        ex.callee_contracts["simfile.timing.BeatValues.from_str"] = T.beatvalues_from_str_contract
        if self.d == "sm2ssc":
            bps = T.attr_value(ms, "BPMS")
            sts = T.attr_value(ms, "STOPS", "FREEZES")
            ex.assume(z3.And(T.bv_ok(bps), T.bv_ok(sts)))       # well-formed timing strings (the property's domain)
            lists = [T.bv_parse(bps), T.bv_parse(sts)]

            def inv(ex_, fr, i, vals):
                L = fr.locals[loop_targets(fr.fi, 0)[0]].fields["data"].t
                return [("no-negative-so-far", z3.Not(anyneg()(L, i)))]

            def using(ex_, fr, i, vals):
                L = fr.locals[loop_targets(fr.fi, 0)[0]].fields["data"].t
                ex_.ghost["warps_L"] = L
                return anyneg_unfold(L, i)

            ex.loop_specs[(Q + "_convert_warps", 1)] = LoopSpec([], inv, using)
        fn = ex.closure_of(Q + "_convert_warps")
        kind, r = ex.run_function(fn, [], dict(source=src, output=out))
        cond = warps_refusal(self.d, ms)
        if kind == "raise":
            if self.d == "sm2ssc":
                i = ex.ghost.get(("loop_i", (Q + "_convert_warps", 1)))
                L = ex.ghost.get("warps_L")
                ok = r.cls is NotImplementedError and i is not None and L is not None
                ex.prove("raises:iff-warps",
                         z3.And(z3.BoolVal(bool(ok)), T.BV_TY().acc(L[i], "value") < 0, z3.Or(L == lists[0], L == lists[1])) if ok else z3.BoolVal(False),
                         f"raised {r!r}: must be NotImplementedError for a negative BPM or stop value")
            else:
                ex.prove("raises:iff-warps", z3.And(z3.BoolVal(r.cls is NotImplementedError), cond), f"raised {r!r}")
        else:
            ex.prove("post:no-refusal-condition", z3.Not(cond), "warp timing present but the conversion went ahead")
        ex.prove("post:frame", z3.And(O.map_of(src) == ms, O.map_of(out) == mo))


def convert_warps_contract(d):
    def c_(ex, args, kwargs):
        src = kwargs["source"]
        ex.assumptions_used.add("callee contract _convert_warps: NotImplementedError iff warp timing is present (proved in unit _convert_warps)")
        if ex.branch(warps_refusal(d, O.map_of(src)), "warps"):
            ex.raise_(NotImplementedError, "Warp timing can't be converted yet", tag="warps")
        return None
    return c_


_CONV = {}


def CONVF():
    if "f" not in _CONV:
        _CONV["f"] = z3.Function("converted_charts_prefix", z3.SeqSort(SO.ChartSort), z3.IntSort(), z3.SeqSort(SO.ChartSort))
        _CONV["r"] = z3.Function("chart_refused_before", z3.SeqSort(SO.ChartSort), z3.IntSort(), z3.BoolSort())
    return _CONV["f"]


def CREFB():
    CONVF()
    return _CONV["r"]


class Convert(Unit):
    """_convert for one direction and one template configuration"""

    def __init__(self, d, sim_tmpl, chart_tmpl):
        self.d, self.sim_tmpl, self.chart_tmpl = d, sim_tmpl, chart_tmpl
        self.name = f"_convert[{d}/{'T' if sim_tmpl else 'blank'}/{'T' if chart_tmpl else 'blank'}]"
        self.functions = (Q + "_convert",)
        self.expected = ["_convert#loop0:inv-keep:charts", "post:properties", "post:charts", "post:frame"]

    def run(self, ex):
        D = direction(self.d)
        c = CV.C()
        d = self.d
        src = SO.new_simfile(ex, D["src_sim"], D["src_charts"], D["src_chart"], "source")
        ms = O.map_of(src)
        src_charts = SO.charts_term(src, D["src_chart"])
        beh = CV.sym_behaviors(ex) if d == "ssc2sm" else {}
        SO.install_blanks(ex)
        ex.callee_contracts[Q + "_copy_properties"] = copy_props_contract
        ex.callee_contracts[Q + "_convert_warps"] = convert_warps_contract(d)
        st = ct = None
        if self.sim_tmpl:
            st = SO.new_simfile(ex, D["tgt_sim"], D["tgt_charts"], D["tgt_chart"], "simfile_template")
            ex.assume(O.cnt_(O.map_of(st)) > 0)       # domain: a template simfile carries properties
        if self.chart_tmpl:
            ct = O.new_map_obj(ex, D["tgt_chart"], label="chart_template")
            if D["tgt_chart"].__name__ == "SMChart":
                ct.fields["extradata"] = None
            ex.assume(O.cnt_(O.map_of(ct)) > 0)       # domain: template charts contain their note data
        st0 = (O.map_of(st), SO.charts_term(st, D["tgt_chart"])) if st else None
        ct0 = SO.chart_value(ct) if ct else None
        blank_sim = SO.import_real(ex, D["tgt_sim"].blank())
        blank_chart = SO.import_real(ex, D["tgt_chart"].blank())
        T_map = st0[0] if st else O.map_of(blank_sim)
        T_charts = st0[1] if st else SO.charts_term(blank_sim, D["tgt_chart"])
        TC = ct0 if ct else SO.chart_value(blank_chart)
        cfg1 = CV.Cfg(1, D["tgt_sim"], beh)
        cfg2 = CV.Cfg(2, D["tgt_chart"], beh)

        def conv_chart(cv):
            return SO.ChartSort.mk(cfg2.copyall(SO.cmap(TC), SO.cmap(cv)), SO.cextra(TC))

        def unfold(i):
            f, r = CONVF(), CREFB()
            e = z3.Empty(z3.SeqSort(SO.ChartSort))
            return [f(src_charts, z3.IntVal(0)) == e, r(src_charts, z3.IntVal(0)) == z3.BoolVal(False),
                    z3.Implies(z3.And(i >= 0, i < z3.Length(src_charts)),
                               f(src_charts, i + 1) == z3.Concat(f(src_charts, i), z3.Unit(conv_chart(src_charts[i])))),
                    z3.Implies(z3.And(i >= 0, i < z3.Length(src_charts)),
                               r(src_charts, i + 1) == z3.Or(r(src_charts, i), cfg2.refused(SO.cmap(src_charts[i]))))]

        def inv(ex_, fr, i, vals):
            return [("charts", vals["charts"].t == z3.Concat(T_charts, CONVF()(src_charts, i))),
                    ("no-chart-refused-so-far", z3.Not(CREFB()(src_charts, i)))]

        def using(ex_, fr, i, vals):
            return unfold(i)

        slot = field_slot("charts", lambda ex_, fr: fr.locals[first_assigned(fr.fi, 0)].fields["_charts"], "data", TSeq(SO.TChart(D["tgt_chart"])))
        ex.loop_specs[(Q + "_convert", 0)] = LoopSpec([slot], inv, using)
        fn = ex.closure_of(Q + "_convert")
        kind, r = ex.run_function(fn, [], dict(simfile=src, output_simfile_type=D["tgt_sim"], output_chart_type=D["tgt_chart"],
                                               simfile_template=st, chart_template=ct, invalid_property_behaviors=beh))
        warps = warps_refusal(d, ms)
        # frame: source and templates are never modified
        frame = [O.map_of(src) == ms, SO.charts_term(src, D["src_chart"]) == src_charts]
        if st:
            frame += [O.map_of(st) == st0[0], SO.charts_term(st, D["tgt_chart"]) == st0[1]]
        if ct:
            frame += [SO.chart_value(ct) == ct0]
        ex.prove("post:frame", z3.And(frame), "the source and any supplied templates are left unmodified")
        if kind == "raise":
            if r.cls is NotImplementedError:
                ex.prove("raises:NotImplementedError-iff-warps", warps)
            elif r.cls is c.InvalidPropertyException:
                i = ex.ghost.get(("loop_i", (Q + "_convert", 0)))
                if i is None:
                    ex.prove("raises:first-offender-simfile", z3.And(z3.Not(warps), cfg1.refused(ms)))
                else:
                    ex.prove("raises:first-offender-chart",
                             z3.And(z3.Not(warps), z3.Not(cfg1.refused(ms)), z3.Not(CREFB()(src_charts, i)), cfg2.refused(SO.cmap(src_charts[i]))))
            else:
                ex.prove("raises:only-documented-exceptions", False, f"raised {r!r}")
            return
        ex.prove("post:no-refusal", z3.And(z3.Not(warps), z3.Not(cfg1.refused(ms)), z3.Not(CREFB()(src_charts, z3.Length(src_charts)))))
        ex.prove("post:result-type-and-fresh", z3.BoolVal(isinstance(r, HObj) and r.cls is D["tgt_sim"] and r is not st and r is not src))
        ex.prove("post:properties", O.map_of(r) == cfg1.copyall(T_map, ms),
                 "template (or blank) overlaid with every copied source property, in order")
        ex.prove_eq("post:charts", SO.charts_term(r, D["tgt_chart"]), z3.Concat(T_charts, CONVF()(src_charts, z3.Length(src_charts))),
                    "the template's charts, then one converted chart per source chart in order")


class Wrapper(Unit):
    """sm_to_ssc / ssc_to_sm pass their arguments to _convert unchanged"""

    def __init__(self, d):
        self.d = d
        self.fname = "sm_to_ssc" if d == "sm2ssc" else "ssc_to_sm"
        self.name = self.fname
        self.functions = (Q + self.fname,)
        self.expected = ["post:delegates"]

    def run(self, ex):
        D = direction(self.d)
        src = SO.new_simfile(ex, D["src_sim"], D["src_charts"], D["src_chart"], "source")
        st = SO.new_simfile(ex, D["tgt_sim"], D["tgt_charts"], D["tgt_chart"], "simfile_template")
        ct = O.new_map_obj(ex, D["tgt_chart"], label="chart_template")
        beh = CV.sym_behaviors(ex) if self.d == "ssc2sm" else {}
        seen = {}
        token = HObj(D["tgt_sim"], {}, "result")

        def conv(ex_, args, kwargs):
            seen.update(kwargs)
            seen["__args__"] = list(args)
            return token

        ex.callee_contracts[Q + "_convert"] = conv
        fn = ex.closure_of(Q + self.fname)
        kw = dict(simfile_template=st, chart_template=ct)
        if self.d == "ssc2sm":
            kw["invalid_property_behaviors"] = beh
        kind, r = ex.run_function(fn, [src], kw)
        ok = (kind == "return" and r is token and not seen.get("__args__") and seen.get("simfile") is src
              and seen.get("output_simfile_type") is D["tgt_sim"] and seen.get("output_chart_type") is D["tgt_chart"]
              and seen.get("simfile_template") is st and seen.get("chart_template") is ct
              and (seen.get("invalid_property_behaviors") is beh if self.d == "ssc2sm" else seen.get("invalid_property_behaviors") == {}))
        ex.prove("post:delegates", z3.BoolVal(bool(ok)), f"_convert received {sorted(seen)}")


def units_for(d):
    us = []
    if d == "ssc2sm":
        us += [ShouldCopy("SMSimfile"), ShouldCopy("SMChart")]
    else:
        us += [ShouldCopy("SSCSimfile"), ShouldCopy("SSCChart")]
    us += [CopyProps(d, "simfile"), CopyProps(d, "chart"), ConvertWarps(d)]
    us += [Convert(d, a, b) for a in (False, True) for b in (False, True)]
    us += [Wrapper(d)]
    return us
