"""
Closed obligations on module-level tables that a statement pins down by value: the specification uses the STATED value,
never the one read from the module, and a closed term compares the two - a changed table fails here by name.
"""
from __future__ import annotations

import z3

from pyvc.prop import Unit

STATED_ENCODINGS = ["utf-8", "cp1252", "cp932", "cp949"]
STATED_SM_CHART_FIELDS = ("STEPSTYPE", "DESCRIPTION", "DIFFICULTY", "METER", "RADARVALUES", "NOTES")
STATED_SIMFILE_EXTENSIONS = {".sm", ".ssc"}
STATED_IMAGE_PRIORITY = (".png", ".jpg", ".jpeg", ".gif", ".bmp")
STATED_AUDIO_EXTENSIONS = {".mp3", ".oga", ".ogg", ".wav"}
STATED_MULTI_VALUE = {"ATTACKS", "DISPLAYBPM"}
STATED_CHART_TIMING = ("BPMS", "STOPS", "DELAYS", "TIMESIGNATURES", "TICKCOUNTS", "COMBOS", "WARPS", "SPEEDS", "SCROLLS", "FAKES", "LABELS")


def _encodings():
    import simfile
    return [e.lower().replace("_", "-") for e in simfile.ENCODINGS], STATED_ENCODINGS


def _six():
    import simfile.sm as sm
    return tuple(sm.SM_CHART_PROPERTIES), STATED_SM_CHART_FIELDS


def _simfile_ext():
    import simfile._private.extensions as e
    return set(e.SIMFILE), STATED_SIMFILE_EXTENSIONS


def _image():
    import simfile._private.extensions as e
    return tuple(e.IMAGE), STATED_IMAGE_PRIORITY


def _audio():
    import simfile._private.extensions as e
    return set(e.AUDIO), STATED_AUDIO_EXTENSIONS


def _multi():
    from simfile.base import BaseSimfile
    return set(BaseSimfile.MULTI_VALUE_PROPERTIES), STATED_MULTI_VALUE


def _chart_timing():
    """the keys whose presence (non-empty) in an SSC chart makes the chart its own timing source: as a set - the order of
    the table is not observable - and whether the table holds the descriptors (pinned tree) or the key names themselves"""
    import simfile.timing._private.timingsource as t
    import props.C18 as c18
    from simfile.ssc import SSCChart
    decl = {a: n for a, n, _ in c18.declarations(SSCChart)}
    names = set()
    for p in t.CHART_TIMING_PROPERTIES:
        if isinstance(p, str):
            names.add(p)
            continue
        attr = next((a for k in SSCChart.__mro__ for a, v in k.__dict__.items() if v is p), None)
        if attr is None or attr not in decl:
            raise TableNotReadable(f"an entry of CHART_TIMING_PROPERTIES ({p!r}) is neither a key nor an item_property of SSCChart")
        names.add(decl[attr])
    return names, set(STATED_CHART_TIMING)


class TableNotReadable(Exception):
    pass


STATED_ALIASES = {"SMSimfile": {("stops", "STOPS", "FREEZES"), ("bgchanges", "BGCHANGES", "ANIMATIONS")},
                  "SSCSimfile": {("bgchanges", "BGCHANGES", "ANIMATIONS")},
                  "SSCChart": {("notes", "NOTES", "NOTES2")},
                  "SMChart": set()}


def _aliases():
    import props.C18 as c18
    got = {}
    for cls in c18._classes():
        got[cls.__name__] = {d for d in c18.declarations(cls) if d[2]}
    return got, STATED_ALIASES


def _group_default():
    import inspect
    import simfile.notes as n
    from simfile.notes.group import group_notes
    d = inspect.signature(group_notes).parameters["include_note_types"].default
    return frozenset(d), frozenset(n.NoteType)


def _count_default():
    import simfile.notes as n
    import simfile.notes.count as c
    T = n.NoteType
    return frozenset(c.DEFAULT_NOTE_TYPES), frozenset((T.TAP, T.HOLD_HEAD, T.ROLL_HEAD, T.LIFT))


TABLE = {
    "group-notes-default-types": (_group_default, "group_notes considers every note type unless told otherwise (its documented default)"),
    "count-default-types": (_count_default, "steps, jumps and hands count taps, hold heads, roll heads and lifts"),
    "alias-declarations": (_aliases, "legacy aliases: FREEZES for SM stops, ANIMATIONS for background changes, NOTES2 for SSC note data - and no other"),
    "default-encodings": (_encodings, "the default list of tried encodings is UTF-8, CP1252, CP932, CP949 in this order"),
    "sm-chart-fields": (_six, "an SM chart has the six fields STEPSTYPE, DESCRIPTION, DIFFICULTY, METER, RADARVALUES, NOTES in this order"),
    "simfile-extensions": (_simfile_ext, "simfiles are the .sm and .ssc files"),
    "image-priority": (_image, "image extensions by priority: png, jpg, jpeg, gif, bmp"),
    "audio-extensions": (_audio, "audio extensions: mp3, oga, ogg, wav"),
    "multi-value-properties": (_multi, "ATTACKS and DISPLAYBPM are the multi-value properties"),
    "chart-timing-properties": (_chart_timing, "the eleven chart timing properties of the statement"),
}


class ClosedConstants(Unit):
    functions = ()

    def __init__(self, *which):
        self.which = which
        self.name = "constants[" + ",".join(which) + "]"
        self.expected = [f"closed:{w}" for w in which]

    def run(self, ex):
        for w in self.which:
            get, text = TABLE[w]
            try:
                actual, stated = get()
                ok = actual == stated
                detail = f"{text}; the module has {actual!r}"
            except Exception as e:
                # a table that is gone, renamed or reshaped beyond what the reader understands: undecided, not a violation
                from pyvc.execu import Unsupported
                raise Unsupported(f"{text}; reading the module's table failed: {type(e).__name__}: {e}")
            ex.prove(f"closed:{w}", z3.BoolVal(bool(ok)), detail)

    def replay(self, model, ob):
        w = ob["id"].split(":", 1)[1]
        get, text = TABLE[w]
        actual, stated = get()
        return dict(reproduced=actual != stated, input=dict(table=w), detail=f"module value {actual!r}; the statement pins {stated!r}")
