"""
C16 - SM to SSC conversion keeps every property, chart, timing and note.
"""
from props.conv_common import units_for

LEVEL = "proof"
TRUSTED = [
    "T-OD ordered-map theory; copy.deepcopy returns an equal, unshared object",
    "closed terms: SSCSimfile.blank(), SSCChart.blank() evaluated on the working tree",
    "charts in a charts list are values (A-CHARTVAL: a chart is not mutated after it was appended)",
    "callee contract BeatValues.from_str (verified under C14)",
    "monotonicity of the prefix predicate any_negative_before (true by definition; the induction is not mechanised)",
    "pyvc VC generator; z3/cvc5",
]
ASSUMPTIONS = [
    "domain of the statement: well-formed BPMS/STOPS strings; keys are upper-case strings; templates are non-empty",
    "known finding excluded from the domain: an SM source that spells its stops FREEZES",
]
UNITS = units_for("sm2ssc")


def _kf_freezes():
    from simfile.sm import SMSimfile
    from simfile.convert import sm_to_ssc
    from simfile.timing import TimingData
    sm = SMSimfile(string="#OFFSET:0;#BPMS:0=120;#FREEZES:4=1;")
    out = sm_to_ssc(sm)
    return TimingData(out).stops != TimingData(sm).stops


KNOWN_FINDINGS = {"C16-freezes-alias": _kf_freezes}


def witness_search(tier, seed):
    import itertools
    from simfile.sm import SMSimfile, SMChart
    from simfile.ssc import SSCSimfile, SSCChart
    from simfile.convert import sm_to_ssc
    from simfile.timing import TimingData
    from simfile.notes import NoteData
    texts = ["#TITLE:a;#OFFSET:0.1;#BPMS:0=120,4=60;#STOPS:2=0.5;#ANIMATIONS:x;\n#NOTES:dance-single:d:Easy:3:0,0:\n1000\n0100\n;#NOTES:dance-single::Hard:9::0000;",
             "#OFFSET:0;#BPMS:0=100;#STOPS:;#WARPS:1=2;#FOO:bar;",
             "#VERSION:0.56;#OFFSET:0;#BPMS:0=100;#STOPS:;#ORIGIN:x;#LABELS:0=a;#NOTES:dance-single::Hard:9::0000;",
             "#OFFSET:0;#BPMS:0=-100;#STOPS:;", "#OFFSET:0;#BPMS:0=100;#STOPS:1=-2;", "#OFFSET:0;#BPMS:0=100,4=-0.5;#STOPS:;",
             "#OFFSET:0;#BPMS:0=100;#STOPS:1=-0.001;"]
    for text in texts:
        for st, ct in itertools.product((None, "T"), repeat=2):
            sm = SMSimfile(string=text)
            before = (list(sm.items()), [list(c.items()) for c in sm.charts])
            stt = SSCSimfile(string="#VERSION:0.83;#CREDIT:me;#NOTEDATA:;#STEPSTYPE:x;#NOTES:0;") if st else None
            ctt = SSCChart.from_str("#NOTEDATA:;#CHARTNAME:n;#NOTES:00;") if ct else None
            neg = "=-" in text
            tmpl_before = ((list(stt.items()), [list(c.items()) for c in stt.charts]) if stt else None, list(ctt.items()) if ctt else None)
            try:
                out = sm_to_ssc(sm, simfile_template=stt, chart_template=ctt)
            except NotImplementedError:
                if not neg:
                    return dict(input=text, detail="NotImplementedError without negative values")
                continue
            except Exception as e:
                return dict(input=text, detail=f"raised {type(e).__name__}: {e}")
            if neg:
                return dict(input=text, detail="negative BPM/stop converted instead of refused")
            if (list(sm.items()), [list(c.items()) for c in sm.charts]) != before:
                return dict(input=text, detail="source modified")
            for k, v in sm.items():
                if out.get(k) != v:
                    return dict(input=text, detail=f"property {k} = {out.get(k)!r}, source has {v!r}")
            t0, t1 = TimingData(sm), TimingData(out)
            if (t0.bpms, t0.stops, t0.delays, t0.warps, t0.offset) != (t1.bpms, t1.stops, t1.delays, t1.warps, t1.offset):
                return dict(input=text, detail=f"timing data of the simfile differs: source warps {t0.warps!r}, result warps {t1.warps!r}")
            n0 = len(stt.charts) if stt else 0
            if len(out.charts) != n0 + len(sm.charts):
                return dict(input=text, detail="chart count differs")
            # the result shares no mutable object with the source or the templates, which are left as they were
            others = [("the source", sm, list(sm.charts))] + ([("the simfile template", stt, list(stt.charts))] if stt else [])
            for who, sf, chs in others:
                if out is sf or out.charts is sf.charts or any(a is b for a in out.charts for b in chs):
                    return dict(input=dict(source=text, simfile_template=bool(st), chart_template=bool(ct)), detail=f"the result shares its chart list or a chart with {who}")
            if ctt is not None and any(a is ctt for a in out.charts):
                return dict(input=dict(source=text, chart_template=True), detail="the chart template itself is a chart of the result")
            if stt is not None and (list(stt.items()), [list(c.items()) for c in stt.charts]) != tmpl_before[0]:
                return dict(input=dict(source=text, simfile_template=True), detail="the supplied simfile template was modified")
            if ctt is not None and list(ctt.items()) != tmpl_before[1]:
                return dict(input=dict(source=text, chart_template=True), detail="the supplied chart template was modified")
            for a, b in zip(sm.charts, out.charts[n0:]):
                for k, v in a.items():
                    if b.get(k) != v:
                        return dict(input=text, detail=f"chart field {k} differs")
                if list(NoteData(a)) != list(NoteData(b)):
                    return dict(input=text, detail="notes differ")
                ta, tb = TimingData(sm, a), TimingData(out, b)
                if (ta.bpms, ta.stops, ta.delays, ta.warps, ta.offset) != (tb.bpms, tb.stops, tb.delays, tb.warps, tb.offset):
                    return dict(input=text, detail="timing data differs")
    return None

from pyvc.xcheck import OrderedDictProbe   # noqa: E402
THOROUGH_BOUNDED = [OrderedDictProbe()]


# supplier units (see props/suppliers.py): "timing data ... as read through the library's own timing readers"
from props import suppliers as _S   # noqa: E402
UNITS = _S.extend(UNITS, _S.timing_readers(), _S.beat_values(), [u for u in _S.accessors(("SMSimfile", "SSCSimfile", "SSCChart")) if u.name.endswith(".getter")])
