#!/usr/bin/env python3
"""Regenerate MANIFEST.json from the table below (keeps it valid against the schema)."""
import json, os, subprocess
HERE = os.path.dirname(os.path.abspath(__file__))
props = [json.loads(l) for l in open(os.path.join(HERE, "properties.jsonl"))]

CLAIMED = {
 "C18": dict(
   category="proof",
   text="Every item_property accessor (getter/setter/deleter, for each declaration read from the real classes) and every SMChart key guard is symbolically executed from the working tree's AST on an arbitrary mapping state and proved (SMT, unsat) to meet a postcondition that is an equation over the whole ordered mapping, so other keys, values and insertion order are covered; histories are covered by invariance of the representation invariant. Proof-level because the functions are loop-free and every path obligation is discharged for all inputs.",
   note="Trusted: OrderedDict as the ordered-map theory (pyvc/omap.py), Python descriptor/MRO dispatch as implemented by the executor, str.upper/lower uninterpreted with CPython-evaluated constant instances, the home-grown VC generator, z3/cvc5. 'serialization sees the mapping' is carried by C01/C02's serializer contracts.",
   technique="contract-based deductive verification: sidecar contracts on the real AST, VC generation by symbolic execution, z3 (cvc5 on unknown)",
   design_ref="6/C18"),
}
CLAIMED["C15"] = dict(
   category="proof",
   text="timing_source, TimingData.__init__ and displaybpm are symbolically executed from the working tree's AST for every kind of simfile and chart with arbitrary (symbolic) mappings, so the 2 x 3 x 7 x 3^11 configuration space is one family of SMT queries: the chart is the source iff the split-timing rule of the statement holds, every TimingData field comes from that one source, the offset defaults to zero, and the displayed BPM follows the statement case by case. All path obligations are discharged; the functions are loop free apart from an unrolled loop over the eleven chart timing properties read from the tree.",
   note="Trusted: ordered-map theory, float()/Decimal() of strings as partial uninterpreted parsers with CPython-evaluated constants, min/max/list-comprehension as functions of the list, BeatValues.from_str as a callee contract (its body is verified in C14), A-FLOAT for the 0.7 threshold, the VC generator, z3/cvc5.",
   technique="contract-based deductive verification: sidecar contracts on the real AST, VC generation by symbolic execution, z3 (cvc5 on unknown)",
   design_ref="6/C15")
CLAIMED["C14"] = dict(
   category="other",
   text="Deductive proof (all inputs) of Beat construction from every input kind, tick, round_to_tick, from_str, __str__, fifteen operator overrides (exact value, result type Beat), the three-decimal text round trip on the whole tick grid (lemma over the proved contracts) and BeatValues.from_str row by row via a loop invariant; plus one bounded stand-in (BeatValues text round trip through str.join/str.split on enumerated event lists), labelled bounded and not counted as proved - hence level 'other'.",
   note="Trusted: Fraction arithmetic/rounding exact (T-STD), string number parsers partial and uninterpreted (S9), f'{x:.3f}' within 0.0005 of x, A-FLOAT (floats are reals), the VC generator, z3/cvc5. pow/rpow are outside the statement.",
   technique="contract-based deductive verification (symbolic execution of the real AST + loop invariant + SMT) with one bounded stand-in",
   design_ref="6/C14")
CLAIMED["C07"] = dict(
   category="other",
   text="Deductive proof (all inputs) that the four comparison operators of Note agree with (player, beat, column) order, that _iter_measure yields exactly one note per non-zero cell with the exact beat 4m + 4l/rows, column, type, player and keysound index (two nested loop invariants over prefix spec functions), that __iter__ concatenates sections and measures in order with their own indices, that str() returns the text, and of the arithmetic lemmas behind the strict order. Two bounded stand-ins, labelled and not counted as proved: _extract_keysound_indices against a declarative tokenizer, and the text-format lemma (split/strip/splitlines structure, column count, order) on generated decorated texts - hence level 'other'.",
   note="Trusted: tuple comparison lexicographic, str.split/strip/splitlines uninterpreted, enum lookup by value, Fraction exact, the contract of _extract_keysound_indices (bounded only), well-formedness of rows as instantiated preconditions, generator laziness ignored, the VC generator, z3/cvc5.",
   technique="contract-based deductive verification (symbolic execution of the real AST, nested loop invariants, SMT) with two bounded stand-ins",
   design_ref="6/C07")
NA_REASON = "not yet brought under contract in this session (work in progress; see DESIGN.md section 6 for the plan)"

NA_TABLE = {}
checks, na = [], []
for p in props:
    pid = p["id"]
    if pid in CLAIMED:
        c = CLAIMED[pid]
        checks.append(dict(
            property_id=pid,
            quick_cmd=f"./check {pid} --tier quick",
            thorough_cmd=f"./check {pid} --tier thorough",
            evidence_file=f"evidence/{pid}.json",
            replay_cmd_template=f"./check {pid} --replay {{path}}",
            engine="pyvc",
            level_claimed=dict(category=c["category"], text=c["text"], design_ref=c["design_ref"]),
            level_note=c["note"],
            technique=c["technique"]))
    else:
        na.append(dict(property_id=pid, reason=NA_TABLE.get(pid, NA_REASON)))

man = dict(
    version=1,
    setup_cmd="sh ./setup.sh",
    hooks=dict(guard="SIMFILE_VERIF", enable="none needed: contracts are sidecars in /verif, the repository is read (ast) and imported unmodified",
               baseline_off_cmd="cd /repo && /venv/bin/python -m pytest -ra -q -p no:cacheprovider --timeout=900 --continue-on-collection-errors",
               source_commits=[], add_only=True),
    engines=[dict(name="pyvc", path="pyvc/", serves_properties=sorted(CLAIMED),
                  kind_free_text="home-grown deductive verifier for Python: real function ASTs + sidecar contracts -> verification conditions by path-wise symbolic execution with loop invariants -> z3, cvc5 on unknown; counter-models replayed on the real code")],
    checks=checks,
    notes="Genuine defects repaired in /repo as 'fix:' commits are recorded in known_findings.json. Exit codes: 0 held, 1 violation, 2 undecided, 3 checker error.",
    not_applicable=na)
json.dump(man, open(os.path.join(HERE, "MANIFEST.json"), "w"), indent=1)
print("claimed", sorted(CLAIMED), "not_applicable", len(na))
