#!/usr/bin/env python3
"""Regenerate MANIFEST.json from the table below (keeps it valid against the schema)."""
import json, os, subprocess
HERE = os.path.dirname(os.path.abspath(__file__))
props = [json.loads(l) for l in open(os.path.join(HERE, "properties.jsonl"))]

CLAIMED = {
 "C18": dict(
   category="proof",
   text="Every item_property accessor (getter/setter/deleter, for each declaration read from the real classes) and every SMChart key guard is symbolically executed from the working tree's AST on an arbitrary mapping state and proved (SMT, unsat) to meet a postcondition that is an equation over the whole ordered mapping, so other keys, values and insertion order are covered; histories are covered by invariance of the representation invariant. Proof-level because the functions are loop-free and every path obligation is discharged for all inputs.",
   note="Trusted: OrderedDict as the ordered-map theory (pyvc/omap.py), Python descriptor/MRO dispatch as implemented by the executor, str.upper/lower uninterpreted with CPython-evaluated constant instances, the home-grown VC generator, z3/cvc5. 'serialization sees exactly the mapping' is proved by the four serializer units (SMChart / SSCChart / BaseSimfile.serialize for SM and SSC, shared with C01/C02/C04), which are part of this check. Thorough tier adds the T-OD probe against collections.OrderedDict and the history search of the real classes (depth 3).",
   technique="contract-based deductive verification: sidecar contracts on the real AST, VC generation by symbolic execution, z3 (cvc5 on unknown)",
   design_ref="6/C18"),
}
CLAIMED["C15"] = dict(
   category="proof",
   text="timing_source, TimingData.__init__ and displaybpm are symbolically executed from the working tree's AST for every kind of simfile and chart with arbitrary (symbolic) mappings, so the 2 x 3 x 7 x 3^11 configuration space is one family of SMT queries: the chart is the source iff the split-timing rule of the statement holds, every TimingData field comes from that one source, the offset defaults to zero, and the displayed BPM follows the statement case by case. All path obligations are discharged; the functions are loop free apart from an unrolled loop over the eleven chart timing properties read from the tree.",
   note="Trusted: ordered-map theory, float()/Decimal() of strings as partial uninterpreted parsers with CPython-evaluated constants, min/max/list-comprehension as functions of the list, BeatValues.from_str as a callee contract (its body is verified in C14), A-FLOAT for the 0.7 threshold, the VC generator, z3/cvc5.",
   technique="contract-based deductive verification: sidecar contracts on the real AST, VC generation by symbolic execution, z3 (cvc5 on unknown)",
   design_ref="6/C15")
CLAIMED["C14"] = dict(
   category="other",
   text="Deductive proof (all inputs) of Beat construction from every input kind, tick, round_to_tick, from_str, __str__, fifteen operator overrides (exact value, result type Beat), the three-decimal text round trip on the whole tick grid (lemma over the proved contracts) and BeatValues.from_str row by row via a loop invariant; plus one bounded stand-in (BeatValues text round trip through str.join/str.split on enumerated event lists), labelled bounded and not counted as proved - hence level 'other'.",
   note="Trusted: Fraction arithmetic/rounding exact (T-STD), string number parsers partial and uninterpreted (S9), f'{x:.3f}' within 0.0005 of x, A-FLOAT (floats are reals), the VC generator, z3/cvc5. pow/rpow are outside the statement.",
   technique="contract-based deductive verification (symbolic execution of the real AST + loop invariant + SMT) with one bounded stand-in",
   design_ref="6/C14")
CLAIMED["C07"] = dict(
   category="other",
   text="Deductive proof (all inputs) that the four comparison operators of Note agree with (player, beat, column) order, that _iter_measure yields exactly one note per non-zero cell with the exact beat 4m + 4l/rows, column, type, player and keysound index (two nested loop invariants over prefix spec functions), that __iter__ concatenates sections and measures in order with their own indices, that str() returns the text, and of the arithmetic lemmas behind the strict order. Two bounded stand-ins, labelled and not counted as proved: _extract_keysound_indices against a declarative tokenizer, and the text-format lemma (split/strip/splitlines structure, column count, order) on generated decorated texts - hence level 'other'.",
   note="Trusted: tuple comparison lexicographic, str.split/strip/splitlines uninterpreted, enum lookup by value, Fraction exact, the contract of _extract_keysound_indices (bounded only), well-formedness of rows as instantiated preconditions, generator laziness ignored, the VC generator, z3/cvc5.",
   technique="contract-based deductive verification (symbolic execution of the real AST, nested loop invariants, SMT) with two bounded stand-ins",
   design_ref="6/C07")
CLAIMED["C16"] = dict(
   category="proof",
   text="_should_copy_property, _copy_properties (loop invariant: output == fold of the copied items), _convert_warps (loop invariant: no negative value so far), _convert for all four template configurations (loop invariant over the charts list) and sm_to_ssc are symbolically executed from the working tree and every obligation is discharged: the result's mapping is the template (or the evaluated blank) overlaid with every source property in order, charts are the template's charts followed by one converted chart per source chart in order, source and templates are unmodified and unshared (frame obligations from the write log), NotImplementedError exactly for a negative BPM/stop value.",
   note="Trusted: ordered-map theory, deepcopy, blank() as evaluated closed terms, charts as values, BeatValues.from_str callee contract (C14), monotonicity of prefix predicates, VC generator, z3/cvc5. 'Timing and notes identical through the library's readers' and 're-loads equal' follow from the mapping equation plus C15/C18/C02 contracts; that composition is argued in DESIGN.md, not mechanised. Known finding FREEZES is reported, not suppressed.",
   technique="contract-based deductive verification: loop invariants over prefix spec functions on the real AST, z3/cvc5",
   design_ref="6/C16")
CLAIMED["C17"] = dict(
   category="proof",
   text="Same units as C16 in the SSC->SM direction with an arbitrary (possibly partial) behaviour mapping as symbolic input: every property is copied, skipped or refused exactly per its kind's behaviour (documented defaults for unspecified kinds, trimmed-value-equals-default rule), InvalidPropertyException names the first offending property in iteration order (simfile properties first, then charts in order), NotImplementedError takes precedence when WARPS is non-empty, no other exception escapes, source and templates are unmodified. All 4^5 x partial mappings are one symbolic query.",
   note="Trusted as C16. The behaviour tables are written out in the sidecar contract so that an edit of the repository's tables is noticed. Domain per the statement: upper-case keys, SSC-only properties hold strings, non-empty templates; the bare KeyError for chart keys the SM chart cannot hold is the given known finding and is reported. The SM->SSC->SM round-trip clause follows from the two mapping equations; not mechanised.",
   technique="contract-based deductive verification: loop invariants over prefix spec functions on the real AST, z3/cvc5",
   design_ref="6/C17")
_SER_NOTE = "Trusted: msdparser tokenization/escaping (T-MSD, the trusted base the properties name), ordered-map theory incl. reconstruction, string laws S1/S3/S4 (join/split inverse, strip of whitespace-decorated text, upper idempotent), charts as values, VC generator, z3/cvc5. The composition with T-MSD-1 (the parameters of the written text are the written parameters) is stated, not mechanised; values in msdparser's escaping gaps are excluded as the property says."
CLAIMED["C01"] = dict(
   category="proof",
   text="Layer 1 (real AST, all inputs, all iteration counts): BaseSimfile.serialize, BaseCharts.serialize and SMChart.serialize emit exactly the parameter sequence the statement prescribes (one parameter per item in order, key only for a None value, ATTACKS/DISPLAYBPM split into components, blank line, one NOTES parameter per chart with the six fields in the documented order plus extra components) - loop invariants over prefix spec functions on a ghost fragment list; SMSimfile._parse and the five SMChart constructors compute the documented fold. Layer 2: per-element round-trip lemmas (loading rules applied to the emitted parameter give back key/value and the six chart fields) discharged by SMT over the two contracts.",
   note=_SER_NOTE, technique="contract-based deductive verification: ghost output fragments, loop invariants over prefix spec functions, SMT lemmas over the contracts", design_ref="6/C01")
CLAIMED["C02"] = dict(
   category="proof",
   text="As C01 for SSC: SSCChart.serialize emits NOTEDATA, every item whose key is not the notes key in order, the note data item last and a blank line - stated over keys, with string identity modelled as not determined by values, so any implementation that recognises the note data by object identity or value fails the loop invariant; SSCSimfile._parse (with the partial-chart state) and SSCChart._parse/from_str compute the documented fold (keys upper-cased, stop at the first NOTES/NOTES2).",
   note=_SER_NOTE, technique="contract-based deductive verification: ghost output fragments, loop invariants over prefix spec functions, SMT lemmas over the contracts", design_ref="6/C02")
CLAIMED["C03"] = dict(
   category="proof",
   text="Every entry point (loads, load on StringIO / open text file with arbitrary name and position / iterator of lines, open, open_with_detected_encoding, both class constructors with string= and file=, SSCChart.from_str, SMChart.from_str/from_msd/_parse) is symbolically executed and proved to return BUILD_fmt(msd_params(content handed over, not strict)) with fmt by the statement's rule, so all entry points agree; the tokenizer is called on exactly the content handed over with ignore_stray_text == not strict (flag threading and stream position as obligations); MSDParserError only when strict and the tokenizer reports stray text. The per-parameter rules are the loop invariants of the _parse methods.",
   note="Trusted: msdparser.parse_msd as the lazy tokenizer (T-MSD-3, incl. 'reads at least one chunk before yielding' and 'ignore_stray_text never raises'), ghost file system/codecs for open(), ordered-map theory, str.lower/upper/endswith, ''.join(lines) is the text, itertools.tee, VC generator, z3/cvc5. Which of ValueError/MSDParserError comes first when both apply is not specified.",
   technique="contract-based deductive verification: path-wise symbolic execution of all entry points against one postcondition; z3/cvc5", design_ref="6/C03")
CLAIMED["C04"] = dict(
   category="proof",
   text="Composition over the proved contracts of C01-C03 (their units are re-run here): lemma LOADED-IN-DOMAIN shows that whatever the loaders produce is in the serializers' domain (upper-case keys, str-or-None values, SM chart fields equal to their own strip, re-joinable ATTACKS/DISPLAYBPM), the serializers never raise on that domain and emit the prescribed parameters, lemma RT-elements shows the loading rules give each emitted element back, and the serialization is a function of the simfile value, so a second save is byte-identical. Both lemmas are discharged by SMT; the chaining of the four steps is an argument in DESIGN.md.",
   note=_SER_NOTE + " Proviso of the statement: every SSC chart contains note data.",
   technique="contract-based deductive verification: SMT lemmas over the proved serializer/loader contracts", design_ref="6/C04")
_FS_NOTE = "Trusted: the ghost file system contract T-FS (NativeOSFS and any PyFilesystem are assumed to satisfy it; this family cannot observe bytes on a disk), codecs T-CODEC, callee contracts for load (C03) and serialize/__str__ (C01/C02), contextlib.contextmanager semantics, VC generator, z3/cvc5. The ghost store is one array for every filesystem object; that each operation goes through the filesystem the caller passed is a separate frame obligation at every open/listdir/isdir/exists."
CLAIMED["C05"] = dict(
   category="proof",
   text="open_with_detected_encoding is proved for an arbitrary list of encodings by a loop invariant (every encoding tried so far fails to decode; the returned encoding is the first that decodes; exactly that decoded text is loaded; UnicodeDecodeError iff the list is non-empty and none decodes), open(encoding=e) as the one-element case; mutate is loop-free and every path is enumerated: for each of {input, other output} x {backup, none} x {SM, SSC} with an arbitrary edit of the yielded simfile, the output file is textwrite(enc, SER(simfile at exit)), the backup is textwrite(enc, SER(simfile at entry)), the input is untouched when an output name is given, no other path changes (frame over the ghost file system with an arbitrary other path), and a clashing backup name is refused with the file system unchanged.",
   note=_FS_NOTE + " 'Parses to exactly the simfile' and the no-op second mutate follow from T-CODEC's inverse law with C01/C02/C04.",
   technique="contract-based deductive verification over a ghost file system; loop invariant; z3/cvc5", design_ref="6/C05")
CLAIMED["C06"] = dict(
   category="proof",
   text="Every exceptional path of mutate is an obligation; the fault points are enumerated by construction from the raises clauses of the calls it makes: the caller's block raising KeyboardInterrupt / SystemExit / an Exception subclass (propagates unchanged, file system identical) or CancelMutation (swallowed, file system identical); the edited simfile not serializable; not encodable in the detected encoding; open-for-writing failing; a write failing. For the first three save failures the input file still holds its original bytes; whenever the backup block has completed the backup is textwrite(enc, SER(simfile at entry)); nothing outside output/backup changes.",
   note=_FS_NOTE,
   technique="contract-based deductive verification: exhaustive exceptional-path enumeration of a loop-free function over a ghost file system; z3/cvc5", design_ref="6/C06")
_DIR_NOTE = "Trusted: listdir/isdir/exists as functions of an unchanging tree (T-FS; NativeOSFS and any PyFilesystem assumed to satisfy it), os.path/fs.path join/split/normpath/splitext uninterpreted (T-PATH), str.lower uninterpreted with constant instances, re.search for the fixed presets as prefix/substring/suffix tests, callee contract simfile.open (C03/C05), monotonicity of prefix predicates (lemma unit; induction schema applied by the tool), generator laziness ignored, VC generator, z3/cvc5."
CLAIMED["C19"] = dict(
   category="proof",
   text="extensions.match, SimfileDirectory.__init__ (loop invariant: sm_path/ssc_path are the joins of the first listed entry of each kind so far, no duplicate unless ignored), simfile_path/open (SSC preferred, FileNotFoundError iff neither, the caller's loader options and the directory's file system reach simfile.open unchanged - a call-site obligation for every subset of {strict, encoding}), SimfilePack._find_simfile_paths (two nested loop invariants: exactly the immediate entries that are directories and directly list a simfile, in order), simfiles and openpack (every directory opened with the caller's options), for NativeOSFS and a generic PyFilesystem, all discharged for every listing.",
   note=_DIR_NOTE, technique="contract-based deductive verification: loop invariants over prefix spec functions on a ghost directory tree; call-site obligations for option threading", design_ref="6/C19")
CLAIMED["C20"] = dict(
   category="proof",
   text="AssetDefinition.matches equals the documented pattern for each of the seven kinds; _get_case_insensitive_path returns the join of the first listed entry of the containing directory whose name equals the requested one ignoring case (loop invariant) or None; _asset_property for each kind returns the named file (normalised) when the simfile names one and it is found, else the first listed entry matching the pattern joined to the directory and normalised, else None, and remembers the answer; a cached answer is returned without a new lookup; SimfilePack.banner picks an image inside the pack by extension priority, else a same-named image beside it, else None (five unrolled scans with a loop invariant each). NativeOSFS and generic PyFilesystem path functions both covered.",
   note=_DIR_NOTE + " 'Never a non-existent path' follows from the postcondition (join of a listed entry) and T-FS; the disc-by-name lookup is not claimed, as the property says.",
   technique="contract-based deductive verification: loop invariants over prefix spec functions on a ghost directory tree", design_ref="6/C20")
CLAIMED["C10"] = dict(
   category="other",
   text="Deductive proof (all inputs) of ungroup_notes per element: for an arbitrary grouped item and arbitrary pending tails it first yields exactly the pending tails that precede the item (drain-loop invariant over prefix functions of an abstract heap), then yields / drops / raises about a plain note exactly per the option iff a pending tail sits on its column, turns a NoteWithTail into a head with all five fields and leaves Note(tail_beat, column, TAIL, player, None) pending, and yields every remaining tail at the end. The composition with group_notes (nothing added, dropped or duplicated; order) is a bounded stand-in on the property's 2-column grid, labelled bounded - hence level 'other'.",
   note="Trusted: heapq as an abstract min-priority queue under `<` (pyvc/heaps.py), isinstance on NamedTuple classes, Note.__lt__ = position order (C07), generator laziness and termination of the drain loops not modelled, VC generator, z3/cvc5.",
   technique="contract-based deductive verification (loop invariants + relational per-iteration obligations over an abstract heap) with one bounded stand-in", design_ref="6/C10")
CLAIMED["C09"] = dict(
   category="other",
   text="Deductive proof (all inputs) that the counting functions pass exactly the documented options to group_notes and return the number of groups with at least the documented minimum (steps 1, jumps 2, hands 3 over tap / hold head / roll head / lift joined per beat; holds and rolls: {head, TAIL}, joined, the caller's orphan policies), that count_grouped_notes counts the groups of at least `minimum` notes and count_mines the notes of type MINE; and, on the real AST of group_notes, that its type filter passes a note exactly when its type is in include_note_types (all 512 sets of members), that rows are keyed by the exact beat and that JOIN_BY_NOTE_TYPE selects the notes whose type equals the type being joined. group_notes as a whole (the type filter applied to the stream, head/tail joining with its buffering, same-beat modes, which orphan an exception names) is a bounded stand-in: exhaustive comparison with a declarative reading of the statement over every stream of the 2-column grid and every option combination, run in 12 parallel slices - labelled bounded, hence level 'other'.",
   note="Trusted: group_notes as a function of its six arguments at the counters' call sites, sum(cond(x) for x in xs) as the count of x with cond(x), generator laziness ignored, VC generator, z3/cvc5. The buffering state machine of join_heads_to_tails_ was not brought under a loop invariant (DESIGN 6/C09).",
   technique="contract-based deductive verification of the counters (call-site obligations) with a bounded exhaustive stand-in for group_notes", design_ref="6/C09")
_ENG_NOTE = "Trusted: bisect's local-boundary contract, heapq.merge (as many elements as its inputs, each from some input, in order when every input is sorted), A-FLOAT (floats are reals; the 1e-9 s accuracy clause is not decided), VC generator, z3/cvc5. _retime_events is under contract (initial state, the seven merge inputs under their tags, fold invariant states == fold(step, merged, i), look-up tables as exact projections; lemmas step-keeps-domain and step-time-monotone): SM_inv, which the look-up units start from, is thereby reduced to an induction whose step cases are discharged obligations; the induction itself is argued outside the solver. _coalesce_warps is proved (alternating segments covering exactly the union of the warps). Thorough tier adds the encoder-vs-CPython guard on time_until / beats_until / TaggedEvent.__lt__."
CLAIMED["C11"] = dict(
   category="other",
   text="Deductive proof (all inputs) of the EventTag order (closed term), TaggedEvent.__lt__ = (beat, tag) lexicographic, TimingState.time_until = the statement's formula, TimingStateMachine.advance = the recurrence step, time_at / bpm_at = extrapolation from the last state at or before (beat, tag), and _coalesce_warps = strictly alternating WARP/WARP_END pairs covering exactly the union of the warp segments (loop invariant with universally quantified conjuncts, proved by single-instance skolemisation). _retime_events builds the state list as the fold of that step over the merged events and the look-up tables as its exact projections (loop invariant). The end-to-end identity 'engine == the statement's integral timeline', monotonicity, offset shift and redundant-BPM invariance are a bounded stand-in: the real engine against an exact-rational evaluation of the statement on all placements of up to 3 events on a beat grid (every quarter beat, every tag) and on seven non-dyadic / third-of-a-beat configurations probed on every tick - labelled bounded, hence level 'other'.",
   note=_ENG_NOTE, technique="contract-based deductive verification of the state-machine step and look-ups, with a bounded exhaustive stand-in for the timeline identity", design_ref="6/C11")
CLAIMED["C12"] = dict(
   category="other",
   text="Deductive proof (all inputs) that beats_until is the statement's formula and that beat_at bisects a sequence ordered in the key it searches (the state times; the obligation fails for a (time, tag) search), choosing the first state at that time for the WARP tag and the last otherwise, then adding beats_until. Round trip on tick-aligned beats outside warps, paused beat inside pauses, monotonicity in time and independence from redundant earlier events are a bounded stand-in on the same grid as C11 - hence level 'other'.",
   note=_ENG_NOTE, technique="contract-based deductive verification (call-site precondition of bisect, look-up postconditions) with a bounded exhaustive stand-in", design_ref="6/C12")
CLAIMED["C13"] = dict(
   category="other",
   text="Deductive proof for every note stream (loop invariant) that time_notes yields exactly what the statement prescribes per note, with the engine abstracted by callee contracts, and that hittable() is False exactly when the state in force after everything on that beat lies inside a warp and no stop/delay ends on that beat. That this reading of the state list equals 'inside the union of warp segments and no stop or delay on that beat' is a bounded stand-in on every tick of every small configuration, and time_notes itself is also run on real one- and two-player streams against the statement (bounded) - hence level 'other'.",
   note=_ENG_NOTE, technique="contract-based deductive verification (loop invariant, callee contracts, look-up postcondition) with a bounded exhaustive stand-in", design_ref="6/C13")
CLAIMED["C08"] = dict(
   category="other",
   text="NoteData.from_notes (three nested itertools.groupby loops, a reduce over gcd and closures writing to a StringIO) could not be brought under loop invariants in this session; it is decided by a bounded stand-in against the statement (decode(encode(notes)) == notes, requested column count, 4 x lcm rows per measure, every measure up to the last note, blank skipped measures/players, canonical stability, one blank measure for the empty stream) on the empty stream, all 1- and 2-note streams of a small grid and generated sorted streams with mixed denominators, players with gaps and keysounds. What is proved deductively, on the real AST of from_notes re-read on every run: the step folded over a measure's denominators returns a positive common multiple of accumulator and denominator (fold from 1), and the three groupby keys are the player, floor(beat / 4) and the integer (beat mod 4) x q - exact under int(), within 0..4q-1, decoding by the C07 formula to the note's own beat; plus the same arithmetic as stand-alone lemmas. The emission structure (rows, separators, blank measures and players) is bounded only. Level 'other'.",
   note="Trusted: math.gcd returns a positive common divisor (assumed contract; 'greatest' not assumed), reduce/groupby semantics (T-STD; the induction from the step lemma to 'q is a multiple of every denominator' is argued), the decoder (C07, re-run as supplier units), VC generator, z3/cvc5. The bounded stand-in is never counted as proved.",
   technique="contract-based deductive verification of the pure pieces of from_notes (fold step and grouping keys, symbolic execution of the real AST + SMT) with a bounded exhaustive/generated stand-in for the emission structure (stated bound)", design_ref="6/C08")
NA_REASON = "not yet brought under contract in this session (work in progress; see DESIGN.md section 6 for the plan)"

NA_TABLE = {}
checks, na = [], []
for p in props:
    pid = p["id"]
    if pid in CLAIMED:
        c = CLAIMED[pid]
        checks.append(dict(
            property_id=pid,
            quick_cmd=f"./check {pid} --tier quick",
            thorough_cmd=f"./check {pid} --tier thorough",
            evidence_file=f"evidence/{pid}.json",
            replay_cmd_template=f"./check {pid} --replay {{path}}",
            engine="pyvc",
            level_claimed=dict(category=c["category"], text=c["text"], design_ref=c["design_ref"]),
            level_note=c["note"],
            technique=c["technique"]))
    else:
        na.append(dict(property_id=pid, reason=NA_TABLE.get(pid, NA_REASON)))

man = dict(
    version=1,
    setup_cmd="sh ./setup.sh",
    hooks=dict(guard="SIMFILE_VERIF", enable="none needed: contracts are sidecars in /verif, the repository is read (ast) and imported unmodified",
               baseline_off_cmd="cd /repo && /venv/bin/python -m pytest -ra -q -p no:cacheprovider --timeout=900 --continue-on-collection-errors",
               source_commits=[], add_only=True),
    engines=[dict(name="pyvc", path="pyvc/", serves_properties=sorted(CLAIMED),
                  kind_free_text="home-grown deductive verifier for Python: real function ASTs + sidecar contracts -> verification conditions by path-wise symbolic execution with loop invariants -> z3, cvc5 on unknown; counter-models replayed on the real code")],
    checks=checks,
    notes="Genuine defects repaired in /repo as 'fix:' commits are recorded in known_findings.json. Exit codes: 0 held, 1 violation, 2 undecided, 3 checker error. Every check also re-runs its supplier units (props/suppliers.py): the units that discharge the callee contracts its own units assume (loaders, serializers, __str__, timing readers, accessors, note readers), so that a change in a function between the property and its anchored code fails a named obligation in that property's own check. Exit 1 needs an input of the public API that fails on the real code, or a refuted post / raises / call-pre / closed / lemma obligation of a unit on a public function (then the VIOLATION line ends in no-failing-input-found); a refuted step of an inductive argument (loop invariant, step, frame) or a refuted contract of a private helper without such an input is exit 3 (undecided, obligation named), see DESIGN A2/A5. Archived experiments: seeded/ (280 property-breaking changes by independent sub-agents in fourteen rounds, tools/seedall_par.sh: all reported with a failing input), benign/ (141 behaviour-preserving changes in seven rounds - small refactorings, correct caches and hoists, housekeeping commits, correct rewrites, opt-in feature additions, internal interfaces changed with their callers - tools/benignall_par.sh: no VIOLATION line; 104 exit 0, 37 undecided). The thorough tier adds larger bounded grids, the statement-level search of the real API, and guards of the verifier itself (encoder vs CPython on pinned symbolic inputs, probes of the trusted theories).",
    not_applicable=na)
json.dump(man, open(os.path.join(HERE, "MANIFEST.json"), "w"), indent=1)
print("claimed", sorted(CLAIMED), "not_applicable", len(na))
