#!/bin/sh
# Build the overlay interpreter used by every check (idempotent, offline).
set -e
cd "$(dirname "$0")"
V=.venv
if [ ! -x "$V/bin/python" ] || ! "$V/bin/python" -c "import z3, jsonschema" >/dev/null 2>&1; then
  rm -rf "$V"
  /venv/bin/python -m venv --without-pip "$V"
  PIP_NO_INDEX=1 /venv/bin/python -m pip --python "$V/bin/python" install -q --no-index \
      --find-links /opt/veriftools/wheels z3-solver cvc5 jsonschema >/dev/null
  echo "import site; site.addsitedir('/venv/lib/python3.12/site-packages')" \
      > "$V/lib/python3.12/site-packages/repo.pth"
fi
"$V/bin/python" -c "import z3, simfile" >/dev/null
