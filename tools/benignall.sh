#!/bin/sh
# tools/benignall.sh [name-prefix]: regression over the archived behaviour-preserving changes - apply each to /repo, run its property's
# quick check, expect NO VIOLATION line (exit 0, or 3 when the contracts no longer fit the restructured code), undo. exit 1 on a false alarm.
cd /verif; rc=0
for d in benign/${1:-}*/; do
  n=$(basename $d); p=$(python3 -c "import json;print(json.load(open('$d/meta.json'))['property'])")
  git -C /repo apply /verif/$d/patch.diff 2>/dev/null || { echo "$n: patch does not apply"; rc=1; continue; }
  out=$(./check $p 2>&1); code=$?
  git -C /repo checkout -- .
  v=$(echo "$out" | grep -c "^VIOLATION")
  if [ "$v" -gt 0 ] || [ "$code" = 1 ]; then echo "$n: FALSE ALARM ($v violation lines) exit=$code"; rc=1; else echo "$n: quiet, exit=$code"; fi
done
exit $rc
