#!/bin/sh
# tools/benigncheck.sh <Cxx> [suffix] : confirm a behaviour-preserving change (tests pass, equiv digest equal with / without), then run the check on /repo with it applied: expected exit 0.
P=$1; SFX=${2:-r}; WT=/tmp/wt-$P$SFX; OUT=/tmp/seed-$P$SFX
cd $WT || exit 9
git diff --quiet && { echo "no change applied in $WT"; exit 9; }
echo "--- tests with the change"; PYTHONPATH=$WT /venv/bin/python -m pytest -q -p no:cacheprovider 2>&1 | tail -1
D1=$(PYTHONPATH=$WT /venv/bin/python $OUT/equiv.py 2>/dev/null | tail -1)
git diff > $OUT/patch.diff
git apply -R $OUT/patch.diff
D0=$(PYTHONPATH=$WT /venv/bin/python $OUT/equiv.py 2>/dev/null | tail -1)
git apply $OUT/patch.diff
echo "--- digest with: $D1"; echo "--- digest without: $D0"; [ "$D0" = "$D1" ] && echo "digests equal" || echo "DIGESTS DIFFER"
if [ -n "$SEED_VIA_ENV" ]; then
  echo "--- check against the worktree (SIMFILE_REPO=$WT) ($(git diff --stat | tail -1))"
  for c in ${CHECKS:-$P}; do (cd /verif && SIMFILE_REPO=$WT ./check $c > /tmp/bc.out 2>&1; echo "check $c exit: $?"; grep -v "^  bounded" /tmp/bc.out | cut -c1-300 | head -${LINES_:-8}); done
  exit 0
fi
echo "--- check on /repo with the change applied ($(git diff --stat | tail -1))"
cd /repo && git apply $OUT/patch.diff || { echo "patch does not apply to /repo"; exit 8; }
for c in ${CHECKS:-$P}; do (cd /verif && ./check $c > /tmp/bc.out 2>&1; echo "check $c exit: $?"; grep -v "^  bounded" /tmp/bc.out | cut -c1-300 | head -${LINES_:-8}); done
git -C /repo checkout -- .
