#!/bin/sh
# tools/benignall_par.sh [jobs] [name-prefix]: tools/benignall.sh in parallel on scratch worktrees (SIMFILE_REPO); /repo is not touched.
J=${1:-6}; PFX=${2:-}
cd /verif
ls -d benign/${PFX}*/ | xargs -P $J -I{} sh -c '
  d={}; n=$(basename $d); p=$(python3 -c "import json;print(json.load(open(\"$d/meta.json\"))[\"property\"])")
  wt=/tmp/benwt-$n; rm -rf $wt; git -C /repo worktree add --detach $wt HEAD -q 2>/dev/null || { echo "$n: worktree failed"; exit 0; }
  if git -C $wt apply /verif/$d/patch.diff 2>/dev/null; then
    out=$(cd /verif && SIMFILE_REPO=$wt PYVC_OUT_DIR=/tmp/benev-$n ./check $p 2>&1); code=$?
    v=$(echo "$out" | grep -c "^VIOLATION")
    if [ "$v" -gt 0 ] || [ "$code" = 1 ]; then echo "$n: FALSE ALARM ($v violation lines) exit=$code"; else echo "$n: quiet, exit=$code"; fi
  else echo "$n: patch does not apply"; fi
  git -C /repo worktree remove --force $wt 2>/dev/null; rm -rf /tmp/benev-$n
' | sort
git -C /repo worktree prune
