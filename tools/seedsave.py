#!/usr/bin/env python3
"""tools/seedsave.py <Cxx> <name> <caught-by> <needs...>: archive a confirmed seeded change under /verif/seeded/<name>/"""
import json, os, shutil, sys
p, name, caught = sys.argv[1], sys.argv[2], sys.argv[3]
needs = " ".join(sys.argv[4:])
src = f"/tmp/seed-{p}" if os.path.isdir(f"/tmp/seed-{p}") and not name.endswith("b") else f"/tmp/seed-{name}"
src = os.environ.get("SEED_SRC", src)
dst = f"/verif/seeded/{name}"
os.makedirs(dst, exist_ok=True)
for f in ("patch.diff", "demo.py", "notes.md"):
    if os.path.exists(os.path.join(src, f)):
        shutil.copy(os.path.join(src, f), os.path.join(dst, f))
meta = dict(property=p, origin="independent sub-agent given only the property record and a scratch worktree",
            needs_to_manifest=needs,
            confirmed=dict(tests_with_change="existing suite passes (test_predefined_assets is the known flaky one)",
                           demo_with_change="exits non-zero", demo_without_change="exits 0",
                           commands=["cd <worktree> && PYTHONPATH=<worktree> /venv/bin/python -m pytest -q -p no:cacheprovider",
                                     "PYTHONPATH=<worktree> /venv/bin/python demo.py   (with and without the change)",
                                     f"git -C /repo apply seeded/{name}/patch.diff && ./check {p}; git -C /repo checkout -- ."]),
            caught_by=caught)
json.dump(meta, open(os.path.join(dst, "meta.json"), "w"), indent=1)
print("saved", dst)
