#!/bin/sh
# tools/mut.sh <file-under-/repo> <sed-expr> <property...> : apply a throw-away edit, run the checks, restore.
f=$1; e=$2; shift 2
cd /repo && sed -i "$e" "$f" && git diff --stat | tail -1
if git diff --quiet; then echo "NO CHANGE"; exit 9; fi
for p in "$@"; do (cd /verif && ./check $p 2>&1 | grep -v "^  ERROR" | head -${MUT_LINES:-6}; echo "exit=$?"); done
git -C /repo checkout -- . 
