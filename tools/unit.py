"""tools/unit.py <Cxx> <unit name> [timeout s]: run one verification unit in-process and print its obligations."""
import sys, time, signal, os
sys.path.insert(0, os.path.dirname(os.path.dirname(os.path.abspath(__file__))))
import warnings; warnings.filterwarnings("ignore")
import z3
from pyvc import execu as X, models, omap, stdmodels, simobj, msd, fsys, heaps
msd.install(); fsys.install()
import importlib
P = importlib.import_module("props." + sys.argv[1])
name = sys.argv[2]
u = [x for x in P.UNITS if x.name == name][0]
def h(*a): raise TimeoutError()
signal.signal(signal.SIGALRM, h); signal.alarm(int(sys.argv[3]) if len(sys.argv) > 3 else 60)
t = time.time()
try:
    r = X.explore(u); print(round(time.time() - t, 1), "s paths", r.paths, "errors", r.errors)
    for o in r.obligations:
        if o.status != 'discharged' or o.seconds > 1 or "-v" in sys.argv:
            print(o.oid, o.status, o.backend, round(o.seconds, 1), o.path[-90:], o.model if o.status != 'discharged' else "")
except TimeoutError:
    import traceback; traceback.print_exc()
