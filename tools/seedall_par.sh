#!/bin/sh
# tools/seedall_par.sh [jobs] [name-prefix]: the regression of tools/seedall.sh run in parallel - each archived change is applied to
# its own scratch worktree of /repo (under /tmp, removed afterwards) and the check reads that tree (SIMFILE_REPO). /repo is not touched.
J=${1:-6}; PFX=${2:-}
cd /verif
ls -d seeded/${PFX}*/ | xargs -P $J -I{} sh -c '
  d={}; n=$(basename $d); p=$(python3 -c "import json;print(json.load(open(\"$d/meta.json\"))[\"property\"])")
  wt=/tmp/seedwt-$n; rm -rf $wt; git -C /repo worktree add --detach $wt HEAD -q 2>/dev/null || { echo "$n: worktree failed"; exit 0; }
  if git -C $wt apply /verif/$d/patch.diff 2>/dev/null; then
    out=$(cd /verif && SIMFILE_REPO=$wt PYVC_OUT_DIR=/tmp/seedev-$n ./check $p 2>&1); code=$?
    v=$(echo "$out" | grep -c "^VIOLATION property=$p"); nf=$(echo "$out" | grep "^VIOLATION" | grep -c "no-failing-input-found")
    if [ "$v" -gt 0 ]; then echo "$n: caught ($v violation lines, $nf without input) exit=$code"; else echo "$n: MISSED exit=$code"; fi
  else echo "$n: patch does not apply"; fi
  git -C /repo worktree remove --force $wt 2>/dev/null; rm -rf /tmp/seedev-$n
' | sort
git -C /repo worktree prune
