#!/bin/sh
# tools/seedcheck.sh <Cxx> [suffix] : confirm a seeded change (tests pass, demo fails with / passes without), then run the check on /repo with it applied.
P=$1; SFX=${2:-}; WT=/tmp/wt-$P$SFX; OUT=/tmp/seed-$P$SFX
cd $WT || exit 9
git diff --quiet && { echo "no change applied in $WT"; exit 9; }
echo "--- tests with the change"; PYTHONPATH=$WT /venv/bin/python -m pytest -q -p no:cacheprovider 2>&1 | tail -2
echo "--- demo with the change (must fail)"; PYTHONPATH=$WT /venv/bin/python $OUT/demo.py >/tmp/demo.out 2>&1; echo "exit=$?"; tail -3 /tmp/demo.out
git diff > $OUT/patch.diff
git apply -R $OUT/patch.diff
echo "--- demo without the change (must pass)"; PYTHONPATH=$WT /venv/bin/python $OUT/demo.py >/tmp/demo.out 2>&1; echo "exit=$?"; tail -2 /tmp/demo.out
git apply $OUT/patch.diff
if [ -n "$SEED_VIA_ENV" ]; then
  # first-pass triage without touching /repo (e.g. while a background run reads it): the check reads the worktree instead
  echo "--- check against the worktree (SIMFILE_REPO=$WT)"
  for c in ${CHECKS:-$P}; do (cd /verif && SIMFILE_REPO=$WT ./check $c > /tmp/sc.out 2>&1; echo "check exit: $?"; grep -v "^  bounded\|^  ERROR" /tmp/sc.out | head -6); done
  exit 0
fi
echo "--- check on /repo with the change applied"
cd /repo && git apply $OUT/patch.diff || { echo "patch does not apply to /repo"; exit 8; }
for c in ${CHECKS:-$P}; do (cd /verif && ./check $c > /tmp/sc.out 2>&1; echo "check exit: $?"; grep -v "^  bounded\|^  ERROR" /tmp/sc.out | head -6); done
git -C /repo checkout -- .
