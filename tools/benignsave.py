#!/usr/bin/env python3
"""tools/benignsave.py <Cxx> <name> <exit-code-of-the-check> <comment...>: archive a confirmed behaviour-preserving change under /verif/benign/<name>/"""
import json, os, shutil, sys
p, name, code = sys.argv[1], sys.argv[2], int(sys.argv[3])
comment = " ".join(sys.argv[4:])
src = os.environ.get("SEED_SRC", f"/tmp/seed-{p}r")
dst = f"/verif/benign/{name}"
os.makedirs(dst, exist_ok=True)
for f in ("patch.diff", "equiv.py", "notes.md"):
    if os.path.exists(os.path.join(src, f)):
        shutil.copy(os.path.join(src, f), os.path.join(dst, f))
meta = dict(property=p, origin="independent sub-agent given only the property record and a scratch worktree; asked for a behaviour-preserving refactoring",
            confirmed=dict(tests_with_change="existing suite passes (test_predefined_assets is the known flaky one)",
                           equivalence="equiv.py prints the same digest with and without the change",
                           commands=[f"git -C /repo apply benign/{name}/patch.diff && ./check {p}; git -C /repo checkout -- ."]),
            check_exit=code, expected="no VIOLATION line (exit 0; exit 3 = the contracts no longer fit the restructured code: undecided, not an alarm)",
            comment=comment)
json.dump(meta, open(os.path.join(dst, "meta.json"), "w"), indent=1)
print("saved", dst)
