#!/bin/sh
# tools/seedall.sh [name-prefix]: regression over the archived seeded changes - apply each to /repo, run its property's quick check,
# expect a VIOLATION line, undo. Prints one line per change; exit 1 if one is missed.
cd /verif; rc=0
for d in seeded/${1:-}*/; do
  n=$(basename $d); p=$(python3 -c "import json;print(json.load(open('$d/meta.json'))['property'])")
  git -C /repo apply /verif/$d/patch.diff 2>/dev/null || { echo "$n: patch does not apply"; rc=1; continue; }
  out=$(./check $p 2>&1); code=$?
  git -C /repo checkout -- .
  v=$(echo "$out" | grep -c "^VIOLATION property=$p"); nf=$(echo "$out" | grep "^VIOLATION" | grep -c "no-failing-input-found")
  if [ "$v" -gt 0 ]; then echo "$n: caught ($v violation lines, $nf without input) exit=$code"; else echo "$n: MISSED exit=$code"; rc=1; fi
done
exit $rc
