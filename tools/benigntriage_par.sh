#!/bin/sh
# tools/benigntriage_par.sh <suffix> [jobs] [ids...]: confirm fresh behaviour-preserving changes in /tmp/wt-Cxx<suffix> (tests, equiv digest with / without)
# and run the property's check against the worktree (SIMFILE_REPO), in parallel; outputs under /tmp/triage-<suffix>/. /repo is not touched.
SFX=$1; J=${2:-6}; shift 2 2>/dev/null
IDS=${*:-01 02 03 04 05 06 07 08 09 10 11 12 13 14 15 16 17 18 19 20}
mkdir -p /tmp/triage-$SFX
printf '%s\n' $IDS | xargs -P $J -I{} sh -c '
  P=C{}; WT=/tmp/wt-${P}'$SFX'; OUT=/tmp/seed-${P}'$SFX'; R=/tmp/triage-'$SFX'/$P.txt
  cd $WT || exit 0
  git diff --quiet && { echo "$P: no change applied"; exit 0; }
  T=$(PYTHONPATH=$WT /venv/bin/python -m pytest -q -p no:cacheprovider 2>&1 | tail -1 | cut -c1-40)
  D1=$(PYTHONPATH=$WT /venv/bin/python $OUT/equiv.py 2>/dev/null | tail -1)
  git diff > $OUT/patch.diff; git apply -R $OUT/patch.diff
  D0=$(PYTHONPATH=$WT /venv/bin/python $OUT/equiv.py 2>/dev/null | tail -1)
  git apply $OUT/patch.diff
  [ "$D0" = "$D1" ] && EQ=equal || EQ=DIFFER
  (cd /verif && SIMFILE_REPO=$WT PYVC_OUT_DIR=/tmp/triage-'$SFX'/ev-$P ./check $P > $R 2>&1); E=$?
  V=$(grep -c "^VIOLATION" $R)
  echo "$P: tests[$T] digests $EQ check exit=$E violations=$V lines=$(git diff --stat | tail -1)"
' | sort
