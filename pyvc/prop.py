"""
Property runner: verification units -> obligations -> verdict, evidence, replay.

Exit codes (DESIGN 4.1): 0 held; 1 violation (VIOLATION line printed);
2 undecided (some obligation neither discharged nor refuted); 3 checker error.
"""
from __future__ import annotations

import importlib
import json
import multiprocessing as mp
import os
import sys
import time
import traceback

VERIF = os.path.dirname(os.path.dirname(os.path.abspath(__file__)))
# scratch runs (parallel regression over archived changes) write their evidence / replay files elsewhere
OUT_DIR = os.environ.get("PYVC_OUT_DIR") or VERIF


class Unit:
    """One function under contract in one configuration."""

    name = "unit"
    functions = ()          # qualified names of the real functions executed symbolically
    expected = ()           # obligation ids (or prefixes ending in '*') that must be generated
    max_paths = 4000

    def run(self, ex):
        raise NotImplementedError

    # optional: def replay(self, model) -> dict(reproduced=bool, detail=str, input=..., command=...)


class Bounded:
    """A bounded stand-in for a function out of the verifier's reach (never counted as proved)."""

    name = "bounded"
    function = ""
    bound = ""

    def run(self, tier, seed):
        """-> dict(cases=int, failures=[{input, detail}], seconds=float)"""
        raise NotImplementedError


def _run_unit(arg):
    modname, idx = arg
    t0 = time.time()
    try:
        from . import execu, omap, stdmodels, simobj, msd, fsys, heaps  # noqa: F401  (register theories)
        msd.install()
        fsys.install()
        mod = importlib.import_module(modname)
        unit = mod.UNITS[idx]
        res = execu.explore(unit, max_paths=getattr(unit, "max_paths", 4000))
        native = {}
        for k, o in enumerate(res.obligations):
            if o.status == "refuted":
                try:
                    native[k] = execu.native_replay(unit, o)
                except Exception as e:  # the adapter failing is not a verdict
                    native[k] = None
        out = dict(
            unit=unit.name, functions=list(unit.functions), paths=res.paths, aborted=res.aborted,
            vacuous_paths=res.vacuous_paths, covers=sorted(res.covers), errors=res.errors,
            assumptions=sorted(res.assumptions), seconds=res.seconds,
            obligations=[o.as_dict() for o in res.obligations], notes=sorted(set(res.notes)),
            state_writes=sorted(res.state_writes),
            expected=list(getattr(unit, "expected", ())),
        )
        # replay refuted obligations against the real code: the unit's own adapter first, then the generic native replay
        for k, o in enumerate(out["obligations"]):
            if o["status"] == "refuted" and hasattr(unit, "replay"):
                try:
                    o["replay"] = unit.replay(o.get("model") or {}, o)
                except Exception as e:  # replay adapter failure is not a verdict
                    o["replay"] = dict(reproduced=False, detail=f"replay adapter error: {type(e).__name__}: {e}")
            if o["status"] == "refuted" and native.get(k) and not (o.get("replay") or {}).get("reproduced"):
                if native[k].get("reproduced") or not o.get("replay"):
                    o["replay"] = native[k]
        return out
    except Exception:
        return dict(unit=f"{modname}[{idx}]", functions=[], paths=0, aborted=0, vacuous_paths=0, covers=[],
                    errors=["checker crash: " + traceback.format_exc()], assumptions=[], seconds=time.time() - t0,
                    obligations=[], notes=[], expected=[])


def _run_bounded(arg):
    modname, idx, tier, seed = arg
    t0 = time.time()
    try:
        mod = importlib.import_module(modname)
        b = _bounded_of(mod, tier)[idx]
        r = b.run(tier, seed)
        r.update(name=b.name, function=b.function, bound=b.bound(tier) if callable(b.bound) else b.bound, kind=getattr(b, "kind", "bounded"),
                 private=bool(getattr(b, "private", False)))
        r.setdefault("seconds", time.time() - t0)
        return r
    except Exception as exc:
        under_test = _raised_in_code_under_test(exc)
        if under_test is not None:
            # the real function raised something the oracle did not expect on an input of the stand-in's (in-domain) grid:
            # that is an answer of the code, not a failure of the checker
            try:
                nm, fnn, bd = b.name, b.function, (b.bound(tier) if callable(b.bound) else b.bound)
            except Exception:
                nm, fnn, bd = f"{modname}.BOUNDED[{idx}]", "?", "?"
            return dict(name=nm, function=fnn, bound=bd, kind=getattr(b, "kind", "bounded"), private=bool(getattr(b, "private", False)), cases=1, seconds=time.time() - t0,
                        failures=[dict(input=under_test, detail=f"the code under check raised {type(exc).__name__}: {exc} (an exception the statement does not provide for on this input)")])
        return dict(name=f"{modname}.BOUNDED[{idx}]", function="?", bound="?", cases=0, failures=[],
                    error="checker crash: " + traceback.format_exc(), seconds=time.time() - t0)


def _private_unit(u):
    """the unit's function under contract is a private helper (single leading underscore): its contract is a lemma on the way
    to the property, not the property"""
    fns = u.get("functions") or []
    if not fns:
        return False
    last = fns[0].split(".")[-1].split("#")[0]
    return last.startswith("_") and not last.startswith("__")


def _proof_internal(obligation_id):
    """obligations that are steps of an inductive argument about one loop, not statements about a function's result"""
    import re
    return bool(re.search(r"#loop\d+:|:inv-init|:inv-keep|:step\b|:step:", obligation_id))


def _search(mod, tier, seed, errors):
    """the property's statement-level search; an exception that escapes from the code under check while the search is
    exercising it on an in-domain input is a failing input, any other exception is a crash of the search"""
    try:
        return mod.witness_search(tier, seed)
    except Exception as e:
        under_test = _raised_in_code_under_test(e)
        if under_test is not None:
            return dict(reproduced=True, input=under_test,
                        detail=f"the code under check raised {type(e).__name__}: {e} (an exception the statement does not provide for on this input)")
        errors.append(f"witness search crashed: {type(e).__name__}: {e}")
        return None


def _raised_in_code_under_test(exc):
    """when the exception was raised in (or passed through) the repository under check after leaving the oracle: the
    oracle's local variables at the point of the call (the input being examined), else None"""
    root = os.path.realpath(os.environ.get("SIMFILE_REPO") or "/repo") + os.sep
    tb = exc.__traceback__
    frames = []
    while tb is not None:
        frames.append(tb.tb_frame)
        tb = tb.tb_next
    vroot = os.path.realpath(VERIF) + os.sep
    where = [os.path.realpath(f.f_code.co_filename) for f in frames]
    last_oracle = max((i for i, w in enumerate(where) if w.startswith(vroot)), default=None)
    if last_oracle is None or not any(w.startswith(root) for w in where[last_oracle + 1:]):
        return None         # raised by the oracle itself, or in a dependency it called directly
    oracle = [f for f, w in zip(frames, where) if w.startswith(vroot)]
    loc = {}
    for f in oracle[-2:]:
        for k, v in f.f_locals.items():
            if k.startswith("_") or callable(v) or isinstance(v, type(os)):
                continue
            try:
                r = repr(v)
            except Exception:
                continue
            if len(r) <= 400:
                loc[k] = r
    return dict(oracle_frame=oracle[-1].f_code.co_name, locals=loc)


def _child(fn, arg, conn):
    try:
        conn.send(fn(arg))
    finally:
        conn.close()


def _died(kind, arg, why):
    """the result of a task whose worker process ended without an answer (a solver crash, the kernel's OOM killer):
    a checker error (exit 3), never a verdict - and never a hang"""
    if kind == "unit":
        return dict(unit=f"{arg[0]}[{arg[1]}]", functions=[], paths=0, aborted=0, vacuous_paths=0, covers=[],
                    errors=[f"checker crash: {why}"], assumptions=[], seconds=0.0, obligations=[], notes=[], expected=[])
    return dict(name=f"{arg[0]}.BOUNDED[{arg[1]}]", function="?", bound="?", cases=0, failures=[],
                error=f"checker crash: {why}", seconds=0.0)


def _run_tasks(tasks, jobs):
    """one forked process per task, at most `jobs` at a time; results in task order. Unlike multiprocessing.Pool a worker
    that dies (libz3 has overflowed its stack on deeply nested terms) does not leave the run waiting forever."""
    from multiprocessing.connection import wait
    ctx = mp.get_context("fork")
    results = [None] * len(tasks)
    pending = list(range(len(tasks)))
    running = {}                      # recv connection -> (index, process)
    retried = set()
    while pending or running:
        while pending and len(running) < jobs:
            i = pending.pop(0)
            kind, fn, arg = tasks[i]
            r, w = ctx.Pipe(duplex=False)
            p = ctx.Process(target=_child, args=(fn, arg, w), daemon=True)
            p.start()
            w.close()
            running[r] = (i, p)
        for r in wait(list(running), timeout=5):
            i, p = running.pop(r)
            kind, fn, arg = tasks[i]
            try:
                results[i] = r.recv()
                p.join()
            except (EOFError, OSError):
                p.join()
                code = p.exitcode
                why = f"worker process ended by signal {-code}" if code is not None and code < 0 else f"worker process exited with code {code} and no result"
                if kind == "unit" and i not in retried:
                    retried.add(i)              # once more (a crash of the solver under load need not repeat)
                    pending.append(i)
                else:
                    results[i] = _died(kind, arg, why)
            finally:
                r.close()
    return results


def _bounded_of(mod, tier):
    """the bounded stand-ins of a property; the thorough tier adds the encoder cross-checks (guards of the verifier)"""
    return list(getattr(mod, "BOUNDED", [])) + (list(getattr(mod, "THOROUGH_BOUNDED", [])) if tier == "thorough" else [])


def load_known():
    p = os.path.join(VERIF, "known_findings.json")
    if not os.path.exists(p):
        return []
    with open(p) as f:
        return json.load(f).get("findings", [])


def run_property(pid, tier="quick", seed=0, jobs=None):
    t0 = time.time()
    modname = f"props.{pid}"
    sys.path.insert(0, VERIF)
    mod = importlib.import_module(modname)
    units = getattr(mod, "UNITS", [])
    bounded = _bounded_of(mod, tier)
    jobs = jobs or min(16, max(1, (os.cpu_count() or 4)))
    tasks = [("unit", _run_unit, (modname, i)) for i in range(len(units))]
    tasks += [("bounded", _run_bounded, (modname, i, tier, seed)) for i in range(len(bounded))]
    results = _run_tasks(tasks, jobs)
    unit_results, bounded_results = results[:len(units)], results[len(units):]

    # function-level frames: the state (fields of objects that existed before the call, module-level containers) each unit's
    # function writes, against the committed baseline frames.json (derived from the pinned code). A write outside the
    # baseline - a memo field, a class-level buffer, a module-level cache - is a frame obligation that needs a witness.
    frames_path = os.path.join(VERIF, "frames.json")
    try:
        with open(frames_path) as f:
            frames = json.load(f)
    except Exception:
        frames = {}
    if os.environ.get("PYVC_UPDATE_FRAMES") == "1":
        for u in unit_results:
            if not u["errors"]:
                frames[u["unit"]] = sorted(set(frames.get(u["unit"], [])) | set(u.get("state_writes", [])))
        with open(frames_path, "w") as f:
            json.dump(frames, f, indent=1, sort_keys=True)
    else:
        for u in unit_results:
            if u["unit"] not in frames:
                continue
            extra = sorted(set(u.get("state_writes", [])) - set(frames[u["unit"]]))
            if extra:
                u["obligations"].append(dict(id="frame:writes-no-state-beyond-its-modifies-set", status="refuted", seconds=0.0, path="", model=None, backend="write-log",
                                             vacuous=False, smt_size=0, auto_slots=[], needs_witness=True,
                                             detail=f"the function now also writes {extra} (its modifies set on the pinned tree: {frames[u['unit']]}); "
                                                    "state kept across calls can make a later call wrong"))
    obligations = [dict(o, unit=u["unit"], private_unit=_private_unit(u)) for u in unit_results for o in u["obligations"]]
    errors = [f"{u['unit']}: {e}" for u in unit_results for e in u["errors"]]
    for b in bounded_results:
        if b.get("error"):
            errors.append(f"{b['name']}: {b['error']}")
        if b.get("kind") == "encoder-crosscheck" and b.get("failures"):
            # the encoder disagrees with CPython: nothing this run proves can be believed - a checker error, not a violation
            for fl in b["failures"][:3]:
                errors.append(f"{b['name']}: encoder disagrees with CPython on {fl.get('input')}: {fl.get('detail')}")
            b["xcheck_failures"] = b.pop("failures")
            b["failures"] = []

    # aggregate per obligation id
    by_id = {}
    for o in obligations:
        k = f"{o['unit']}#{o['id']}"
        by_id.setdefault(k, []).append(o)
    id_status = {}
    for k, os_ in by_id.items():
        sts = {o["status"] for o in os_}
        if "refuted" in sts:
            id_status[k] = "refuted"
        elif "unknown" in sts:
            id_status[k] = "unknown"
        elif all(o["vacuous"] for o in os_):
            id_status[k] = "vacuous"
        else:
            id_status[k] = "discharged"

    # vacuity: expected obligations must exist
    for u in unit_results:
        have = {o["id"] for o in u["obligations"]}
        for e in u["expected"]:
            ok = any(h.startswith(e.rstrip("*")) for h in have)
            if not ok:
                errors.append(f"{u['unit']}: expected obligation {e} was not generated (vacuity guard)")
        if not u["obligations"] and not u["errors"]:
            errors.append(f"{u['unit']}: zero obligations generated")
    for k, st in id_status.items():
        if st == "vacuous":
            errors.append(f"{k}: only proved on paths with unsatisfiable hypotheses")

    # known findings for this property: replay natively, print KNOWN-FINDING while they reproduce
    known_lines = []
    kf_mod = getattr(mod, "KNOWN_FINDINGS", {})
    for kf in load_known():
        if kf.get("property") != pid or kf.get("status") != "known":
            continue
        fn = kf_mod.get(kf["id"])
        if fn is None:
            errors.append(f"known finding {kf['id']} has no replay function")
            continue
        try:
            still = fn()
        except Exception as e:
            errors.append(f"known finding {kf['id']} replay crashed: {e}")
            continue
        if still:
            known_lines.append(f"KNOWN-FINDING: property={pid} {kf['what']}")

    # violations
    violations = []
    os.makedirs(os.path.join(OUT_DIR, "replay"), exist_ok=True)
    refuted_ids = [k for k, st in id_status.items() if st == "refuted"]
    witness_cache = {}
    for n, k in enumerate(sorted(refuted_ids)):
        inst = [o for o in by_id[k] if o["status"] == "refuted"]
        o = inst[0]
        rp = o.get("replay")
        reproduced = bool(rp and rp.get("reproduced"))
        if reproduced and all(x.get("private_unit") for x in inst):
            # a counter-model that replays on a *private* helper shows that the helper no longer meets my contract for it, not
            # that the property fails: its interface may have changed together with its callers. Only an input of the public
            # API (the statement-level search, a public stand-in) makes it a violation.
            reproduced = False
        witness = None
        if not reproduced and hasattr(mod, "witness_search"):
            if "w" not in witness_cache:
                witness_cache["w"] = _search(mod, tier, seed, errors)
            witness = witness_cache["w"]
            if witness:
                reproduced = True
        if not reproduced and all(x.get("needs_witness") for x in inst):
            errors.append(f"{k}: {o['detail']} - no failing sequence of calls was found, so this is reported as undecided, not as a violation")
            continue
        if not reproduced and _proof_internal(k):
            # an inductive step of the proof (loop invariant at entry / preserved, relational step, loop frame) failed and
            # neither the counter-model nor the statement-level search gives a failing input: the loop contract does not fit
            # the loop any more (a rewritten loop carries other state, initialises it differently) or the code is wrong in a
            # way nothing here can exhibit. That is "not proved", reported as undecided with the obligation named.
            errors.append(f"{k}: the inductive proof fails here ({str(o['detail'])[:160]}) and no failing input was found - undecided, not a violation")
            continue
        if not reproduced and all(x.get("private_unit") for x in inst):
            # the contract of a private helper fails symbolically, the counter-model does not replay, and the search of the public
            # API finds nothing: the helper's internal interface may have changed with its callers (its contract is mine, not the
            # statement's). Undecided.
            errors.append(f"{k}: the contract of this private helper is not established ({str(o['detail'])[:160]}) and no failing input of the public API was found - undecided, not a violation")
            continue
        if not reproduced and all(x.get("auto_slots") for x in inst):
            # the proof failed in a context where the contract says nothing about a loop-carried local the code
            # introduced: without a failing input this is "needs contract", not a violation
            errors.append(f"{k}: not established; the loop contract does not constrain the loop-carried local(s) "
                          f"{sorted(set(a for x in inst for a in x['auto_slots']))} and no failing input was found")
            continue
        path = os.path.join("replay", f"{pid}-{n}.json")
        with open(os.path.join(OUT_DIR, path), "w") as f:
            json.dump(dict(property=pid, obligation=k, unit=o["unit"], verdict="refuted by " + o["backend"],
                           path=o["path"], formula=o["detail"], counter_model=o.get("model"),
                           replay_of_counter_model=rp, witness_from_search=witness,
                           reproduced_on_real_code=reproduced,
                           tree=_tree_sha(), rerun=f"./check {pid} --tier {tier}"), f, indent=1, default=str)
        violations.append((k, path, reproduced))
    public_evidence = bool(violations) or any(b.get("failures") and not b.get("private") for b in bounded_results)
    for b in bounded_results:
        if b.get("private") and b.get("failures") and not public_evidence:
            if "w" not in witness_cache and hasattr(mod, "witness_search"):
                witness_cache["w"] = _search(mod, tier, seed, errors)
            if not witness_cache.get("w"):
                fl = b["failures"][0]
                errors.append(f"bounded:{b['name']}: this stand-in calls a private helper directly and disagrees with it ({str(fl.get('detail'))[:160]}), but nothing "
                              f"that goes through the public API fails - the helper's interface may have changed with its callers. Undecided, not a violation")
                continue
        for i, fl in enumerate(b.get("failures", [])[:3]):
            safe = "".join(ch if ch.isalnum() or ch in "-_." else "_" for ch in b["name"])
            path = os.path.join("replay", f"{pid}-bounded-{safe}-{i}.json")
            with open(os.path.join(OUT_DIR, path), "w") as f:
                json.dump(dict(property=pid, obligation=f"bounded:{b['name']}", function=b["function"], bound=b["bound"],
                               failing_input=fl.get("input"), detail=fl.get("detail"), reproduced_on_real_code=True,
                               tree=_tree_sha(), rerun=f"./check {pid} --tier {tier}"), f, indent=1, default=str)
            violations.append((f"bounded:{b['name']}", path, True))

    # thorough tier: the statement-level search of the real API also runs when every obligation was discharged
    # (a labelled bounded cross-check of the contracts themselves; a hit is a real failing input)
    cross = None
    if tier == "thorough" and hasattr(mod, "witness_search") and not violations:
        t1 = time.time()
        witness_cache["w"] = _search(mod, tier, seed, errors)
        cross = dict(name="statement-level-search", function="public API of the property (contracts/oracles, props witness_search)",
                     bound="the property's own small input space (see props module)", cases=1, failures=1 if witness_cache.get("w") else 0,
                     seconds=round(time.time() - t1, 2), label="bounded - never counted as proved")
        if witness_cache.get("w"):
            path = os.path.join("replay", f"{pid}-search.json")
            with open(os.path.join(OUT_DIR, path), "w") as f:
                json.dump(dict(property=pid, obligation="statement-level-search",
                               verdict="every deductive obligation was discharged, but the statement-level search of the real code found a failing input (a gap in the contracts)",
                               witness_from_search=witness_cache["w"], reproduced_on_real_code=True, tree=_tree_sha(),
                               rerun=f"./check {pid} --tier thorough"), f, indent=1, default=str)
            violations.append(("statement-level-search", path, True))
    unknown_ids = [k for k, st in id_status.items() if st == "unknown"]
    # An undecided obligation is not a violation; but the bounded search of the real functions against
    # the executable statement may turn it into one (DESIGN 4.2 step 3).
    if unknown_ids and not violations and hasattr(mod, "witness_search"):
        if "w" not in witness_cache:
            witness_cache["w"] = _search(mod, tier, seed, errors)
        if witness_cache["w"]:
            k = sorted(unknown_ids)[0]
            o = by_id[k][0]
            path = os.path.join("replay", f"{pid}-0.json")
            with open(os.path.join(OUT_DIR, path), "w") as f:
                json.dump(dict(property=pid, obligation=k, unit=o["unit"],
                               verdict="obligation undecided by the solvers (unknown); failing input found by bounded search of the real functions against the executable statement",
                               path=o["path"], formula=o["detail"], counter_model=o.get("model"),
                               witness_from_search=witness_cache["w"], reproduced_on_real_code=True,
                               undecided_obligations=sorted(unknown_ids), tree=_tree_sha(),
                               rerun=f"./check {pid} --tier {tier}"), f, indent=1, default=str)
            violations.append((k, path, True))
    # The contracts do not fit the code any more (unsupported construct, loop shape changed, expected obligation not generated):
    # undecided for the deductive part - but the statement-level search of the real code may still show a failing input.
    if errors and not violations and hasattr(mod, "witness_search"):
        if "w" not in witness_cache:
            witness_cache["w"] = _search(mod, tier, seed, errors)
        if witness_cache.get("w"):
            path = os.path.join("replay", f"{pid}-search.json")
            with open(os.path.join(OUT_DIR, path), "w") as f:
                json.dump(dict(property=pid, obligation="statement-level-search",
                               verdict="the deductive part is undecided on this tree (see errors: the contracts no longer fit the code); "
                                       "the statement-level search of the real code found a failing input",
                               errors=errors[:6], witness_from_search=witness_cache["w"], reproduced_on_real_code=True, tree=_tree_sha(),
                               rerun=f"./check {pid} --tier {tier}"), f, indent=1, default=str)
            violations.append(("statement-level-search", path, True))
    n_ob = len(id_status)
    n_dis = sum(1 for st in id_status.values() if st == "discharged")

    # evidence
    level = getattr(mod, "LEVEL", "proof")
    backends = {}
    for o in obligations:
        backends[o["backend"]] = backends.get(o["backend"], 0) + 1
    solver_s = round(sum(o["seconds"] for o in obligations), 3)
    funcs = sorted({f for u in unit_results for f in u["functions"]})
    assumptions = sorted({a for u in unit_results for a in u["assumptions"]} | set(getattr(mod, "ASSUMPTIONS", [])))
    samples = []
    for k in sorted(by_id)[:: max(1, len(by_id) // 12)][:12]:
        o = by_id[k][0]
        samples.append(dict(obligation=k, status=id_status[k], backend=o["backend"], seconds=o["seconds"],
                            smt_chars=o["smt_size"], vc_instances=len(by_id[k]), formula=o["detail"][:240]))
    cov = dict(
        obligations=n_ob, discharged=n_dis,
        vc_instances=len(obligations),
        checker_cmd=f"./check {pid} --tier {tier}",
        trusted_base=list(getattr(mod, "TRUSTED", [])),
        functions_under_contract=funcs,
        units=[dict(unit=u["unit"], paths=u["paths"], obligations=len({o['id'] for o in u['obligations']}),
                    vc_instances=len(u["obligations"]), seconds=round(u["seconds"], 2), covers=u["covers"]) for u in unit_results],
        backends=backends, solver_seconds=solver_s,
        refuted=sorted(refuted_ids), unknown=sorted(unknown_ids),
        bounded=[dict(name=b["name"], function=b["function"], bound=b["bound"], cases=b.get("cases", 0),
                      failures=len(b.get("failures", [])), seconds=round(b.get("seconds", 0), 2),
                      label=("guard of the verifier (encoder / trusted theory vs CPython) - not evidence for the property; a disagreement is a checker error"
                             if b.get("kind") == "encoder-crosscheck" else "bounded - never counted as proved"),
                      **({"determined": b.get("determined"), "disagreements": len(b.get("xcheck_failures", []))} if b.get("kind") == "encoder-crosscheck" else {}))
                 for b in bounded_results] + ([cross] if cross else []),
        samples=samples,
        tree_sha=_tree_sha(),
        known_findings_reproduced=known_lines,
        errors=errors[:20],
        notes=sorted({n for u in unit_results for n in u["notes"]}),
    )
    if level != "proof":
        cov["explanation"] = getattr(mod, "EXPLANATION", "")
        cov["evaluations"] = sum(b.get("cases", 0) for b in bounded_results) + len(obligations)
        cov["distinct_nontrivial"] = n_ob + sum(b.get("distinct", b.get("cases", 0)) for b in bounded_results)
    ev = dict(property_id=pid, tier=tier, seed=seed, level=level, coverage=cov,
              assumptions=assumptions, wall_s=round(time.time() - t0, 2), violations=len(violations))
    os.makedirs(os.path.join(OUT_DIR, "evidence"), exist_ok=True)
    with open(os.path.join(OUT_DIR, "evidence", f"{pid}.json"), "w") as f:
        json.dump(ev, f, indent=1, default=str)

    # report
    print(f"[{pid}] tier={tier} units={len(units)} obligations={n_ob} discharged={n_dis} "
          f"refuted={len(refuted_ids)} unknown={len(unknown_ids)} bounded={len(bounded_results)} "
          f"errors={len(errors)} wall={ev['wall_s']}s")
    for ln in known_lines:
        print(ln)
    for b in bounded_results:
        print(f"  bounded {b['name']}: {b.get('cases', 0)} cases, {len(b.get('failures', []))} failures ({b['bound']})")
    if violations:
        for k, path, reproduced in violations:
            print(f"  failed obligation {k}")
            print(f"VIOLATION property={pid} replay={path}" + ("" if reproduced else " no-failing-input-found"))
        return 1
    if errors:
        for e in errors[:12]:
            print("  ERROR " + e.replace("\n", "\n    "))
        return 3
    if unknown_ids:
        for k in unknown_ids[:12]:
            print(f"  UNDECIDED {k}")
        return 2
    return 0


_sha = None


def _tree_sha():
    global _sha
    if _sha is None:
        from .source import repo
        _sha = repo().tree_sha()
    return _sha
