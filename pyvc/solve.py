"""Second back end: every `unknown` from z3 goes to cvc5 (CLI, --strings-exp)."""
import os
import subprocess
import tempfile

CVC5 = "/usr/bin/cvc5"


def cvc5_check(solver, extra, timeout_s=20, want_model=False):
    r = _cvc5_check(solver, extra, timeout_s, want_model)
    return r if want_model else r[0]


def _cvc5_check(solver, extra, timeout_s, want_model):
    if not os.path.exists(CVC5):
        return "unknown", ""
    solver.push()
    try:
        for e in extra:
            solver.add(e)
        smt = solver.to_smt2()
    finally:
        solver.pop()
    # z3's simplifier introduces its internal total versions of seq.nth
    smt = "(set-logic ALL)\n" + smt.replace("seq.nth_i", "seq.nth").replace("seq.nth_u", "seq.nth")
    with tempfile.NamedTemporaryFile("w", suffix=".smt2", delete=False, dir=os.environ.get("PYVC_TMP")) as f:
        f.write(smt)
        path = f.name
    try:
        args = [CVC5, "--strings-exp", f"--tlimit={timeout_s * 1000}"]
        if want_model:
            args += ["--produce-models", "--dump-models"]
        p = subprocess.run(args + [path], capture_output=True, text=True, timeout=timeout_s + 5)
        out = p.stdout.strip().splitlines()
        verdict = out[0] if out and out[0] in ("sat", "unsat") else "unknown"
        return verdict, ("\n".join(l for l in out[1:] if "!" in l and "define-fun" in l)[:3000] if verdict == "sat" else "")
    except Exception:
        return "unknown", ""
    finally:
        os.unlink(path)
