"""Second back end: every `unknown` from z3 goes to cvc5 (CLI, --strings-exp)."""
import os
import subprocess
import tempfile

CVC5 = "/usr/bin/cvc5"


def cvc5_check(solver, extra, timeout_s=20):
    if not os.path.exists(CVC5):
        return "unknown"
    solver.push()
    try:
        for e in extra:
            solver.add(e)
        smt = solver.to_smt2()
    finally:
        solver.pop()
    smt = "(set-logic ALL)\n" + smt
    with tempfile.NamedTemporaryFile("w", suffix=".smt2", delete=False, dir=os.environ.get("PYVC_TMP")) as f:
        f.write(smt)
        path = f.name
    try:
        p = subprocess.run([CVC5, "--strings-exp", f"--tlimit={timeout_s * 1000}", path],
                           capture_output=True, text=True, timeout=timeout_s + 5)
        out = p.stdout.strip().splitlines()
        return out[0] if out and out[0] in ("sat", "unsat") else "unknown"
    except Exception:
        return "unknown"
    finally:
        os.unlink(path)
