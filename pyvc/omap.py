"""
T-OD: trusted theory of collections.OrderedDict with str keys and
Optional[str] values (DESIGN 2.3 / 5.1).

An ordered map is the datatype value

    OMap = mk(has: Array[String,Bool], val: Array[String,OptStr],
              ord: Array[String,Int], clock: Int, cnt: Int)

`ord[k]` is the insertion stamp of a present key (iteration order = increasing
stamps), `clock` exceeds every stamp in use, `cnt` is the number of present
keys.  __setitem__ on a present key replaces the value in place; on an absent
key it appends (stamp = clock); __delitem__ clears `has`.  Because stamps of
other keys never change, "every other key and the insertion order are
untouched" is an array equality, proved and not assumed.

Python objects whose class derives from OrderedDict keep their map in the
heap field "__map__".  Iteration yields a symbolic sequence of (key, value)
with the facts: the key is present and maps to that value; distinct positions
hold distinct keys; stamps increase with the position.
"""
from __future__ import annotations

import collections
import z3

from .values import SV, STR, OSTR, INT, BOOL, TAbs, TOpt, is_sym, term, coerce, fresh, fresh_term, sv
from .execu import HObj, SymIter, Unsupported, concretize, _wrap_field
from . import models as M

S = z3.StringSort()
OS = OSTR.sort()

_dt = z3.Datatype("OMap")
_dt.declare("mk", ("has", z3.ArraySort(S, z3.BoolSort())), ("val", z3.ArraySort(S, OS)),
            ("ord", z3.ArraySort(S, z3.IntSort())), ("clock", z3.IntSort()), ("cnt", z3.IntSort()))
OMapSort = _dt.create()
T_OMAP = TAbs("OMap", OMapSort)

has_ = OMapSort.has
val_ = OMapSort.val
ord_ = OMapSort.ord
clock_ = OMapSort.clock
cnt_ = OMapSort.cnt
mk = OMapSort.mk

# the i-th item in iteration order (uninterpreted; constrained by `item_facts`)
key_at = z3.Function("om_key_at", OMapSort, z3.IntSort(), S)


def empty():
    return mk(z3.K(S, z3.BoolVal(False)), z3.K(S, OSTR.lift(None)), z3.K(S, z3.IntVal(0)), z3.IntVal(0), z3.IntVal(0))


def om_has(m, k):
    return z3.Select(has_(m), k)


def om_get(m, k):
    return z3.Select(val_(m), k)


def om_set(m, k, v):
    present = om_has(m, k)
    return mk(z3.Store(has_(m), k, z3.BoolVal(True)), z3.Store(val_(m), k, v),
              z3.If(present, ord_(m), z3.Store(ord_(m), k, clock_(m))),
              z3.If(present, clock_(m), clock_(m) + 1),
              z3.If(present, cnt_(m), cnt_(m) + 1))


def om_del(m, k):
    return mk(z3.Store(has_(m), k, z3.BoolVal(False)), val_(m), ord_(m), clock_(m), cnt_(m) - 1)


def wf(m):
    """well-formedness facts that do not need quantifiers"""
    return z3.And(cnt_(m) >= 0, clock_(m) >= cnt_(m))


def same_content(a, b, keys):
    """a and b agree on presence, value and relative order for the listed key terms"""
    cs = []
    for k in keys:
        cs.append(om_has(a, k) == om_has(b, k))
        cs.append(z3.Implies(om_has(a, k), om_get(a, k) == om_get(b, k)))
    return z3.And(cs)


def from_concrete(d):
    m = empty()
    for k, v in d.items():
        m = om_set(m, z3.StringVal(k), OSTR.lift(v))
    return z3.simplify(m)


def fresh_map(ex, hint="map"):
    m = fresh_term(OMapSort, hint)
    ex.assume(wf(m))
    return SV(m, T_OMAP)


def map_of(obj):
    v = obj.fields.get("__map__")
    if v is None:
        raise Unsupported(f"{obj.label} has no map state")
    return v.t


def is_map_obj(v):
    return isinstance(v, HObj) and issubclass(v.cls, collections.OrderedDict)


def keyterm(ex, k):
    if isinstance(k, str) or (is_sym(k) and k.ty.kind == "str"):
        return term(k, STR)
    if is_sym(k) and k.ty.kind == "opt" and k.ty.inner.kind == "str":
        # a None key would be legal python but never occurs; treat as unsupported path
        if ex.branch(k.ty.is_none(k.t), "key-none"):
            raise Unsupported("None used as a mapping key")
        return k.ty.val(k.t)
    raise Unsupported(f"mapping key {k!r}")


def valterm(ex, v):
    if v is None or isinstance(v, str):
        return OSTR.lift(v)
    if is_sym(v):
        if v.ty == OSTR:
            return v.t
        if v.ty.kind == "str":
            return OSTR.some(v.t)
    raise Unsupported(f"mapping value {v!r} (only str / None are modelled)")


def wrapval(t):
    return concretize(SV(z3.simplify(t), OSTR))


# ---------------------------------------------------------------------------
# OrderedDict methods as seen by interpreted code


def _method(ex, recv, name, args, kwargs):
    if isinstance(recv, X_Super):
        pass
    if not is_map_obj(recv):
        return NotImplemented
    if name == "__init__":
        if "__map__" not in recv.fields:
            ex.setfield(recv, "__map__", SV(empty(), T_OMAP))
        if args or kwargs:
            src = args[0] if args else None
            if src is not None:
                if is_map_obj(src):
                    ex.setfield(recv, "__map__", SV(map_of(src), T_OMAP))
                elif isinstance(src, dict):
                    for k, v in src.items():
                        _method(ex, recv, "__setitem__", [k, v], {})
                else:
                    raise Unsupported("OrderedDict(iterable)")
            for k, v in kwargs.items():
                _method(ex, recv, "__setitem__", [k, v], {})
        return None
    m = map_of(recv)
    if name == "__setitem__":
        k, v = args
        ex.setfield(recv, "__map__", SV(z3.simplify(om_set(m, keyterm(ex, k), valterm(ex, v))), T_OMAP))
        return None
    if name == "__getitem__":
        k = keyterm(ex, args[0])
        if not ex.branch(om_has(m, k), "has-key"):
            ex.raise_(KeyError, args[0], tag="omap-key")
        return wrapval(om_get(m, k))
    if name == "__delitem__":
        k = keyterm(ex, args[0])
        if not ex.branch(om_has(m, k), "has-key"):
            ex.raise_(KeyError, args[0], tag="omap-key")
        ex.setfield(recv, "__map__", SV(z3.simplify(om_del(m, k)), T_OMAP))
        return None
    if name == "__contains__":
        k = keyterm(ex, args[0])
        return concretize(SV(z3.simplify(om_has(m, k)), BOOL))
    if name == "get":
        k = keyterm(ex, args[0])
        default = args[1] if len(args) > 1 else kwargs.get("default")
        if default is None or isinstance(default, str) or (is_sym(default) and default.ty in (OSTR, STR)):
            return wrapval(z3.If(om_has(m, k), om_get(m, k), valterm(ex, default)))
        if ex.branch(om_has(m, k), "has-key"):
            return wrapval(om_get(m, k))
        return default
    if name == "__len__":
        return concretize(SV(z3.simplify(cnt_(m)), INT))
    if name == "items":
        return items_iter(ex, m)
    if name == "keys" or name == "__iter__":
        it = items_iter(ex, m)
        return SymIter(it.length, lambda ex_, i: it.at(ex_, i)[0], "keys", it.facts)
    if name == "values":
        it = items_iter(ex, m)
        return SymIter(it.length, lambda ex_, i: it.at(ex_, i)[1], "values", it.facts)
    if name == "__eq__":
        o = args[0]
        if not is_map_obj(o):
            return False
        return SV(om_eq(m, map_of(o)), BOOL)
    if name == "copy":
        raise Unsupported("OrderedDict.copy")
    if name in ("update", "pop", "popitem", "setdefault", "clear", "move_to_end"):
        raise Unsupported(f"OrderedDict.{name} is not modelled")
    return NotImplemented


class X_Super:  # placeholder to keep isinstance above cheap
    pass


om_eq = z3.Function("om_eq", OMapSort, OMapSort, z3.BoolSort())
"""OrderedDict.__eq__: same items in the same order.  Uninterpreted; reflexive by congruence."""


def items_iter(ex, m):
    n = cnt_(m)

    def at(ex_, i):
        k = key_at(m, i)
        return (concretize(SV(z3.simplify(k), STR)), wrapval(om_get(m, k)))

    def facts(ex_, i):
        k = key_at(m, i)
        return [om_has(m, k)]

    nc = z3.simplify(n)
    if z3.is_int_value(nc):
        # concrete map: recover the keys in stamp order
        keys = concrete_keys(m)
        if keys is not None:
            return _ConcreteItems([(k, wrapval(om_get(m, z3.StringVal(k)))) for k in keys])
    return SymIter(n, at, "items", facts)


class _ConcreteItems(list):
    pass


def concrete_keys(m):
    """keys of a map built by om_set/om_del on `empty()` with literal keys, in order; None if not literal."""
    try:
        order = []
        t = z3.simplify(m)
        # walk the `ord` store chain is fragile; evaluate by replaying from the has/ord arrays
        has, od = z3.simplify(has_(t)), z3.simplify(ord_(t))
        keys = set()

        def collect(a):
            while a.decl().kind() == z3.Z3_OP_STORE:
                k = a.arg(1)
                if not z3.is_string_value(k):
                    raise ValueError
                keys.add(k.as_string())
                a = a.arg(0)
            if a.decl().kind() != z3.Z3_OP_CONST_ARRAY:
                raise ValueError

        collect(has)
        collect(od)
        present = []
        for k in keys:
            h = z3.simplify(z3.Select(has, z3.StringVal(k)))
            if z3.is_true(h):
                o = z3.simplify(z3.Select(od, z3.StringVal(k)))
                if not z3.is_int_value(o):
                    raise ValueError
                present.append((o.as_long(), k))
            elif not z3.is_false(h):
                raise ValueError
        present.sort()
        return [k for _, k in present]
    except ValueError:
        return None


def _truthy(ex, v):
    if is_map_obj(v):
        return cnt_(map_of(v)) > 0
    return None


def _contains(ex, container, item):
    if is_map_obj(container):
        owner, raw = ex.class_attr(container.cls, "__contains__")
        clo = ex.wrap_real(raw, owner) if raw is not None else None
        if clo is not None:
            return ex.truthy(ex.call_closure(clo, [container, item], {}))
        r = _method(ex, container, "__contains__", [item], {})
        return r.t if is_sym(r) else r
    return NotImplemented


def _iter(ex, v):
    if is_map_obj(v):
        return _method(ex, v, "keys", [], {})
    return NotImplemented


def _len(ex, v):
    if is_map_obj(v):
        owner, raw = ex.class_attr(v.cls, "__len__")
        return _method(ex, v, "__len__", [], {})
    return NotImplemented


M.METHOD_HOOKS.append(_method)
M.TRUTHY_HOOKS.append(_truthy)
M.CONTAINS_HOOKS.append(_contains)
M.ITER_HOOKS.append(_iter)
M.LEN_HOOKS.append(_len)


def new_map_obj(ex, cls, m=None, label=None, **fields):
    """A heap object of an OrderedDict subclass with map state m (fresh if None)."""
    o = HObj(cls, fields, label)
    o.fields["__map__"] = fresh_map(ex, label or cls.__name__) if m is None else (m if is_sym(m) else SV(m, T_OMAP))
    return o
