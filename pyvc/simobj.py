"""
Simfile / chart objects as values (DESIGN 2.3): a chart in a charts list is the
datatype value ChartV(map, extradata); reading an element gives a transient
heap object, appending an object stores its current value (value semantics:
the repository never mutates a chart after appending it - assumption A-CHARTVAL).
"""
from __future__ import annotations

import copy
import z3

from .values import Ty, SV, STR, OSTR, TSeq, TOpt, is_sym, term
from .execu import HObj, Unsupported
from . import omap as O
from . import models as M
from . import stdmodels as SM

SEQ_STR = TSeq(STR)
OPT_SEQ_STR = TOpt(SEQ_STR)

_dt = z3.Datatype("ChartV")
_dt.declare("mk", ("cmap", O.OMapSort), ("extra", OPT_SEQ_STR.sort()))
ChartSort = _dt.create()
cmap = ChartSort.cmap
cextra = ChartSort.extra


class TChart(Ty):
    kind = "chart"

    def __init__(self, cls):
        self.cls = cls

    def key(self):
        return (self.cls,)

    def sort(self):
        return ChartSort

    def wrap_obj(self, t):
        t = z3.simplify(t)
        o = HObj(self.cls, {"__map__": SV(z3.simplify(cmap(t)), O.T_OMAP)}, f"{self.cls.__name__}@elem")
        if self.cls.__name__ == "SMChart":
            from .execu import concretize
            o.fields["extradata"] = concretize(SV(z3.simplify(cextra(t)), OPT_SEQ_STR))
        o.transient = True
        return o

    def lift_obj(self, obj):
        return chart_value(obj)

    def lift(self, v):
        if isinstance(v, HObj):
            return chart_value(v)
        return chart_value(import_real(None, v))

    def unlift(self, mv, model=None):
        return str(mv)

    def __repr__(self):
        return f"chart[{self.cls.__name__}]"


def chart_value(obj: HObj):
    ex = obj.fields.get("extradata")
    if ex is None:
        et = OPT_SEQ_STR.lift(None)
    elif is_sym(ex):
        et = ex.t if ex.ty == OPT_SEQ_STR else OPT_SEQ_STR.some(ex.t)
    else:
        et = OPT_SEQ_STR.lift(list(ex))
    return ChartSort.mk(O.map_of(obj), et)


def new_simfile(ex, cls, charts_cls, chart_cls, label="simfile", m=None, charts=None):
    """heap object for an SM/SSC simfile with a fresh (or given) map and a symbolic charts list"""
    sf = O.new_map_obj(ex, cls, m=m, label=label)
    if charts is None:
        from .values import fresh
        charts = fresh(TSeq(TChart(chart_cls)), f"{label}_charts")
    sf.fields["_charts"] = SM.new_userlist(charts_cls, charts, f"{label}.charts")
    return sf


def charts_term(sf: HObj, chart_cls):
    d = sf.fields["_charts"].fields["data"]
    if is_sym(d):
        return d.t
    return TSeq(TChart(chart_cls)).lift(d)


def import_real(ex, obj):
    """a real object of a repository class (closed term, e.g. X.blank()) -> interpreter object"""
    import collections
    from simfile.base import BaseSimfile, BaseChart, BaseCharts
    if isinstance(obj, BaseChart):
        o = HObj(type(obj), {"__map__": SV(O.from_concrete(dict(collections.OrderedDict.items(obj))), O.T_OMAP)}, type(obj).__name__)
        if hasattr(obj, "extradata") and type(obj).__name__ == "SMChart":
            o.fields["extradata"] = None if obj.extradata is None else list(obj.extradata)
        if ex is not None and ex.writes is not None:
            o._born = ex.writes
        return o
    if isinstance(obj, BaseSimfile):
        o = HObj(type(obj), {"__map__": SV(O.from_concrete(dict(collections.OrderedDict.items(obj))), O.T_OMAP)}, type(obj).__name__)
        if hasattr(obj, "_charts"):
            chart_cls = type(obj._charts).__orig_bases__[0].__args__[0] if False else None
            data = [import_real(ex, c) for c in obj._charts]
            ccls = _chart_cls_of(type(obj))
            o.fields["_charts"] = SM.new_userlist(type(obj._charts), SV(TSeq(TChart(ccls)).lift(data), TSeq(TChart(ccls))), "charts")
        if ex is not None and ex.writes is not None:
            o._born = ex.writes
            if "_charts" in o.fields:
                o.fields["_charts"]._born = ex.writes
        return o
    raise Unsupported(f"import of real object {obj!r}")


def _chart_cls_of(simfile_cls):
    import simfile.sm as sm, simfile.ssc as ssc
    return sm.SMChart if issubclass(simfile_cls, sm.SMSimfile) else ssc.SSCChart


def _deepcopy(ex, args, kwargs):
    v = args[0]
    if v is None or isinstance(v, (str, int, float, tuple, frozenset)) or is_sym(v):
        return v
    if isinstance(v, HObj):
        ex.assumptions_used.add("T-OD: copy.deepcopy returns an equal object that shares nothing with its argument")
        o = HObj(v.cls, {}, v.label + "'")
        if ex.writes is not None:
            o._born = ex.writes
        for k, x in v.fields.items():
            if isinstance(x, HObj):
                o.fields[k] = _deepcopy(ex, [x], {})
            elif isinstance(x, list):
                o.fields[k] = [_deepcopy(ex, [y], {}) for y in x]
            else:
                o.fields[k] = x
        return o
    if isinstance(v, list):
        return [_deepcopy(ex, [y], {}) for y in v]
    return copy.deepcopy(v)


def _shallow_copy(ex, args, kwargs):
    v = args[0]
    if isinstance(v, HObj):
        ex.assumptions_used.add("T-OD: copy.copy of a mapping object is a new mapping with the same items whose instance attributes are shared by reference")
        o = HObj(v.cls, dict(v.fields), v.label + "~")
        if ex.writes is not None:
            o._born = ex.writes
        return o
    if isinstance(v, list):
        return list(v)
    if v is None or is_sym(v) or isinstance(v, (str, int, float, tuple, frozenset)):
        return v
    return copy.copy(v)


M.REAL_CALL[copy.deepcopy] = _deepcopy
M.REAL_CALL[copy.copy] = _shallow_copy


def blank_contract(cls):
    def c(ex, args, kwargs):
        # closed term: the real blank() of the working tree, evaluated (it has no inputs)
        ex.assumptions_used.add(f"closed term {cls.__name__}.blank() evaluated on the working tree")
        return import_real(ex, cls.blank())
    return c


def install_blanks(ex):
    import simfile.sm as sm, simfile.ssc as ssc
    for cls, q in ((sm.SMSimfile, "simfile.sm.SMSimfile.blank"), (sm.SMChart, "simfile.sm.SMChart.blank"),
                   (ssc.SSCSimfile, "simfile.ssc.SSCSimfile.blank"), (ssc.SSCChart, "simfile.ssc.SSCChart.blank")):
        ex.callee_contracts[q] = blank_contract(cls)
