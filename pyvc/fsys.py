"""
T-FS / T-CODEC: ghost file system (DESIGN 2.3, 5.1).

State: one term  fs : Array[String -> OptBytes]  kept in ex.ghost["fs"] and shared
by every file-system object of the run (NativeOSFS and any PyFilesystem are both
*assumed* to behave like this).  Bytes are an uninterpreted sort with

    textread(enc, bytes) : String      decodable(enc, bytes) : Bool
    textwrite(enc, text) : Bytes       encodable(enc, text)  : Bool

open(name, 'r', encoding=e):  FileNotFoundError iff the file does not exist; otherwise a
    text file whose content is textread(e, fs[name]); reading it raises UnicodeDecodeError
    iff not decodable(e, fs[name]).
open(name, 'w', encoding=e):  either raises OSError with fs unchanged (fault), or truncates
    (fs[name] := textwrite(e, "")) and returns a writer.
writer.write(s): raises UnicodeEncodeError (nothing of s appended) iff not encodable(e, s);
    may raise OSError (fault); otherwise fs[name] := textwrite(e, everything written so far).
Leaving the `with` block closes the file.  listdir / isdir / exists are functions of the
(unchanging) directory tree.
"""
from __future__ import annotations

import io
import z3

from .values import Ty, SV, STR, OSTR, INT, BOOL, TSeq, TOpt, TAbs, is_sym, term, fresh_term, strval
from .execu import HObj, Unsupported, PyRaise, Bound, concretize
from . import models as M
from . import msd as MSD

S = z3.StringSort()
Bytes = z3.DeclareSort("Bytes")
_ob = z3.Datatype("OptBytes")
_ob.declare("absent")
_ob.declare("data", ("bytes", Bytes))
OptBytes = _ob.create()
FsSort = z3.ArraySort(S, OptBytes)

textread = z3.Function("textread", S, Bytes, S)
decodable = z3.Function("decodable", S, Bytes, z3.BoolSort())
textwrite = z3.Function("textwrite", S, S, Bytes)
textread_raw = z3.Function("textread_raw", S, Bytes, S)        # the same without universal-newline translation (newline="")
textwrite_raw = z3.Function("textwrite_raw", S, S, Bytes)
encodable = z3.Function("encodable", S, S, z3.BoolSort())
listing = z3.Function("fs_listdir", S, TSeq(STR).sort())
isdir_ = z3.Function("fs_isdir", S, z3.BoolSort())
exists_ = z3.Function("fs_exists", S, z3.BoolSort())


def fs_of(ex):
    if "fs" not in ex.ghost:
        ex.ghost["fs"] = fresh_term(FsSort, "fs0")
        ex.ghost["fs0"] = ex.ghost["fs"]
    return ex.ghost["fs"]


def set_fs(ex, t):
    if ex.nofork:
        from .execu import _WouldFork
        raise _WouldFork()
    ex.ghost["fs"] = t
    if ex.writes is not None:
        ex.writes.append(("ghost", "fs"))


def is_fs(v):
    try:
        from fs.base import FS
    except Exception:
        return False
    return isinstance(v, HObj) and isinstance(v.cls, type) and issubclass(v.cls, FS)


def new_fs(ex, cls=None):
    if cls is None:
        from simfile._private.nativeosfs import NativeOSFS
        cls = NativeOSFS
    fs_of(ex)
    o = HObj(cls, {}, cls.__name__)
    if getattr(ex, "depth", 0) == 0 and "caller_fs" not in ex.ghost:
        ex.ghost["caller_fs"] = o        # the first filesystem a unit creates is the one it passes as filesystem=
    return o


def _fs_new(ex, cls, args, kwargs):
    return new_fs(ex, cls)


class FaultPlan:
    """which injected OS faults a unit allows (C06 enumerates them; C05 assumes none)"""

    def __init__(self, open_write=False, write=False):
        self.open_write = open_write
        self.write = write


def faults(ex):
    return ex.ghost.get("faults") or FaultPlan()


def fs_open(ex, args, kwargs):
    """filesystem.open(name, mode='r', encoding=..., **kw)"""
    a = list(args)
    name = a[0] if a else kwargs.get("path", kwargs.get("file"))
    mode = a[1] if len(a) > 1 else kwargs.get("mode", "r")
    enc = kwargs.get("encoding")
    if enc is None:
        enc = "<locale default encoding>"      # open() without encoding=: whatever the platform prefers
    nt, et = term(name, STR), term(enc, STR)
    nl = kwargs.get("newline", None)
    if nl not in (None, ""):
        raise Unsupported(f"open(..., newline={nl!r})")
    rd, wr = (textread, textwrite) if nl is None else (textread_raw, textwrite_raw)       # newline="": no translation of line breaks
    extra = set(kwargs) - {"encoding", "newline", "path", "file", "mode"}
    if extra:
        raise Unsupported(f"filesystem.open with arguments {sorted(extra)}")
    fs = fs_of(ex)
    ex.assumptions_used.add("T-FS: ghost file system contract for open/read/write/close (NativeOSFS and PyFilesystem both assumed to satisfy it)")
    ex.ghost.setdefault("fs_calls", []).append(("open", mode, nt, et))
    if mode == "r":
        cell = z3.Select(fs, nt)
        if not ex.branch(OptBytes.is_data(cell), "file-exists"):
            ex.raise_(FileNotFoundError, "No such file or directory", tag="open-missing")
        b = OptBytes.bytes(cell)
        f = HObj(io.TextIOWrapper, {"content": SV(rd(et, b), STR), "pos": 0, "name": name, "mode": "r",
                                    "undecodable": z3.Not(decodable(et, b)), "enc": enc, "closed": False}, "textfile")
        if ex.writes is not None:
            f._born = ex.writes
        return f
    if mode == "w":
        if faults(ex).open_write:
            if ex.branch(fresh_term(z3.BoolSort(), "fault_open_w"), "fault:open-w"):
                ex.raise_(OSError, "cannot open for writing", tag="fault:open-w")
        set_fs(ex, z3.Store(fs, nt, OptBytes.data(wr(et, strval("")))))
        w = HObj(MSD._Writer, {"name": name, "enc": enc, "out": SV(z3.Empty(MSD.FRAGS), MSD.T_FRAGS), "closed": False, "nt": nt, "et": et, "wr": wr}, "writer")
        if ex.writes is not None:
            w._born = ex.writes
        return w
    raise Unsupported(f"open mode {mode!r}")


def _write_hook(ex, f, s):
    if not (isinstance(f, HObj) and f.cls is MSD._Writer):
        return NotImplemented
    if not (isinstance(s, str) or (is_sym(s) and s.ty.kind == "str")):
        ex.raise_(TypeError, "write() argument must be str", tag="write-nonstr")
    st = term(s, STR)
    et, nt = f.fields["et"], f.fields["nt"]
    if not ex.branch(encodable(et, st), "encodable"):
        ex.raise_(UnicodeEncodeError, "codec can't encode character", tag="unencodable")
    if faults(ex).write and not f.fields.get("__suppress_faults__"):
        if ex.branch(fresh_term(z3.BoolSort(), "fault_write"), "fault:write"):
            ex.raise_(OSError, "write failed", tag="fault:write")
    out = z3.Concat(f.fields["out"].t, *MSD.frags_of(ex, s)) if MSD.frags_of(ex, s) else f.fields["out"].t
    ex.setfield(f, "out", SV(out, MSD.T_FRAGS))
    set_fs(ex, z3.Store(fs_of(ex), nt, OptBytes.data(f.fields.get("wr", textwrite)(et, MSD.frag_text(out)))))
    return SV(z3.Length(st), INT)


MSD.WRITE_HOOKS.append(_write_hook)


def _with_enter(ex, cm):
    if isinstance(cm, HObj) and cm.cls in (io.TextIOWrapper, io.StringIO, MSD._Writer):
        return cm
    return NotImplemented


def _with_exit(ex, cm, exc):
    if isinstance(cm, HObj) and cm.cls in (io.TextIOWrapper, io.StringIO, MSD._Writer):
        cm.fields["closed"] = True
        ex.ghost.setdefault("closed_files", []).append((cm, exc is None))
        return None
    return NotImplemented


M.WITH_HOOKS.append((_with_enter, _with_exit))


def _through_callers_fs(ex, name, recv):
    """frame obligation at every file-system operation: it goes through the filesystem object the unit handed to the function
    under contract (the ghost store is one array; in reality a default NativeOSFS() and the caller's filesystem are different stores)"""
    ex.ghost.setdefault("fs_receivers", []).append((name, recv))
    mine = ex.ghost.get("caller_fs")
    if mine is not None:
        ex.prove("frame:file-system-operations-go-through-the-callers-filesystem", z3.BoolVal(recv is mine),
                 f"{name}() on {recv.label if hasattr(recv, 'label') else recv!r}; the caller passed {mine.label}")


def only_through(ex, fs):
    """every file-system operation of this path went through the object `fs` (there is one ghost store: an operation on
    another filesystem object - a default NativeOSFS() instead of the caller's - would touch a different store in reality)"""
    return all(r is fs for _, r in ex.ghost.get("fs_receivers", []))


def _fs_method(ex, recv, name, args, kwargs):
    if not is_fs(recv):
        return NotImplemented
    if name in ("open", "listdir", "isdir", "exists"):
        _through_callers_fs(ex, name, recv)
    if name == "open":
        return fs_open(ex, args, kwargs)
    if name == "listdir":
        ex.assumptions_used.add("T-FS: listdir/isdir/exists are functions of an unchanging directory tree")
        return SV(listing(term(args[0], STR)), TSeq(STR))
    if name == "isdir":
        return SV(isdir_(term(args[0], STR)), BOOL)
    if name == "exists":
        return SV(exists_(term(args[0], STR)), BOOL)
    if name == "__init__":
        return None
    return NotImplemented


M.METHOD_HOOKS.append(_fs_method)


def _fs_attr(ex, obj, name):
    if is_fs(obj) and name in ("open", "listdir", "isdir", "exists"):
        return Bound(obj, None, name)
    if isinstance(obj, HObj) and obj.cls is io.TextIOWrapper and name == "name":
        return obj.fields["name"]
    return NotImplemented


M.ATTR_HOOKS.insert(0, _fs_attr)


def install(ex=None):
    from fs.base import FS
    M.REAL_CALL[io.open] = _io_open
    M.CLASS_NEW[FS] = _fs_new
    import simfile._private.nativeosfs as n
    M.CLASS_NEW[n.NativeOSFS] = _fs_new


def native_open_contract(ex, args, kwargs):
    """NativeOSFS.open(*args, **kwargs) -> io.open: the same T-FS contract"""
    _through_callers_fs(ex, "open", args[0])
    # NativeOSFS.open itself is under contract: its body is executed (it hands its arguments to io.open, which is the T-FS
    # model below), so a change of the arguments it passes on - a different `newline`, a dropped encoding - is seen
    import simfile._private.nativeosfs as n
    q = "simfile._private.nativeosfs.NativeOSFS.open"
    cc = ex.callee_contracts.pop(q, None)
    try:
        return ex.call_closure(ex.closure_of(q, owner=n.NativeOSFS), list(args), dict(kwargs))
    finally:
        if cc is not None:
            ex.callee_contracts[q] = cc


def _io_open(ex, args, kwargs):
    """io.open / builtins.open(file, mode='r', buffering=-1, encoding=None, errors=None, newline=None, ...)"""
    names = ["file", "mode", "buffering", "encoding", "errors", "newline", "closefd", "opener"]
    kw = dict(kwargs)
    for nm, a in zip(names, args):
        kw[nm] = a
    for nm, dflt in (("buffering", -1), ("errors", None), ("closefd", True), ("opener", None)):
        if kw.pop(nm, dflt) != dflt:
            raise Unsupported(f"open(..., {nm}=...) with a non-default value")
    unknown = set(kw) - {"file", "mode", "encoding", "newline"}
    if unknown:
        raise Unsupported(f"open() with arguments {sorted(unknown)}")
    rest = {k: v for k, v in kw.items() if k in ("encoding", "newline")}
    return fs_open(ex, [kw.get("file"), kw.get("mode", "r")], rest)


# ---------------------------------------------------------------------------
# T-PATH: os.path / fs.path as uninterpreted functions with the few laws used

os_join = z3.Function("os_path_join", S, S, S)
os_normpath = z3.Function("os_path_normpath", S, S)
os_split_head = z3.Function("os_path_split_head", S, S)
os_split_tail = z3.Function("os_path_split_tail", S, S)
fs_join = z3.Function("fs_path_join", S, S, S)
fs_normpath = z3.Function("fs_path_normpath", S, S)
fs_split_head = z3.Function("fs_path_split_head", S, S)
fs_split_tail = z3.Function("fs_path_split_tail", S, S)
splitext_root = z3.Function("os_path_splitext_root", S, S)
splitext_ext = z3.Function("os_path_splitext_ext", S, S)


def _pstr(ex, v):
    """a path argument: Optional values are unwrapped (None -> TypeError, as os.path does)"""
    if is_sym(v) and v.ty.kind == "opt":
        if ex.branch(v.ty.is_none(v.t), "path-none"):
            ex.raise_(TypeError, "expected str, bytes or os.PathLike object, not NoneType", tag="path-none")
        return v.ty.val(v.t)
    if v is None:
        ex.raise_(TypeError, "expected str, bytes or os.PathLike object, not NoneType", tag="path-none")
    return term(v, STR)


def _join_model(f):
    def m(ex, args, kwargs):
        if len(args) != 2:
            raise Unsupported("path join with other than two parts")
        ex.assumptions_used.add("T-PATH: os.path / fs.path join, split, normpath, splitext as uninterpreted functions")
        return SV(f(_pstr(ex, args[0]), _pstr(ex, args[1])), STR)
    return m


def _norm_model(f):
    def m(ex, args, kwargs):
        ex.assumptions_used.add("T-PATH: os.path / fs.path join, split, normpath, splitext as uninterpreted functions")
        return SV(f(_pstr(ex, args[0])), STR)
    return m


def _split_model(h, t):
    def m(ex, args, kwargs):
        ex.assumptions_used.add("T-PATH: os.path / fs.path join, split, normpath, splitext as uninterpreted functions")
        p = _pstr(ex, args[0])
        return (SV(h(p), STR), SV(t(p), STR))
    return m


def install_paths():
    import os.path
    import fs.path
    M.REAL_CALL[os.path.join] = _join_model(os_join)
    M.REAL_CALL[os.path.normpath] = _norm_model(os_normpath)
    M.REAL_CALL[os.path.split] = _split_model(os_split_head, os_split_tail)
    M.REAL_CALL[os.path.splitext] = _split_model(splitext_root, splitext_ext)
    M.REAL_CALL[fs.path.join] = _join_model(fs_join)
    M.REAL_CALL[fs.path.normpath] = _norm_model(fs_normpath)
    M.REAL_CALL[fs.path.split] = _split_model(fs_split_head, fs_split_tail)


_install0 = install


def install(ex=None):
    _install0(ex)
    install_paths()


def native_listdir_contract(ex, args, kwargs):
    return _fs_method(ex, args[0], "listdir", list(args[1:]), kwargs)
