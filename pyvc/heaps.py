"""
T-STD: heapq on a list of Note values, as an abstract priority queue ordered by Note.__lt__.

    hpush(h, x), hpop(h), hmin(h), hsize(h), hcols(h, c) ("some element has column c")

Assumed laws (instantiated where the operations are used):
    hsize(hpush(h, x)) == hsize(h) + 1          hcols(hpush(h, x), c) == hcols(h, c) or column(x) == c
    hsize(h) > 0 -> hsize(hpop(h)) == hsize(h) - 1
    hsize(hempty) == 0, not hcols(hempty, c), hsize(h) >= 0
    heappop returns hmin(h): an element that no other element is `<` (min-heap under `<` only)
"""
from __future__ import annotations

import heapq
import z3

from .values import SV, INT, BOOL, TNT, TAbs, is_sym, term, fresh_term
from .execu import HObj, NTVal, SymIter, Unsupported, _wrap_field
from . import models as M

HeapSort = z3.DeclareSort("NoteHeap")
T_HEAP = TAbs("NoteHeap", HeapSort)
_f = {}


def note_ty():
    import simfile.notes as n
    return TNT(n.Note)


def F():
    if not _f:
        NT = note_ty().sort()
        _f["hempty"] = z3.Const("hempty", HeapSort)
        _f["hpush"] = z3.Function("hpush", HeapSort, NT, HeapSort)
        _f["hpop"] = z3.Function("hpop", HeapSort, HeapSort)
        _f["hmin"] = z3.Function("hmin", HeapSort, NT)
        _f["hsize"] = z3.Function("hsize", HeapSort, z3.IntSort())
        _f["hcols"] = z3.Function("hcols", HeapSort, z3.IntSort(), z3.BoolSort())
        _f["hlist"] = z3.Function("hlist", HeapSort, z3.SeqSort(NT))   # the list in array order (unspecified beyond its length and first element)
    return _f


def is_heap(v):
    return isinstance(v, HObj) and v.cls is list and "heap" in v.fields


def new_heap(ex, t, label="heap"):
    o = HObj(list, {"heap": t}, label)
    if ex is not None and ex.writes is not None:
        o._born = ex.writes
    return o


def heap_term(ex, v):
    """abstract value of a heap variable (a plain empty python list is the empty heap)"""
    if is_heap(v):
        return v.fields["heap"]
    if isinstance(v, list) and not v:
        return F()["hempty"]
    raise Unsupported(f"heap value {v!r}")


def base_facts(ex, h):
    f = F()
    ex.assume(z3.And(f["hsize"](h) >= 0, f["hsize"](f["hempty"]) == 0), "T-STD heapq: sizes")


def _heappush(ex, args, kwargs):
    lst, x = args
    f = F()
    ex.assumptions_used.add("T-STD: heapq on a list as an abstract min-priority queue under `<`")
    h = heap_term(ex, lst)
    xt = x.term() if isinstance(x, NTVal) else term(x, note_ty())
    h2 = f["hpush"](h, xt)
    c = fresh_term(z3.IntSort(), "anycol")
    ex.assume(z3.And(f["hsize"](h2) == f["hsize"](h) + 1), "T-STD heapq: push")
    ex.ghost.setdefault("heap_pushes", []).append((h, xt, h2))
    if is_heap(lst):
        ex.setfield(lst, "heap", h2)
    else:
        raise Unsupported("heappush on a concrete list that is not loop state")
    return None


def _heappop(ex, args, kwargs):
    (lst,) = args
    f = F()
    h = heap_term(ex, lst)
    base_facts(ex, h)
    if not ex.branch(f["hsize"](h) > 0, "heap-nonempty"):
        ex.raise_(IndexError, "index out of range", tag="heap-empty")
    h2 = f["hpop"](h)
    ex.assume(f["hsize"](h2) == f["hsize"](h) - 1, "T-STD heapq: pop")
    ex.setfield(lst, "heap", h2)
    return _wrap_field(note_ty(), f["hmin"](h))


M.REAL_CALL[heapq.heappush] = _heappush
M.REAL_CALL[heapq.heappop] = _heappop


def _truthy(ex, v):
    if is_heap(v):
        h = v.fields["heap"]
        base_facts(ex, h)
        return F()["hsize"](h) > 0
    return None


def _getitem(ex, obj, key):
    if is_heap(obj):
        if not (isinstance(key, int) and key == 0):
            raise Unsupported("heap[k] for k != 0")
        h = obj.fields["heap"]
        base_facts(ex, h)
        if not ex.branch(F()["hsize"](h) > 0, "heap-nonempty"):
            ex.raise_(IndexError, "list index out of range", tag="heap-empty")
        return _wrap_field(note_ty(), F()["hmin"](h))
    return NotImplemented


class HeapColumns:
    """(t.column for t in heap)"""

    def __init__(self, h):
        self.h = h


def _iter(ex, v):
    if is_heap(v):
        h = v.fields["heap"]
        it = SymIter(F()["hsize"](h), lambda ex_, i: (_ for _ in ()).throw(Unsupported("indexing into a heap")), "heap")
        it.heap = h
        return it
    if isinstance(v, HeapColumns):
        raise Unsupported("iteration over heap columns")
    return NotImplemented


def _comprehension(ex, e, frame, it, gi):
    import ast
    h = getattr(it, "heap", None)
    if h is None or gi != 0 or len(e.generators) != 1 or e.generators[0].ifs:
        return NotImplemented
    g = e.generators[0]
    if isinstance(g.target, ast.Name) and isinstance(e.elt, ast.Attribute) and isinstance(e.elt.value, ast.Name) \
            and e.elt.value.id == g.target.id and e.elt.attr == "column":
        return HeapColumns(h)
    return NotImplemented


def _contains(ex, container, item):
    if isinstance(container, HeapColumns):
        return F()["hcols"](container.h, term(item, INT))
    return NotImplemented


def _yield_from(ex, v, sty):
    """`yield from heap`: the elements in array order - only the length and the first element are known"""
    if not is_heap(v):
        return None
    f = F()
    h = v.fields["heap"]
    base_facts(ex, h)
    ex.assume(z3.And(z3.Length(f["hlist"](h)) == f["hsize"](h),
                     z3.Implies(f["hsize"](h) > 0, f["hlist"](h)[0] == f["hmin"](h))), "T-STD heapq: array order")
    return f["hlist"](h)


M.YIELD_FROM_HOOKS.append(_yield_from)
M.TRUTHY_HOOKS.append(_truthy)
M.GETITEM_HOOKS.append(_getitem)
M.ITER_HOOKS.append(_iter)
M.COMPREHENSION_HOOKS.insert(0, _comprehension)
M.CONTAINS_HOOKS.append(_contains)


def heap_slot(name):
    """a local that is used as a heapq list: loop state of abstract type NoteHeap"""
    from .execu import Slot

    def g(ex, fr):
        return SV(heap_term(ex, fr.locals[name]), T_HEAP)

    def s(ex, fr, v):
        o = new_heap(None, v.t, name)
        o._slot_owned = name
        sl.owned.append(o)
        fr.locals[name] = o

    sl = Slot(name, T_HEAP, g, s)
    sl.local = name
    sl.owned = []
    return sl
