"""
More trusted models (T-STD): collections.UserList, number parsing (S9),
number formatting, projections/min/max over symbolic sequences, property.__get__.
"""
from __future__ import annotations

import collections
import decimal
import fractions
import z3

from .values import (SV, STR, OSTR, OINT, INT, BOOL, FRAC, DEC, FLOAT, BEAT, TNum, TSeq, TNT, TAbs, TOpt,
                     is_sym, term, coerce, sv, fresh, fresh_term, ty_of_concrete)
from .execu import HObj, NTVal, SymIter, GenResult, Unsupported, concretize, _wrap_field, Bound, type_of
from . import models as M
from . import execu as X

# ---------------------------------------------------------------------------
# S9: number parsers as partial uninterpreted functions

S = z3.StringSort()
parse_float = z3.Function("parse_float", S, z3.RealSort())
float_ok = z3.Function("float_ok", S, z3.BoolSort())
parse_dec = z3.Function("parse_dec", S, z3.RealSort())
dec_ok = z3.Function("dec_ok", S, z3.BoolSort())
parse_frac = z3.Function("parse_frac", S, z3.RealSort())
frac_ok = z3.Function("frac_ok", S, z3.BoolSort())
parse_int = z3.Function("parse_int", S, z3.IntSort())
int_ok = z3.Function("int_ok", S, z3.BoolSort())

M.UF["parse_float"] = (parse_float, lambda s: fractions.Fraction(float(s)))
M.UF["float_ok"] = (float_ok, lambda s: _ok(float, s))
M.UF["parse_dec"] = (parse_dec, lambda s: fractions.Fraction(decimal.Decimal(s)))
M.UF["dec_ok"] = (dec_ok, lambda s: _ok(decimal.Decimal, s))
M.UF["parse_frac"] = (parse_frac, lambda s: fractions.Fraction(s))
M.UF["frac_ok"] = (frac_ok, lambda s: _ok(fractions.Fraction, s))


def _ok(f, s):
    try:
        f(s)
        return True
    except Exception:
        return False


def _parse_hook(ex, which, v):
    t = v.t
    ex.assumptions_used.add("S9: float()/Decimal()/Fraction()/int() of a string = partial uninterpreted parser + ok predicate")
    if which == "float":
        _const_parse(ex, t, float_ok, parse_float, float)
        if not ex.branch(float_ok(t), "float-ok"):
            ex.raise_(ValueError, "could not convert string to float", tag="parse-float")
        return SV(parse_float(t), FLOAT)
    if which == "Decimal":
        _const_parse(ex, t, dec_ok, parse_dec, decimal.Decimal)
        if not ex.branch(dec_ok(t), "dec-ok"):
            ex.raise_(decimal.InvalidOperation, "invalid decimal literal", tag="parse-decimal")
        return SV(parse_dec(t), DEC)
    if which == "Fraction":
        _const_parse(ex, t, frac_ok, parse_frac, fractions.Fraction)
        if not ex.branch(frac_ok(t), "frac-ok"):
            ex.raise_(ValueError, "Invalid literal for Fraction", tag="parse-fraction")
        return SV(parse_frac(t), FRAC)
    if which == "int":
        if not ex.branch(int_ok(t), "int-ok"):
            ex.raise_(ValueError, "invalid literal for int()", tag="parse-int")
        return SV(parse_int(t), INT)
    return NotImplemented


def _const_parse(ex, t, okf, pf, py):
    ts = z3.simplify(t)
    if z3.is_string_value(ts):
        s = ts.as_string()
        try:
            val = fractions.Fraction(py(s))
            ex.assume(z3.And(okf(ts), pf(ts) == FRAC.lift(val)))
        except Exception:
            ex.assume(z3.Not(okf(ts)))


M.PARSE_HOOKS.append(_parse_hook)


def parse_instances(c):
    """closed facts about the number parsers on the literal c (evaluated by CPython)"""
    out = []
    if len(c) > 24:
        return out
    t = z3.StringVal(c)
    for okf, pf, py in ((float_ok, parse_float, float), (dec_ok, parse_dec, decimal.Decimal), (frac_ok, parse_frac, fractions.Fraction)):
        try:
            val = fractions.Fraction(py(c))
            out.append(z3.And(okf(t), pf(t) == FRAC.lift(val)))
        except Exception:
            out.append(z3.Not(okf(t)))
    return out


M.ALWAYS_INSTANTIATE.append(parse_instances)

# ---------------------------------------------------------------------------
# formatting

fmt3 = z3.Function("fmt_3f", z3.RealSort(), S)        # f"{x:.3f}"
str_dec = z3.Function("str_decimal", z3.RealSort(), S)  # str(Decimal)


def _format_hook(ex, v, spec):
    if spec == ".3f" and is_sym(v) and v.ty.kind == "num":
        ex.assumptions_used.add("T-STD: f'{x:.3f}' is a decimal literal within 0.0005 of x (A-FLOAT: the float conversion is exact)")
        r = fmt3(v.t)
        ex.assume(z3.And(dec_ok(r), frac_ok(r), float_ok(r), parse_frac(r) == parse_dec(r),
                         parse_frac(r) - v.t <= z3.RealVal("1/2000"), v.t - parse_frac(r) <= z3.RealVal("1/2000")))
        return SV(r, STR)
    return NotImplemented


M.FORMAT_HOOKS.append(_format_hook)


def _str_hook(ex, v):
    if is_sym(v) and v.ty.kind == "num" and v.ty.pyty == "Decimal":
        ex.assumptions_used.add("T-STD: Decimal(str(d)) == d")
        r = str_dec(v.t)
        ex.assume(z3.And(dec_ok(r), parse_dec(r) == v.t))
        return SV(r, STR)
    return NotImplemented


M.STR_HOOKS.append(_str_hook)

# ---------------------------------------------------------------------------
# collections.UserList (ListWithRepr, BeatValues, SMCharts, SSCCharts, TimingStateMachine)


def is_ul(v):
    return isinstance(v, HObj) and issubclass(v.cls, collections.UserList)


def ul_data(obj):
    return obj.fields["data"]


def _ul_method(ex, recv, name, args, kwargs):
    if not is_ul(recv):
        return NotImplemented
    if name == "__init__":
        init = args[0] if args else kwargs.get("initlist")
        if init is None:
            ex.setfield(recv, "data", [])
        elif is_ul(init):
            d = ul_data(init)
            ex.setfield(recv, "data", list(d) if isinstance(d, list) else d)
        elif is_sym(init) and init.ty.kind == "seq":
            ex.setfield(recv, "data", init)
        elif isinstance(init, str) or (is_sym(init) and init.ty.kind == "str"):
            # UserList("abc") is the list of characters
            ex.setfield(recv, "data", init if is_sym(init) else list(init))
        elif is_sym(init) and init.ty.kind == "opt":
            if ex.branch(init.ty.is_none(init.t), "isnone"):
                ex.setfield(recv, "data", [])
            else:
                return _ul_method(ex, recv, "__init__", [_wrap_field(init.ty.inner, init.ty.val(init.t))], {})
        else:
            it = M.iterable(ex, init)
            if isinstance(it, SymIter):
                raise Unsupported("UserList(symbolic iterable)")
            ex.setfield(recv, "data", list(it))
        return None
    d = ul_data(recv)
    if name == "append":
        x = args[0]
        if isinstance(d, list):
            ex.setfield(recv, "data", d + [x])
        else:
            ex.setfield(recv, "data", SV(z3.Concat(d.t, z3.Unit(_elem_term(ex, x, d.ty.inner))), d.ty))
        return None
    if name == "insert":
        k, x = args
        if isinstance(d, list) and not is_sym(k):
            nd = list(d)
            nd.insert(k, x)
            ex.setfield(recv, "data", nd)
            return None
        if is_sym(d):
            n = z3.Length(d.t)
            kt = term(k, INT)
            idx = z3.If(kt < 0, z3.If(n + kt < 0, z3.IntVal(0), n + kt), z3.If(kt > n, n, kt))
            xt = _elem_term(ex, x, d.ty.inner)
            ex.setfield(recv, "data", SV(z3.Concat(z3.SubSeq(d.t, 0, idx), z3.Unit(xt), z3.SubSeq(d.t, idx, n - idx)), d.ty))
            return None
        raise Unsupported("UserList.insert")
    if name == "__len__":
        if isinstance(d, list):
            return len(d)
        return concretize(SV(z3.simplify(z3.Length(d.t)), INT))
    if name == "__getitem__" and False:
        pass
    if name == "__getitem__":
        k = args[0]
        if isinstance(k, slice):
            r = M.getslice(ex, d, k.start, k.stop)
            o = HObj(recv.cls, {"data": r}, recv.label + "[:]")
            return o
        return M.getitem(ex, d, k)
    if name == "__setitem__":
        k, x = args
        if isinstance(d, list):
            if is_sym(k):
                raise Unsupported("UserList[sym] = x on concrete spine")
            nd = list(d)
            try:
                nd[k] = x
            except IndexError:
                ex.raise_(IndexError, "list assignment index out of range", tag="index")
            ex.setfield(recv, "data", nd)
            return None
        n = z3.Length(d.t)
        kt = term(k, INT)
        if not ex.branch(z3.And(kt >= -n, kt < n), "idx-ok"):
            ex.raise_(IndexError, "list assignment index out of range", tag="index")
        idx = z3.If(kt >= 0, kt, n + kt)
        xt = _elem_term(ex, x, d.ty.inner)
        nt = z3.Concat(z3.SubSeq(d.t, 0, idx), z3.Unit(xt), z3.SubSeq(d.t, idx + 1, n - idx - 1))
        ex.setfield(recv, "data", SV(nt, d.ty))
        return None
    if name == "__iter__":
        return M.iterable(ex, d)
    if name == "__eq__":
        o = args[0]
        od = ul_data(o) if is_ul(o) else o
        return ex.eq(d, od)
    if name == "__bool__":
        return _ul_truthy(ex, recv)
    raise Unsupported(f"UserList.{name}")


def _elem_term(ex, x, ety):
    if ety.kind == "box":
        return ety.box(_elem_term(ex, x, ety.inner))
    if isinstance(x, NTVal):
        return x.term()
    if isinstance(x, HObj) and hasattr(ety, "lift_obj"):
        return ety.lift_obj(x)
    return term(x, ety) if not is_sym(x) else coerce(x, ety).t


def _ul_truthy(ex, v):
    if is_ul(v):
        d = ul_data(v)
        if isinstance(d, list):
            return len(d) > 0
        return z3.Length(d.t) > 0
    return None


def _ul_iter(ex, v):
    if is_ul(v):
        return M.iterable(ex, ul_data(v))
    return NotImplemented


def _ul_len(ex, v):
    if is_ul(v):
        return _ul_method(ex, v, "__len__", [], {})
    return NotImplemented


def _ul_getitem(ex, obj, key):
    if is_ul(obj):
        owner, raw = ex.class_attr(obj.cls, "__getitem__")
        if ex.wrap_real(raw, owner) is None:
            return _ul_method(ex, obj, "__getitem__", [key], {})
    return NotImplemented


def _ul_setitem(ex, obj, key, v):
    if is_ul(obj):
        _ul_method(ex, obj, "__setitem__", [key, v], {})
        return True
    return NotImplemented


def _ul_eq(ex, a, b):
    if is_ul(a) and (is_ul(b) or isinstance(b, list)):
        return ex.eq(ul_data(a), ul_data(b) if is_ul(b) else b)
    if is_ul(b) and isinstance(a, list):
        return ex.eq(a, ul_data(b))
    return None


M.METHOD_HOOKS.append(_ul_method)
M.TRUTHY_HOOKS.append(_ul_truthy)
M.ITER_HOOKS.append(_ul_iter)
M.LEN_HOOKS.append(_ul_len)
M.GETITEM_HOOKS.append(_ul_getitem)
M.SETITEM_HOOKS.append(_ul_setitem)
M.EQ_HOOKS.append(_ul_eq)


def new_userlist(cls, data, label=None):
    return HObj(cls, {"data": data}, label or cls.__name__)


# ---------------------------------------------------------------------------
# projections, min, max over symbolic sequences

_proj = {}


def seq_proj(nty: TNT, field, s):
    """[x.field for x in s] as a deterministic uninterpreted function of s"""
    i = nty.fields.index(field)
    fty = nty.ftys[i]
    key = (nty.cls, field)
    if key not in _proj:
        _proj[key] = z3.Function(f"proj_{nty.cls.__name__}_{field}", z3.SeqSort(nty.sort()), z3.SeqSort(fty.sort()))
    return _proj[key](s), fty


_minmax = {}


def seq_minmax(which, srt):
    key = (which, str(srt))
    if key not in _minmax:
        _minmax[key] = z3.Function(f"seq_{which}_{str(srt).replace(' ', '_')}", z3.SeqSort(srt), srt)
    return _minmax[key]


def _comprehension_hook(ex, e, frame, it, gi):
    import ast
    # [x.field for x in <Seq[NT]>] with no conditions
    if gi != 0 or len(e.generators) != 1 or e.generators[0].ifs:
        return NotImplemented
    g = e.generators[0]
    src = getattr(it, "seq", None)
    if src is None or src.ty.inner.kind != "nt":
        return NotImplemented
    if isinstance(g.target, ast.Name) and isinstance(e.elt, ast.Attribute) and isinstance(e.elt.value, ast.Name) \
            and e.elt.value.id == g.target.id and e.elt.attr in src.ty.inner.fields:
        t, fty = seq_proj(src.ty.inner, e.elt.attr, src.t)
        ex.assume(z3.Length(t) == z3.Length(src.t), "T-STD: a list comprehension has one element per input element")
        ex.assumptions_used.add("projection comprehension [x.f for x in s] as the function proj_f(s)")
        return SV(t, TSeq(fty))
    return NotImplemented


M.COMPREHENSION_HOOKS.append(_comprehension_hook)

_orig_iterable = M.iterable


def _iterable_with_seq(ex, v):
    r = _orig_iterable(ex, v)
    if isinstance(r, SymIter) and is_sym(v) and v.ty.kind == "seq":
        r.seq = v
    if isinstance(r, SymIter) and is_ul(v):
        d = ul_data(v)
        if is_sym(d):
            r.seq = d
    return r


M.iterable = _iterable_with_seq


def _minmax_call(which):
    base = M.REAL_CALL[min if which == "min" else max]

    def f(ex, args, kwargs):
        if len(args) == 1 and is_sym(args[0]) and args[0].ty.kind == "seq":
            s = args[0]
            n = z3.simplify(z3.Length(s.t))
            if not z3.is_int_value(n):
                if not ex.branch(z3.Length(s.t) > 0, "nonempty"):
                    ex.raise_(ValueError, f"{which}() arg is an empty sequence", tag="empty-minmax")
                ex.assumptions_used.add(f"T-STD: {which}() over a symbolic list as the function seq_{which}(s)")
                return _wrap_field(s.ty.inner, seq_minmax(which, s.ty.inner.sort())(s.t))
        return base(ex, args, kwargs)
    return f


M.REAL_CALL[min] = _minmax_call("min")
M.REAL_CALL[max] = _minmax_call("max")


# ---------------------------------------------------------------------------
# property.__get__(obj) on a real property object


def _property_get(ex, recv, name, args, kwargs):
    if isinstance(recv, property) and name == "__get__":
        clo = ex.wrap_real(recv.fget)
        if clo is None:
            raise Unsupported("property.__get__ of non-repo property")
        return ex.call_closure(clo, [args[0]], {})
    return NotImplemented


M.METHOD_HOOKS.append(_property_get)


# ---------------------------------------------------------------------------
# python lists of symbolic length: `[x] * n` with symbolic n


def is_slist(v):
    return isinstance(v, HObj) and v.cls is list and "arr" in v.fields


def new_slist(ex, ety, arr, length, label="list"):
    o = HObj(list, {"arr": arr, "len": length, "ety": ety}, label)
    if ex.writes is not None:
        o._born = ex.writes
    return o


def _slist_mul(ex, recv, name, args, kwargs):
    if name == "__mul__" and isinstance(recv, list) and len(recv) == 1 and is_sym(args[0]):
        x = recv[0]
        ety = OINT if x is None else (TOpt(ty_of_concrete(x)) if not is_sym(x) else x.ty)
        n = term(args[0], INT)
        arr = z3.K(z3.IntSort(), term(x, ety) if not is_sym(x) else x.t)
        return new_slist(ex, ety, arr, z3.If(n > 0, n, z3.IntVal(0)), "list*n")
    return NotImplemented


def _slist_getitem(ex, obj, key):
    if is_slist(obj):
        if isinstance(key, slice):
            raise Unsupported("slice of symbolic list")
        k = term(key, INT)
        n = obj.fields["len"]
        if not ex.branch(z3.And(k >= -n, k < n), "idx-ok"):
            ex.raise_(IndexError, "list index out of range", tag="index")
        idx = k if (isinstance(key, int) and key >= 0) else z3.If(k >= 0, k, n + k)
        return _wrap_field(obj.fields["ety"], z3.Select(obj.fields["arr"], idx))
    return NotImplemented


def _slist_setitem(ex, obj, key, v):
    if is_slist(obj):
        k = term(key, INT)
        n = obj.fields["len"]
        if not ex.branch(z3.And(k >= -n, k < n), "idx-ok"):
            ex.raise_(IndexError, "list assignment index out of range", tag="index")
        idx = z3.If(k >= 0, k, n + k)
        ety = obj.fields["ety"]
        ex.setfield(obj, "arr", z3.Store(obj.fields["arr"], idx, term(v, ety) if not is_sym(v) else coerce(v, ety).t))
        return True
    return NotImplemented


def _slist_len(ex, v):
    if is_slist(v):
        return concretize(SV(z3.simplify(v.fields["len"]), INT))
    return NotImplemented


M.METHOD_HOOKS.append(_slist_mul)
M.GETITEM_HOOKS.append(_slist_getitem)
M.SETITEM_HOOKS.append(_slist_setitem)
M.LEN_HOOKS.append(_slist_len)


# ---------------------------------------------------------------------------
# [f(x) for x in <symbolic sequence>]: a fresh sequence of the same length, defined pointwise


class LazyMap:
    """(f(x) for x in s) over a symbolic sequence s, with f as a z3 lambda (array) from elements to results"""

    def __init__(self, src, lam, rty, e0, body):
        self.src, self.lam, self.rty, self.e0, self.body = src, lam, rty, e0, body

    def materialize(self, ex):
        sty = self.src.ty
        rty = TSeq(self.rty)
        r = fresh_term(rty.sort(), "mapped")
        i = z3.Int("i!map")
        n = z3.Length(self.src.t)
        body = z3.substitute(self.body, (self.e0, self.src.t[i]))
        ex.assume(z3.Length(r) == n, "T-STD: a list comprehension has one element per input element")
        ex.assume(z3.ForAll([i], z3.Implies(z3.And(i >= 0, i < n), rty.at(r, i) == body)), "T-STD: [f(x) for x in s][i] == f(s[i])")
        ex.assumptions_used.add("list comprehension over a symbolic list as a pointwise-defined list (quantified definition)")
        return SV(r, rty)


_count_where = {}


def count_where(seq_sort, elem_sort):
    k = str(seq_sort)
    if k not in _count_where:
        _count_where[k] = z3.Function(f"count_where_{len(_count_where)}", seq_sort, z3.ArraySort(elem_sort, z3.BoolSort()), z3.IntSort())
    return _count_where[k]


def pred_lambda(elem_sort, body_fn):
    """a predicate over sequence elements as a z3 lambda; the bound variable has a fixed name so equal bodies give equal terms"""
    x = z3.Const("x!pred", elem_sort)
    return z3.Lambda([x], body_fn(x))


def _map_comprehension_hook(ex, e, frame, it, gi):
    import ast
    from .execu import Frame, _WouldFork, PyRaise
    if gi != 0 or len(e.generators) != 1 or e.generators[0].ifs:
        return NotImplemented
    g = e.generators[0]
    src = getattr(it, "seq", None)
    if src is None or not isinstance(g.target, ast.Name):
        return NotImplemented
    sty = src.ty
    inner = sty.inner                      # element sort as stored (boxed for nested sequences)
    e0 = z3.Const("x!pred", inner.sort())
    f2 = Frame(frame.fi, {g.target.id: _wrap_field(inner, e0)}, frame, frame.module)
    f2.self_cls = frame.self_cls
    ex.nofork += 1
    try:
        v = ex.eval(e.elt, f2)
    except (_WouldFork, PyRaise):
        return NotImplemented
    finally:
        ex.nofork -= 1
    if not is_sym(v):
        try:
            v = SV(term(v), ty_of_concrete(v))
        except Exception:
            return NotImplemented
    lm = LazyMap(src, z3.Lambda([e0], v.t), v.ty, e0, v.t)
    if ex.ghost.get("__compkind__") == "gen":
        return lm
    return lm.materialize(ex)


def _sum_hook(ex, args):
    if len(args) == 1 and isinstance(args[0], LazyMap) and args[0].rty.kind == "bool":
        lm = args[0]
        ex.assumptions_used.add("T-STD: sum(cond(x) for x in xs) is the number of x in xs with cond(x)")
        f = count_where(lm.src.t.sort(), lm.src.ty.inner.sort())
        r = f(lm.src.t, lm.lam)
        ex.assume(z3.And(r >= 0, r <= z3.Length(lm.src.t)))
        return SV(r, INT)
    if len(args) >= 1 and isinstance(args[0], LazyMap):
        return M.b_sum(ex, [args[0].materialize(ex)] + list(args[1:]), {})
    return NotImplemented


M.SUM_HOOKS.append(_sum_hook)

_orig_as_list = M.as_list


def _as_list(ex, v):
    if isinstance(v, LazyMap):
        v = v.materialize(ex)
    return _orig_as_list(ex, v)


M.as_list = _as_list
_orig_iter2 = M.iterable


def _iterable_lazy(ex, v):
    if isinstance(v, LazyMap):
        v = v.materialize(ex)
    return _orig_iter2(ex, v)


M.iterable = _iterable_lazy


M.COMPREHENSION_HOOKS.append(_map_comprehension_hook)


# ---------------------------------------------------------------------------
# re.search for simple fixed patterns (optional ^, literal text, optional $)


def _re_search(ex, args, kwargs):
    import re
    pat, subj = args[0], args[1]
    if is_sym(pat) or not isinstance(pat, str):
        raise Unsupported("re.search with a symbolic pattern")
    if all_c([subj]):
        return re.search(pat, subj)
    body = pat
    start = body.startswith("^")
    if start:
        body = body[1:]
    end = body.endswith("$") and not body.endswith("\\$")
    if end:
        body = body[:-1]
    if re.escape(body) != body and any(ch in body for ch in ".*+?[](){}|\\^$"):
        raise Unsupported(f"re.search pattern {pat!r} is outside the modelled subset")
    ex.assumptions_used.add("T-STD: re.search for fixed patterns (^, literal, $) as prefix / substring / suffix tests")
    t = term(subj, STR)
    lit = z3.StringVal(body)
    if start and end:
        r = t == lit
    elif start:
        r = z3.PrefixOf(lit, t)
    elif end:
        r = z3.SuffixOf(lit, t)
    else:
        r = z3.Contains(t, lit)
    return SV(r, BOOL)


def all_c(v):
    return M.all_concrete(v)


def install_re():
    import re
    M.REAL_CALL[re.search] = _re_search


install_re()


# ---------------------------------------------------------------------------
# list(<symbolic iterable>) known pointwise (T-STD: list(map(f, s))[k] == f(s[k]), len(list(map(f, s))) == len(s))


class LazyList:
    """a list whose k-th element is at(ex, k); no quantifier, elements are produced on demand at the index asked"""

    def __init__(self, length, at, label="list"):
        self.length, self.at, self.label = length, at, label

    def __repr__(self):
        return f"<LazyList {self.label}>"


def _lazy_list_hook(ex, it):
    ex.assumptions_used.add("T-STD: list(map(f, s)) / [f(x) for x in s] is the list with f(s[k]) at position k")
    return LazyList(it.length, it.at, f"list({it.label})")


def _lazy_iter(ex, v):
    if isinstance(v, LazyList):
        it = SymIter(v.length, v.at, v.label)
        it.lazy = v
        return it
    return NotImplemented


def _lazy_len(ex, v):
    if isinstance(v, LazyList):
        return concretize(SV(z3.simplify(v.length), INT))
    return NotImplemented


def _lazy_getitem(ex, obj, key):
    if isinstance(obj, LazyList):
        if isinstance(key, slice):
            raise Unsupported("slice of a lazily known list")
        kt = term(key, INT)
        n = obj.length
        if not ex.branch(z3.And(kt >= -n, kt < n), "idx-ok"):
            ex.raise_(IndexError, "list index out of range", tag="index")
        return obj.at(ex, z3.If(kt >= 0, kt, n + kt))
    return NotImplemented


def _lazy_comprehension(ex, e, frame, it, gi):
    import ast
    from .execu import Frame
    # any symbolic-length source (a lazily known list, a symbolic sequence, a UserList over one): the comprehension is
    # the list with elt(source[k]) at position k - the same reading as list(map(f, source))
    lz = getattr(it, "lazy", None) or it
    if gi != 0 or len(e.generators) != 1 or e.generators[0].ifs or not isinstance(e, ast.ListComp):
        return NotImplemented
    g = e.generators[0]
    ex.assumptions_used.add("T-STD: list(map(f, s)) / [f(x) for x in s] is the list with f(s[k]) at position k")

    def at(ex_, i):
        f2 = Frame(frame.fi, {}, frame, frame.module)
        f2.self_cls = frame.self_cls
        ex_.assign(g.target, lz.at(ex_, i), f2)
        return ex_.eval(e.elt, f2)

    return LazyList(lz.length, at, f"[... for ... in {lz.label}]")


M.LIST_HOOKS.append(_lazy_list_hook)
M.ITER_HOOKS.append(_lazy_iter)
M.LEN_HOOKS.append(_lazy_len)
M.GETITEM_HOOKS.append(_lazy_getitem)
M.COMPREHENSION_HOOKS.append(_lazy_comprehension)
