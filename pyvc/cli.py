"""./check <Cxx> [--tier quick|thorough] [--replay <file>]"""
import argparse
import json
import os
import sys
import warnings

warnings.filterwarnings("ignore")
VERIF = os.path.dirname(os.path.dirname(os.path.abspath(__file__)))
sys.path.insert(0, VERIF)
# the real code every replay / bounded stand-in imports is the working tree the ASTs are read from
sys.path.insert(0, os.environ.get("SIMFILE_REPO", "/repo"))


def main():
    ap = argparse.ArgumentParser()
    ap.add_argument("property")
    ap.add_argument("--tier", default=os.environ.get("VERIF_TIER", "quick"), choices=["quick", "thorough"])
    ap.add_argument("--replay")
    ap.add_argument("--jobs", type=int, default=None)
    a = ap.parse_args()
    seed = int(os.environ.get("VERIF_SEED", "0") or 0)
    if a.replay:
        with open(a.replay) as f:
            print(json.dumps(json.load(f), indent=1))
        return 0
    from pyvc.prop import run_property
    return run_property(a.property, a.tier, seed, a.jobs)


if __name__ == "__main__":
    try:
        rc = main()
    except SystemExit:
        raise
    except BaseException:
        import traceback
        traceback.print_exc()
        rc = 3
    sys.exit(rc)
