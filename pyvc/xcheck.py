"""
CPython cross-check of the encoder (thorough tier; a guard of the verifier, never evidence for a property).

For a function under contract and a concrete argument tuple, the symbolic executor is run on *symbolic* inputs
pinned to those values by an assumption (so the models of arithmetic, strings, comparisons, rounding ... are
exercised, not the concrete short cuts), and the value it computes is compared with what CPython computes by
calling the real function.  A disagreement means the encoder (or a trusted model) misrepresents Python: it is
reported as a checker error (exit 3), never as a property violation.
"""
from __future__ import annotations

import decimal
import fractions
import time

import z3

from .prop import Unit, Bounded
from .values import SV, INT, BOOL, FRAC, DEC, FLOAT, STR, BEAT, TNT, TNum, term, coerce, is_sym, ty_of_concrete
from .execu import NTVal, explore

FLOAT_TOL = fractions.Fraction(1, 10 ** 9)


class Concrete:
    """an argument handed to the executor as the Python object it is (a class, a definition record), not pinned symbolically"""

    def __init__(self, v):
        self.v = v

    def __repr__(self):
        return repr(self.v)


class _Pinned(Unit):
    functions = ()

    def __init__(self, qualname, owner, args, expected, describe):
        self.qualname, self.owner, self.args, self.expected = qualname, owner, args, expected
        self.name = f"xcheck:{describe}"
        self.outcomes = []

    def run(self, ex):
        svs = []
        for i, a in enumerate(self.args):
            if isinstance(a, Concrete):
                svs.append(a.v)
                continue
            if isinstance(a, type) or a is None or (hasattr(a, "__class__") and type(a).__module__ == "enum"):
                svs.append(a)
                continue
            try:
                ty = ty_of_concrete(a)
            except NotImplementedError:
                svs.append(a)
                continue
            v = ex.sym(ty, f"a{i}")
            ex.assume((v.term() if isinstance(v, NTVal) else v.t) == ty.lift(a), "pinned input")
            svs.append(v)
        fn = ex.closure_of(self.qualname, owner=self.owner() if self.owner else None)
        kind, r = ex.run_function(fn, svs)
        exp = self.expected
        # soundness of the encoder = CPython's behaviour is among the behaviours the executor allows on some feasible path
        # (a model that leaves a result open, like f"{x:.3f}", is an over-approximation: consistent, not determined)
        if isinstance(exp, type) and issubclass(exp, BaseException):
            ok = kind == "raise" and issubclass(r.cls, exp)
            self.outcomes.append(("consistent" if ok else "inconsistent", ok, f"{kind} {r!r}"))
            return
        if kind == "raise":
            self.outcomes.append(("inconsistent", False, f"raises {r!r}"))
            return
        same = _same(ex, r, exp)
        st = ex._check([same], 5000)
        determined = st != z3.unsat and ex._check([z3.Not(same)], 5000) == z3.unsat
        self.outcomes.append(("inconsistent" if st == z3.unsat else "consistent", determined, f"returns {r!r}"))


def _same(ex, r, exp):
    if isinstance(exp, tuple) and not hasattr(exp, "_fields"):
        if not isinstance(r, tuple) or len(r) != len(exp):
            return z3.BoolVal(False)
        return z3.And([_same(ex, a, b) for a, b in zip(r, exp)]) if exp else z3.BoolVal(True)
    if isinstance(r, NTVal):
        return r.term() == TNT(type(exp)).lift(exp) if hasattr(exp, "_fields") and type(exp) is r.cls else z3.BoolVal(False)
    if not is_sym(r):
        try:
            return z3.BoolVal(type(r) is type(exp) and r == exp)
        except Exception:
            return z3.BoolVal(False)
    ty = ty_of_concrete(exp)
    # the Python type the executor assigns must be CPython's (Beat vs Fraction vs float vs int ...)
    if r.ty.kind != ty.kind or (ty.kind == "num" and getattr(r.ty, "pyty", None) != getattr(ty, "pyty", None)):
        return z3.BoolVal(False)
    if isinstance(exp, float):
        e = fractions.Fraction(exp)
        tol = FLOAT_TOL * max(1, abs(e))
        et = z3.RealVal(str(e))
        return z3.And(r.t - et <= z3.RealVal(str(tol)), et - r.t <= z3.RealVal(str(tol)))      # A-FLOAT: floats are reals
    return r.t == ty.lift(exp)


class EncoderCrossCheck(Bounded):
    kind = "encoder-crosscheck"

    def __init__(self, name, qualname, owner, real, cases, function=None):
        """real: callable(*args) on the real code; cases: callable(tier) -> iterable of argument tuples"""
        self.name = f"encoder-vs-cpython:{name}"
        self.qualname, self.owner, self.real, self.cases = qualname, owner, real, cases
        self.function = function or qualname

    def bound(self, tier):
        return "CPython's result on the real function must be among the results the executor allows on symbolic inputs pinned to each enumerated argument tuple"

    def run(self, tier, seed):
        from . import omap, stdmodels, simobj, msd, fsys, heaps  # noqa: F401
        t0 = time.time()
        n, failures, determined = 0, [], 0
        for args in self.cases(tier):
            n += 1
            try:
                exp = self.real(*[a.v if isinstance(a, Concrete) else a for a in args])
            except Exception as e:
                exp = type(e)
            u = _Pinned(self.qualname, self.owner, args, exp, f"{self.qualname}{args!r}")
            try:
                res = explore(u, max_paths=50)
                if res.errors or not any(o[0] == "consistent" for o in u.outcomes):
                    failures.append(dict(input=repr(args), detail=f"CPython gives {exp!r}; the executor: " +
                                         ("; ".join(res.errors) if res.errors else "; ".join(o[2] for o in u.outcomes) or "no feasible path")))
                elif any(o[0] == "consistent" and o[1] for o in u.outcomes):
                    determined += 1
            except Exception as e:
                failures.append(dict(input=repr(args), detail=f"executor crashed: {type(e).__name__}: {e}"))
            if len(failures) >= 5:
                break
        return dict(cases=n, failures=failures, seconds=time.time() - t0, determined=determined)


class OrderedDictProbe(Bounded):
    """T-OD against CPython: random set/del histories on collections.OrderedDict vs the theory's terms (presence, value, order, count)"""
    kind = "encoder-crosscheck"
    name = "assumption-probe:T-OD-vs-OrderedDict"
    function = "pyvc/omap.py (trusted theory of collections.OrderedDict)"

    def bound(self, tier):
        return "2000 random histories of up to 12 set / delete operations over 5 keys and 3 values, compared after every operation"

    def run(self, tier, seed):
        import random
        from collections import OrderedDict
        from . import omap as O
        from .values import OSTR
        t0 = time.time()
        rnd = random.Random(seed or 1)
        keys, vals = ["A", "B", "C", "STOPS", "FREEZES"], ["x", "", None]
        n, failures = 0, []
        for _ in range(2000):
            d, m = OrderedDict(), O.empty()
            hist = []
            for _ in range(rnd.randint(1, 12)):
                k = rnd.choice(keys)
                if rnd.random() < 0.3 and k in d:
                    del d[k]
                    m = O.om_del(m, z3.StringVal(k))
                    hist.append(("del", k))
                else:
                    v = rnd.choice(vals)
                    d[k] = v
                    m = O.om_set(m, z3.StringVal(k), OSTR.lift(v))
                    hist.append(("set", k, v))
                n += 1
                m = z3.simplify(m)
                got_keys = O.concrete_keys(m)
                ok = got_keys == list(d) and z3.simplify(O.cnt_(m)).as_long() == len(d)
                if ok:
                    for kk in keys:
                        has = z3.is_true(z3.simplify(O.om_has(m, z3.StringVal(kk))))
                        ok = ok and has == (kk in d)
                        if has and kk in d:
                            ok = ok and z3.is_true(z3.simplify(O.om_get(m, z3.StringVal(kk)) == OSTR.lift(d[kk])))
                if not ok:
                    failures.append(dict(input=repr(hist), detail=f"OrderedDict holds {list(d.items())!r}; the theory gives keys {got_keys!r}"))
                    break
            if len(failures) >= 3:
                break
        return dict(cases=n, failures=failures, seconds=time.time() - t0, determined=n)


class MsdTextProbe(Bounded):
    """T-MSD-1 against msdparser: the parameters read from a written text are the written parameters (outside the escaping
    gaps the properties exclude), in strict mode too"""
    kind = "encoder-crosscheck"
    name = "assumption-probe:T-MSD-1-vs-msdparser"
    function = "pyvc/msd.py (trusted theory of msdparser)"

    def bound(self, tier):
        return "4000 random parameter lists (1-4 parameters, 1-4 components over an alphabet with ':', ';', '\\\\', '/', '#', line breaks), written with str(MSDParameter) and parsed back"

    def run(self, tier, seed):
        import random
        from msdparser import MSDParameter, parse_msd
        from contracts.oracles import safe_component
        t0 = time.time()
        rnd = random.Random(seed or 1)
        alpha = ["a", "B", "0", " ", ":", ";", "\\", "/", "#", "\n", "=", ","]
        n, failures = 0, []
        for _ in range(4000):
            params = []
            for _ in range(rnd.randint(1, 4)):
                key = "".join(rnd.choice(["K", "n", "2", "_"]) for _ in range(rnd.randint(1, 3)))
                comps = ["".join(rnd.choice(alpha) for _ in range(rnd.randint(0, 5))) for _ in range(rnd.randint(0, 3))]
                params.append((key, *comps))
            if not all(safe_component(c) for p in params for c in p[1:]):
                continue
            text = "\n".join(str(MSDParameter(p)) for p in params) + "\n"
            n += 1
            for strict in (True, False):
                try:
                    got = [tuple(p.components) for p in parse_msd(string=text, ignore_stray_text=not strict)]
                except Exception as e:
                    got = f"raised {type(e).__name__}: {e}"
                if got != params:
                    failures.append(dict(input=repr(params), detail=f"written as {text!r}, read back as {got!r} (strict={strict})"))
                    break
            if len(failures) >= 3:
                break
        return dict(cases=n, failures=failures, seconds=time.time() - t0, determined=n)


class StringAxiomProbe(Bounded):
    """the assumed string / number laws (S1, S3, S4, S9, fmt3, Decimal round trip) on random inputs under CPython"""
    kind = "encoder-crosscheck"
    name = "assumption-probe:string-and-number-laws"
    function = "pyvc/models.py, pyvc/stdmodels.py (assumed laws of str / Decimal / Fraction)"

    def bound(self, tier):
        return "5000 random strings over a 14-character alphabet (letters in both cases, digits, blanks, separators, a non-ASCII letter) and 5000 random rationals"

    def run(self, tier, seed):
        import random
        from decimal import Decimal
        from fractions import Fraction
        t0 = time.time()
        rnd = random.Random(seed or 1)
        alpha = list("aBz09 \t\n,=:;.") + ["é"]
        n, failures = 0, []

        def bad(law, x):
            failures.append(dict(input=repr(x), detail=f"law {law} fails under CPython"))

        for _ in range(5000):
            s = "".join(rnd.choice(alpha) for _ in range(rnd.randint(0, 8)))
            n += 1
            for sep in (",", "=", ":", "\n", ";"):
                if sep.join(s.split(sep)) != s:
                    bad(f"S1 sep.join(s.split(sep)) == s [{sep!r}]", s)
            if s.strip().strip() != s.strip() or s.upper().upper() != s.upper() or s.lower().lower() != s.lower():
                bad("S3 strip / upper / lower idempotent", s)
            core = s.strip()
            if (" \n" + core + "\t ").strip() != core:
                bad("S4 strip of whitespace-decorated text", s)
            if s.upper().lower() != s.lower() and all(ord(c) < 128 for c in s):
                bad("upper then lower is lower (ASCII)", s)
            head, sep_, tail = s.rpartition(".")
            if (sep_ and head + sep_ + tail != s) or (not sep_ and (head, tail) != ("", s)) or "." in tail:
                bad("rpartition reference law", s)
            if "".join(s.splitlines(keepends=True)) != s:
                bad("''.join(splitlines(keepends=True)) is the text", s)
        for _ in range(5000):
            q = Fraction(rnd.randint(-10 ** 6, 10 ** 6), rnd.randint(1, 10 ** 4))
            n += 1
            f3 = f"{float(q):.3f}"
            if abs(Fraction(f3) - q) > Fraction(5, 10 ** 4) + Fraction(1, 10 ** 9):
                bad("fmt3 within 0.0005", q)
            d = Decimal(q.numerator) / Decimal(q.denominator)
            if Decimal(str(d)) != d or Fraction(str(d)) != Fraction(d):
                bad("Decimal(str(d)) == d, Fraction(str(d)) == Fraction(d)", d)
            if round(q) != (lambda fl, r: fl if r < Fraction(1, 2) else fl + 1 if r > Fraction(1, 2) else fl + (fl % 2))(q.numerator // q.denominator, q - q.numerator // q.denominator):
                bad("Fraction.__round__ is half-to-even", q)
            if len(failures) >= 3:
                break
        return dict(cases=n, failures=failures[:3], seconds=time.time() - t0, determined=n)
