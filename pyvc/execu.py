"""
Symbolic executor over the real function ASTs (DESIGN 2.2).

One `Ex` object is one path.  `explore(unit)` re-runs the unit's driver once
per path, following a recorded list of decisions and scheduling the
alternatives it discovers (deterministic re-execution; no state copying).

Obligations are proved inline against the path condition; a proved obligation
is assumed afterwards.  Nothing here knows about simfile: models of builtins
and dependencies live in models.py, contracts in /verif/contracts.
"""
from __future__ import annotations

import ast
import os
import collections
import builtins
import enum
import time
import types
import typing
import z3

from .values import (
    SV, Ty, INT, BOOL, STR, TNum, TOpt, TSeq, TNT, TEnum, TIntEnum,
    is_sym, term, coerce, sv, fresh, ty_of_concrete, FRAC, BEAT, FLOAT, DEC,
)
from .source import repo, FuncInfo


def timed_check(solver, ms):
    """solver.check() that really stops: z3's string solver does not always honour its `timeout` parameter"""
    import threading
    solver.set("timeout", int(ms))
    tm = threading.Timer(ms / 1000.0 + 1.5, solver.ctx.interrupt)
    tm.start()
    try:
        return solver.check()
    except z3.Z3Exception:
        return z3.unknown
    finally:
        tm.cancel()


# ---------------------------------------------------------------------------
# control-flow signals


class PathAbort(Exception):
    """This path ends here (infeasible, or deliberately stopped)."""


class NativeReplayUnsupported(Exception):
    """the generic replay of a counter-model on the real function does not apply to this unit"""


class Unsupported(Exception):
    """The executor (or a model) cannot handle this construct: exit 3, never a verdict."""


class _WouldFork(Exception):
    """Raised while evaluating speculatively (no forking, no writes allowed)."""


class _NoMerge(Exception):
    pass


_NO_MERGE = object()


_IMPURE = (ast.Call, ast.Await, ast.Yield, ast.YieldFrom, ast.NamedExpr, ast.ListComp, ast.SetComp, ast.DictComp, ast.GeneratorExp, ast.Lambda)


def _call_free(e):
    return e is None or not any(isinstance(n, _IMPURE) for n in ast.walk(e))


def _pure_return_shape(stmts):
    """every path through `stmts` consists of call-free tests and ends in a call-free return (no assignment, call, loop,
    raise ...): evaluating such a tail twice, or one arm of it unguarded, has no effect on the heap or on ghost state"""
    for i, s in enumerate(stmts):
        if isinstance(s, ast.Return):
            return _call_free(s.value)
        if isinstance(s, ast.If) and not _call_free(s.test):
            return False
        if isinstance(s, ast.Pass) or (isinstance(s, ast.Expr) and isinstance(s.value, ast.Constant)):
            continue
        if isinstance(s, ast.If):
            rest = list(stmts[i + 1:])
            return _pure_return_shape(list(s.body) + rest) and _pure_return_shape(list(s.orelse) + rest)
        return False
    return False


def _merge_values(c, a, b):
    """ite(c, a, b) for two results of the same Python type (else no merge)"""
    if isinstance(a, NTVal) and isinstance(b, NTVal) and a.cls is b.cls:
        return NTVal.of_term(a.cls, z3.If(c, a.term(), b.term()))
    if isinstance(a, (HObj, NTVal)) or isinstance(b, (HObj, NTVal)):
        if a is b:
            return a
        raise _NoMerge()
    if not is_sym(a) and not is_sym(b):
        try:
            if type(a) is type(b) and a == b:
                return a
        except Exception:
            raise _NoMerge()
        if a is None or b is None:
            other = b if a is None else a
            try:
                oty = TOpt(ty_of_concrete(other))
            except Exception:
                raise _NoMerge()
            return SV(z3.If(c, oty.lift(a), oty.lift(b)), oty)
        try:
            ta, tb = ty_of_concrete(a), ty_of_concrete(b)
        except Exception:
            raise _NoMerge()
        if type(a) is not type(b) or ta.sort() != tb.sort():
            raise _NoMerge()
        return SV(z3.If(c, ta.lift(a), ta.lift(b)), ta)
    sy, other, flip = (a, b, False) if is_sym(a) else (b, a, True)
    if is_sym(other):
        if other.ty != sy.ty and not (other.ty.sort() == sy.ty.sort() and other.ty.kind == sy.ty.kind and getattr(other.ty, "pyty", None) == getattr(sy.ty, "pyty", None)):
            raise _NoMerge()
        return SV(z3.If(c, a.t, b.t), sy.ty)
    try:
        if other is None and sy.ty.kind != "opt":
            oty = TOpt(sy.ty)
            st, ot = oty.some(sy.t), oty.lift(None)
        else:
            if type(other) is bool and sy.ty.kind != "bool":
                raise _NoMerge()
            oty = sy.ty
            st, ot = sy.t, oty.lift(other)
    except _NoMerge:
        raise
    except Exception:
        raise _NoMerge()
    return SV(z3.If(c, ot, st) if flip else z3.If(c, st, ot), oty)


class _Return(Exception):
    def __init__(self, value):
        self.value = value


class _Break(Exception):
    pass


class _Continue(Exception):
    pass


class PyRaise(Exception):
    """A Python exception raised by the interpreted code."""

    def __init__(self, exc):
        self.exc = exc  # ExcVal

    def __str__(self):
        return f"PyRaise({self.exc})"


class ExcVal:
    def __init__(self, cls, args=(), cause=None):
        self.cls = cls
        self.args = tuple(args)
        self.cause = cause
        self.tag = None      # free-form label set by models (e.g. which fault)

    def __repr__(self):
        return f"{self.cls.__name__}{self.args!r}"


# ---------------------------------------------------------------------------
# interpreter-level objects


class HObj:
    """A mutable object of the interpreted program (identity = python identity)."""

    _counter = [0]

    def __init__(self, cls, fields=None, label=None):
        self.cls = cls
        self.fields = dict(fields or {})
        self.label = label or cls.__name__
        HObj._counter[0] += 1
        self._serial = HObj._counter[0]      # objects made before the function under contract is entered are its pre-state

    def __repr__(self):
        return f"<HObj {self.label} {list(self.fields)}>"


def _generic_label(obj):
    """the object's role for frame purposes: its class name (labels of units vary with paths: 'partial_chart' vs 'self')"""
    return getattr(obj.cls, "__name__", str(obj.cls))


_MODULE_STATE = {}


def _module_state_name(obj):
    """name of the module-level / class-level attribute of the library that holds this very container, or None"""
    import sys as _sys
    if not _MODULE_STATE.get("built"):
        reg = {}
        for mn, mod in list(_sys.modules.items()):
            if mod is None or not (mn == "simfile" or mn.startswith("simfile.")):
                continue
            for k, v in list(vars(mod).items()):
                if isinstance(v, (list, dict, set, collections.deque, collections.OrderedDict)):
                    reg.setdefault(id(v), (v, f"{mn}.{k}"))
                if isinstance(v, type) and getattr(v, "__module__", "").startswith("simfile"):
                    for ak, av in list(vars(v).items()):
                        if isinstance(av, (list, dict, set)):
                            reg.setdefault(id(av), (av, f"{mn}.{v.__name__}.{ak}"))
        _MODULE_STATE["reg"] = reg
        _MODULE_STATE["built"] = True
    hit = _MODULE_STATE["reg"].get(id(obj))
    if hit is not None and hit[0] is obj:
        return hit[1]
    return None


class NTVal:
    """A NamedTuple instance with per-field (possibly symbolic) values."""

    def __init__(self, cls, vals):
        self.cls = cls
        self.vals = list(vals)
        self.nty = TNT(cls)

    @staticmethod
    def of_term(cls, t):
        nty = TNT(cls)
        vals = []
        for f, ft in zip(nty.fields, nty.ftys):
            vals.append(_wrap_field(ft, nty.acc(t, f)))
        r = NTVal(cls, vals)
        r._t = t
        return r

    def get(self, f):
        return self.vals[self.nty.fields.index(f)]

    def term(self):
        if getattr(self, "_t", None) is None:
            ts = []
            for v, ft in zip(self.vals, self.nty.ftys):
                if isinstance(v, NTVal):
                    ts.append(v.term())
                else:
                    ts.append(term(v, ft) if not is_sym(v) else coerce(v, ft).t)
            self._t = self.nty.mk(*ts)
        return self._t

    def __repr__(self):
        return f"{self.cls.__name__}({', '.join(map(repr, self.vals))})"


def _wrap_field(ft, t):
    t = z3.simplify(t)
    if ft.kind == "box":
        return _wrap_field(ft.inner, ft.unbox(t))
    if hasattr(ft, "wrap_obj"):
        return ft.wrap_obj(t)
    if ft.kind == "nt":
        return NTVal.of_term(ft.cls, t)
    return concretize(SV(t, ft))


def concretize(v):
    """Turn an SV whose term is a literal back into a concrete python value."""
    if not is_sym(v):
        return v
    t = v.t
    k = v.ty.kind
    try:
        if k == "int" and z3.is_int_value(t):
            return t.as_long()
        if k == "bool" and (z3.is_true(t) or z3.is_false(t)):
            return z3.is_true(t)
        if k == "str" and z3.is_string_value(t):
            return t.as_string()
        if k == "ienum" and z3.is_int_value(t):
            return v.ty.cls(t.as_long())
        if k == "enum" and t.num_args() == 0 and t.decl().kind() == z3.Z3_OP_DT_CONSTRUCTOR:
            return v.ty.unlift(t)
        if k == "opt" and t.decl().kind() == z3.Z3_OP_DT_CONSTRUCTOR:
            if t.decl().name() == "none":
                return None
            return concretize(SV(t.arg(0), v.ty.inner))
    except Exception:
        pass
    return v


class Closure:
    def __init__(self, fi: FuncInfo, frame=None, defaults=None, kwdefaults=None, owner=None):
        self.fi = fi
        self.frame = frame          # defining Frame for nested functions
        self.defaults = defaults    # evaluated positional defaults (list) or None -> lazily from AST
        self.kwdefaults = kwdefaults
        self.owner = owner          # class object the function was found on (for super())

    def __repr__(self):
        return f"<Closure {self.fi.qualname}>"


class LambdaVal:
    def __init__(self, node, frame):
        self.node = node
        self.frame = frame


class Bound:
    """A bound method: receiver + either a Closure or a model name."""

    def __init__(self, recv, fn, name=None):
        self.recv = recv
        self.fn = fn
        self.name = name

    def __repr__(self):
        return f"<Bound {self.name or self.fn} of {self.recv!r}>"


class SuperProxy:
    def __init__(self, cls, obj):
        self.cls = cls
        self.obj = obj


class SymIter:
    """A symbolic-length iterable: length term and element accessor."""

    def __init__(self, length, at, label="iter", facts=None):
        self.length = length          # z3 Int term
        self.at = at                  # f(ex, i_term) -> value
        self.label = label
        self.facts = facts            # optional f(ex, i_term) -> [BoolRef]


class Frame:
    def __init__(self, fi, locals_, parent, module):
        self.fi = fi
        self.locals = locals_
        self.parent = parent      # lexically enclosing Frame
        self.module = module      # real module object
        self.self_cls = None      # class for zero-arg super()
        self.loop_ordinal = 0
        self.loop_entry = {}      # (qualname, ordinal) -> slot values at loop entry (for invariants)
        self.yielded = None       # generator output collector (python list) or None


class WriteLog(list):
    """heap/local writes of one loop iteration; remembers the logs of nested loops merged into it"""

    def __init__(self):
        super().__init__()
        self.children = set()

    def merge(self, inner):
        self.extend(inner)
        self.children.add(id(inner))
        self.children |= getattr(inner, "children", set())

    def owns(self, born):
        return born is self or id(born) in self.children


class Undefined:
    def __init__(self, why):
        self.why = why


# ---------------------------------------------------------------------------
# loop specifications (sidecar)


class Slot:
    """A piece of state a loop may modify."""

    def __init__(self, name, ty, get, set_):
        self.name = name
        self.ty = ty
        self.get = get      # f(ex, frame) -> value
        self.set = set_     # f(ex, frame, value)


def local_slot(name, ty):
    def g(ex, fr):
        return fr.locals[name]

    def s(ex, fr, v):
        fr.locals[name] = v

    sl = Slot(name, ty, g, s)
    sl.local = name
    return sl


def field_slot(name, objexpr, field, ty):
    """objexpr: f(ex, frame) -> HObj"""

    def g(ex, fr):
        return objexpr(ex, fr).fields[field]

    def s(ex, fr, v):
        objexpr(ex, fr).fields[field] = v

    sl = Slot(name, ty, g, s)
    sl.obj = objexpr
    sl.field = field
    return sl


def yield_slot(ty, name="yielded"):
    """The output of the enclosing generator as a Seq value of element type `ty`."""
    from .values import TSeq
    sty = TSeq(ty)

    def g(ex, fr):
        gf = ex._gen_frame(fr)
        return seq_of_items(ex, gf.yielded, sty)

    def s(ex, fr, v):
        gf = ex._gen_frame(fr)
        gf.yielded[:] = [_YieldFrom(v)]

    sl = Slot(name, sty, g, s)
    sl.is_yield = True
    return sl


def seq_of_items(ex, items, sty):
    """python list of yielded items (values / _YieldFrom chunks) -> SV Seq"""
    parts = []
    for it in items:
        if isinstance(it, _YieldFrom):
            v = it.v
            hooked = None
            for hk in ex.models.YIELD_FROM_HOOKS:
                hooked = hk(ex, v, sty)
                if hooked is not None:
                    break
            if hooked is not None:
                parts.append(hooked)
            elif is_sym(v) and v.ty.kind == "seq":
                parts.append(v.t)
            else:
                for x in ex.models.as_list(ex, v):
                    parts.append(z3.Unit(_elem_term(x, sty.inner)))
        else:
            parts.append(z3.Unit(_elem_term(it, sty.inner)))
    if not parts:
        return SV(z3.Empty(sty.sort()), sty)
    return SV(parts[0] if len(parts) == 1 else z3.Concat(*parts), sty)


def _elem_term(x, ety):
    if ety.kind == "box":
        return ety.box(_elem_term(x, ety.inner))
    if isinstance(x, NTVal):
        return x.term()
    if isinstance(x, HObj) and hasattr(ety, "lift_obj"):
        return ety.lift_obj(x)
    if is_sym(x):
        return coerce(x, ety).t
    return ety.lift(x)


class Schema:
    """
    A universally quantified invariant conjunct  forall y. f(y).
    Proved at a fresh skolem y0 after instantiating the induction hypothesis (the same conjunct as assumed at
    the start of the iteration) at y0 - single-instance skolemisation, so the VC stays quantifier free.
    `using(y)` gives definitional unfoldings to instantiate at y.
    """

    def __init__(self, sort, f, using=None):
        self.sort, self.f, self.using = sort, f, using

    def at(self, ex, y):
        if self.using:
            for u in self.using(y):
                ex.assume_def(u)
        return self.f(y)

    def forall(self):
        y = z3.Const("y!schema", self.sort)
        return z3.ForAll([y], self.f(y))


class _SafeSpec:
    """loop contract whose callbacks report a structural mismatch with the code as Unsupported instead of crashing"""

    def __init__(self, spec, key):
        self._s, self._k = spec, key
        for a in ("slots", "name", "fresh_val"):
            setattr(self, a, getattr(spec, a))
        self.using = self._wrap(spec.using) if spec.using else None
        self.inv = self._wrap(spec.inv)
        self.step = self._wrap(spec.step) if spec.step else None

    def _wrap(self, f):
        def g(*a, **k):
            try:
                return f(*a, **k)
            except (KeyError, AttributeError, IndexError, TypeError, AssertionError) as e:
                raise Unsupported(f"the loop contract for {self._k} does not fit the loop it is attached to ({type(e).__name__}: {e}); "
                                  f"the loop structure of the function changed")
        return g


class LoopSpec:
    """
    slots:   state the loop may modify (everything else is checked unmodified)
    inv:     f(ex, frame, i, vals: dict name->value) -> [(label, BoolRef)]
    using:   optional f(ex, frame, i, vals) -> [BoolRef] of definitional
             unfoldings (instances of spec-function definitions) to assume
    """

    def __init__(self, slots, inv, using=None, name=None, fresh_val=None, step=None):
        self.slots = slots
        self.inv = inv
        self.using = using
        self.name = name
        self.fresh_val = fresh_val or {}
        self.step = step      # optional f(ex, fr, i, before, after) -> [(label, BoolRef)]: what one iteration does


# ---------------------------------------------------------------------------
# obligations


class Obligation:
    def __init__(self, oid, status, detail, seconds, path, model=None, backend="z3", smt_size=0):
        self.oid = oid
        self.status = status      # discharged | refuted | unknown
        self.detail = detail
        self.seconds = seconds
        self.path = path
        self.model = model
        self.backend = backend
        self.smt_size = smt_size
        self.vacuous = False

    def as_dict(self):
        return dict(id=self.oid, status=self.status, detail=self.detail, seconds=round(self.seconds, 4),
                    path=self.path, model=self.model, backend=self.backend, vacuous=self.vacuous,
                    smt_size=self.smt_size, auto_slots=getattr(self, "auto_slots", []))


# ---------------------------------------------------------------------------


class Ex:
    VC_TIMEOUT_MS = 20000
    BRANCH_TIMEOUT_MS = 3000

    def __init__(self, unit, prefix, pins=None):
        self.unit = unit
        self.pins = pins              # replay mode: input name -> python value (see _native_call)
        self.pin_objs = []
        self.native_calls = 0
        self.native_args = None
        self.native_result = None
        self.pre_call_decisions = None
        self.call_serial = None       # HObj serial at the moment the function under contract was entered
        self.state_writes = set()     # "label.field" of pre-existing objects / "module:<name>" written by the function
        self.repo = repo()
        self.prefix = list(prefix)
        self.dpos = 0
        self.decisions = []          # [(choice, label)]
        self.alternatives = []       # decision prefixes to explore later
        self.solver = z3.Solver()
        self.solver.set("timeout", self.BRANCH_TIMEOUT_MS)
        self.pc = []
        self.obligations = []
        self.assumptions_used = set()
        self.loop_specs = {}         # (qualname, ordinal) -> LoopSpec
        self.callee_contracts = {}   # qualname -> f(ex, args, kwargs)
        self.inline_only = None
        self.ghost = {}
        self.writes = None           # active write log (list) or None
        self.input_vars = {}         # name -> (SV / NTVal) for model extraction
        self.trace = []
        self.depth = 0
        self.covers = set()
        self.notes = []
        self.nofork = 0
        self.defs = []               # definitional equations usable as rewrite rules: (guard|None, lhs, rhs)
        self.used_uf = {}            # name -> (FuncDecl, python impl) of unary str functions in use
        self._inst_done = set()
        from . import models
        self.models = models

    # -- path condition ----------------------------------------------------
    def assume(self, f, why=None):
        if isinstance(f, bool):
            if not f:
                raise PathAbort("assumed false")
            return
        f = z3.simplify(f)
        if z3.is_true(f):
            return
        if z3.is_false(f):
            raise PathAbort("assumed false")
        self.pc.append(f)
        self.solver.add(f)
        if why:
            self.assumptions_used.add(why)

    def sync_consts(self):
        """Closed facts f(c) == CPython f(c) for the uninterpreted string functions in use and every string literal seen."""
        from .values import SEEN_STR
        if len(SEEN_STR) > 600:
            return
        M_ = self.models
        base = {"str_upper": (M_.str_upper, str.upper), "str_lower": (M_.str_lower, str.lower), "str_strip": (M_.str_strip, str.strip)}
        base.update(self.used_uf)
        gens = list(base.values()) + list(M_.ALWAYS_INSTANTIATE)
        if not gens:
            return
        for c in list(SEEN_STR):
            if c in self._inst_done:
                continue
            n_before = len(self._inst_done)
            for g in gens:
                key = (g[0].name() if not callable(g) else g.__name__, c)
                if key in self._inst_done:
                    continue
                self._inst_done.add(key)
                if callable(g):
                    for f in g(c):
                        self.solver.add(f)
                else:
                    f, pyf = g
                    self.solver.add(f(z3.StringVal(c)) == z3.StringVal(pyf(c)))

    def _check(self, extra, timeout):
        self.sync_consts()
        self.solver.push()
        try:
            for e in extra:
                self.solver.add(e)
            r = timed_check(self.solver, timeout)
            self._last_model = None
            if r == z3.sat and getattr(self, "_want_model", False):
                try:
                    self._last_model = self._model_of(self.solver.model())
                except Exception:
                    self._last_model = None
            return r
        finally:
            self.solver.pop()

    def feasible(self, cond):
        r = self._check([cond], self.BRANCH_TIMEOUT_MS)
        return r != z3.unsat

    def choose(self, options):
        """options: [(label, BoolRef)] covering all cases; returns chosen index."""
        if self.nofork:
            raise _WouldFork()
        if self.dpos < len(self.prefix):
            i = self.prefix[self.dpos]
            self.dpos += 1
            self.decisions.append((i, options[i][0]))
            self.assume(options[i][1])
            return i
        feas = [i for i, (lab, c) in enumerate(options) if self.feasible(c)]
        if not feas:
            raise PathAbort("no feasible option")
        base = [d for d, _ in self.decisions]
        for j in feas[1:]:
            self.alternatives.append(base + [j])
        i = feas[0]
        self.dpos += 1
        self.prefix.append(i)
        self.decisions.append((i, options[i][0]))
        self.assume(options[i][1])
        return i

    def branch(self, cond, label="if"):
        """cond: python bool or BoolRef -> python bool for this path."""
        if isinstance(cond, bool):
            return cond
        cond = z3.simplify(cond)
        if z3.is_true(cond):
            return True
        if z3.is_false(cond):
            return False
        i = self.choose([(f"{label}:T", cond), (f"{label}:F", z3.Not(cond))])
        return i == 0

    def prove(self, oid, f, detail=""):
        """Obligation: pc => f.  Proved inline; assumed afterwards."""
        if self.nofork:
            raise _WouldFork()      # never decide an obligation during speculative (unguarded) evaluation
        t0 = time.time()
        if isinstance(f, bool):
            f = z3.BoolVal(f)
        fs = z3.simplify(f)
        path = "/".join(l for _, l in self.decisions)
        if z3.is_true(fs):
            self.obligations.append(Obligation(oid, "discharged", detail or "trivial", 0.0, path))
            return True
        neg = z3.Not(f)
        # fast path: incremental solver; then the cone of influence of the goal; then a fresh
        # one-shot solver on everything (stronger preprocessing); then cvc5
        self._want_model = True
        try:
            r = self._check([neg], min(2500, self.VC_TIMEOUT_MS))
        finally:
            self._want_model = False
        backend = "z3"
        model = self._last_model if r == z3.sat else None
        candidate = None
        size = len(self.solver.sexpr()) + len(neg.sexpr())
        if r == z3.unknown:
            sl = _slice(list(self.solver.assertions()), neg)
            s1 = z3.Solver()
            s1.add(sl)
            s1.add(neg)
            r1 = timed_check(s1, 5000)
            if r1 == z3.unsat:
                r, backend = z3.unsat, "z3-sliced"      # a subset of the hypotheses already suffices
            elif r1 == z3.sat:
                candidate = self._model_of(s1.model())  # not a refutation: only part of the hypotheses
        if r == z3.unknown:
            from .solve import cvc5_check
            r2, txt = cvc5_check(self.solver, [neg], timeout_s=min(10, self.VC_TIMEOUT_MS // 1000), want_model=True)
            if r2 in ("unsat", "sat"):
                backend = "cvc5"
                r = z3.unsat if r2 == "unsat" else z3.sat
                if r2 == "sat":
                    model = {"cvc5_model": txt, "candidate_from_sliced_query": candidate}
        if r == z3.unknown:
            s2 = z3.Solver()
            s2.add(self.solver.assertions())
            s2.add(neg)
            r = timed_check(s2, self.VC_TIMEOUT_MS)
            backend = "z3-oneshot"
            if r == z3.sat:
                model = self._model_of(s2.model())
        if r == z3.unsat:
            st = "discharged"
        elif r == z3.sat:
            st = "refuted"
            if model is None:
                model = self._extract_model(neg)
        else:
            st = "unknown"
            model = {"candidate_from_sliced_query": candidate} if candidate else None
        ob = Obligation(oid, st, detail or str(fs)[:300], time.time() - t0, path, model, backend, size)
        ob.decisions = [i for i, _ in self.decisions]
        ob.pre_call = self.pre_call_decisions
        ob.raw_model = getattr(self, "_last_raw", None) if st == "refuted" else None
        ob.auto_slots = list(self.ghost.get("auto_slots", []))
        self.obligations.append(ob)
        if st == "discharged":
            self.assume(f)
        else:
            # keep exploring under the assumption so that later obligations are meaningful
            self.assume(f)
        return st == "discharged"

    def concrete_value(self, v):
        """If the path condition forces a unique value for v, return it (concrete); else None."""
        if not is_sym(v):
            return v
        c = concretize(v)
        if not is_sym(c):
            return c
        if timed_check(self.solver, self.BRANCH_TIMEOUT_MS) != z3.sat:
            return None
        mv = self.solver.model().eval(v.t, model_completion=True)
        if self._check([v.t != mv], self.BRANCH_TIMEOUT_MS) == z3.unsat:
            try:
                return v.ty.unlift(mv)
            except Exception:
                return None
        return None

    def enumerate_values(self, v, limit=24):
        """All values the path condition allows for v (or None when more than `limit`)."""
        vals = []
        self.sync_consts()
        self.solver.set("timeout", self.BRANCH_TIMEOUT_MS)
        self.solver.push()
        try:
            while True:
                if timed_check(self.solver, self.BRANCH_TIMEOUT_MS) != z3.sat:
                    break
                mv = self.solver.model().eval(v.t, model_completion=True)
                vals.append(mv)
                if len(vals) > limit:
                    return None
                self.solver.add(v.t != mv)
        finally:
            self.solver.pop()
        return vals

    def cover(self, label):
        self.covers.add(label)

    # -- definitional unfolding and structured sequence equalities -------------
    def assume_def(self, f):
        """Assume an instance of a spec-function definition and remember it as a rewrite rule."""
        self.assume(f, "definitional unfolding")
        g, eq = (f.arg(0), f.arg(1)) if z3.is_implies(f) else (None, f)
        if z3.is_eq(eq) and eq.arg(0).decl().kind() == z3.Z3_OP_UNINTERPRETED and eq.arg(0).num_args() > 0:
            self.defs.append((g, eq.arg(0), eq.arg(1)))

    def _note_var_def(self, f):
        """an assumed invariant `fresh_var == term` doubles as a rewrite rule"""
        if z3.is_eq(f) and f.arg(0).num_args() == 0 and f.arg(0).decl().kind() == z3.Z3_OP_UNINTERPRETED:
            self.defs.append((None, f.arg(0), f.arg(1)))

    def expand_defs(self, t):
        for _ in range(3):
            changed = False
            for g, a, b in self.defs:
                if not _occurs(a, t):
                    continue
                if g is not None and self._check([z3.Not(g)], self.BRANCH_TIMEOUT_MS) != z3.unsat:
                    continue
                t = z3.substitute(t, (a, b))
                changed = True
            if not changed:
                break
        return t

    def _seq_parts(self, t):
        """flatten a Seq term into parts, resolving If parts by forking on their condition"""
        out = []
        stack = [t]
        while stack:
            x = stack.pop()
            k = x.decl().kind()
            if k == z3.Z3_OP_SEQ_CONCAT:
                stack.extend(reversed(x.children()))
            elif k == z3.Z3_OP_SEQ_EMPTY:
                continue
            elif k == z3.Z3_OP_ITE:
                if self.branch(x.arg(0), "spec-case"):
                    stack.append(x.arg(1))
                else:
                    stack.append(x.arg(2))
            else:
                out.append(x)
        return out

    def assume_inv(self, items, store):
        for lab, f in items:
            if isinstance(f, Schema):
                store[lab] = f          # instantiated explicitly where needed (no quantifier enters the solver)
            else:
                self.assume(f)
                self._note_var_def(f)

    def prove_inv_items(self, prefix, items, ih):
        for lab, f in items:
            if isinstance(f, Schema):
                y0 = z3.Const(f"y0!{lab}!{len(self.obligations)}", f.sort)
                if lab in ih:
                    self.assume(ih[lab].at(self, y0))       # the induction hypothesis, instantiated once
                self.prove(f"{prefix}:{lab}", f.at(self, y0))
            else:
                self.prove_inv(f"{prefix}:{lab}", f)

    def prove_inv(self, oid, f, detail=""):
        if z3.is_eq(f) and z3.is_seq(f.arg(0)) and not z3.is_string(f.arg(0)):
            return self.prove_eq(oid, f.arg(0), f.arg(1), detail)
        return self.prove(oid, f, detail)

    def prove_eq(self, oid, a, b, detail=""):
        """
        Prove a == b.  Sequence equalities are decomposed structurally (common
        prefix/suffix cancelled, unit elements compared field by field) so that a
        wrong implementation yields a small refutable obligation with a model
        instead of an undecided sequence query.
        """
        if not z3.is_seq(a) or z3.is_string(a):
            return self.prove(oid, a == b, detail)
        a2, b2 = self.expand_defs(a), self.expand_defs(b)
        pa, pb = self._seq_parts(z3.simplify(a2)), self._seq_parts(z3.simplify(b2))
        while pa and pb and pa[0].eq(pb[0]):
            pa.pop(0), pb.pop(0)
        while pa and pb and pa[-1].eq(pb[-1]):
            pa.pop(), pb.pop()
        if not pa and not pb:
            self.obligations.append(Obligation(oid, "discharged", detail or "structurally equal after unfolding", 0.0,
                                               "/".join(l for _, l in self.decisions)))
            return True
        units = lambda ps: all(p.decl().kind() == z3.Z3_OP_SEQ_UNIT for p in ps)
        if units(pa) and units(pb):
            if len(pa) != len(pb):
                return self.prove(oid, z3.BoolVal(False), (detail + " " if detail else "") +
                                  f"the code produced {len(pa)} element(s) where the contract prescribes {len(pb)}")
            ok = True
            for j, (x, y) in enumerate(zip(pa, pb)):
                ex_, ey_ = x.arg(0), y.arg(0)
                ok &= self._prove_elem_eq(oid if len(pa) == 1 else f"{oid}[{j}]", ex_, ey_, detail)
            return ok
        same_fn = lambda x, y: (x.decl().kind() == z3.Z3_OP_UNINTERPRETED and x.num_args() > 0 and x.decl().eq(y.decl()))
        if len(pa) == len(pb) and pa and all(same_fn(x, y) for x, y in zip(pa, pb)):
            # both sides apply the same (uninterpreted) spec function: equal arguments suffice, and with the
            # function uninterpreted nothing else can make them equal
            ok = True
            for j, (x, y) in enumerate(zip(pa, pb)):
                for k in range(x.num_args()):
                    if x.arg(k).eq(y.arg(k)):
                        continue
                    ok &= self._prove_elem_eq(f"{oid}.{x.decl().name()}.arg{k}", x.arg(k), y.arg(k), detail)
            return ok
        return self.prove(oid, a == b, detail)

    def _prove_elem_eq(self, oid, x, y, detail):
        srt = x.sort()
        if isinstance(srt, z3.DatatypeSortRef) and srt.num_constructors() == 1 and srt.constructor(0).arity() > 0:
            ok = True
            for k in range(srt.constructor(0).arity()):
                acc = srt.accessor(0, k)
                fx, fy = z3.simplify(acc(x)), z3.simplify(acc(y))
                nm = acc.name().split("_", 1)[-1]
                ok &= self._prove_elem_eq(f"{oid}.{nm}", fx, fy, detail)
            return ok
        return self.prove(oid, x == y, detail)

    def _model_of(self, m):
        out, raw = {}, {}
        for name, v in self.input_vars.items():
            try:
                out[name] = self.model_value(m, v)
            except Exception as e:  # pragma: no cover
                out[name] = f"<{type(e).__name__}: {e}>"
            try:
                if isinstance(v, NTVal):
                    raw[name] = v.nty.unlift(m.eval(v.term(), model_completion=True), m)
                elif is_sym(v):
                    raw[name] = v.ty.unlift(m.eval(v.t, model_completion=True), m)
            except Exception:
                pass
        self._last_raw = raw
        return out

    def _extract_model(self, neg):
        self.solver.push()
        try:
            self.solver.add(neg)
            if timed_check(self.solver, self.VC_TIMEOUT_MS) != z3.sat:
                return None
            m = self.solver.model()
            out = {}
            for name, v in self.input_vars.items():
                try:
                    out[name] = self.model_value(m, v)
                except Exception as e:  # pragma: no cover
                    out[name] = f"<{type(e).__name__}: {e}>"
            return out
        finally:
            self.solver.pop()

    def model_value(self, m, v):
        if isinstance(v, NTVal):
            t = m.eval(v.term(), model_completion=True)
            return _jsonable(v.nty.unlift(t, m))
        if is_sym(v):
            t = m.eval(v.t, model_completion=True)
            try:
                return _jsonable(v.ty.unlift(t, m))
            except Exception:
                return str(t)
        if callable(v):
            return v(m)
        return _jsonable(v)

    def declare_input(self, name, v):
        self.input_vars[name] = v
        return v

    # -- symbolic inputs ---------------------------------------------------
    def sym(self, ty: Ty, name):
        v = fresh(ty, name)
        self.assume(ty.domain(v.t))
        if ty.kind == "nt":
            v = NTVal.of_term(ty.cls, v.t)
        self.input_vars[name] = v
        pins = getattr(self, "pins", None)
        if pins is not None:
            if name not in pins:
                raise NativeReplayUnsupported(f"no value for input {name!r} in the counter-model")
            self.assume((v.term() if isinstance(v, NTVal) else v.t) == ty.lift(pins[name]), "input pinned to the counter-model")
            self.pin_objs.append((v, pins[name]))
        return v

    # -- truthiness / equality --------------------------------------------
    def truthy(self, v):
        if is_sym(v):
            k = v.ty.kind
            if k == "bool":
                return v.t
            if k in ("int", "ienum"):
                return v.t != 0
            if k == "num":
                return v.t != 0
            if k == "str":
                return z3.Length(v.t) > 0
            if k == "seq":
                return z3.Length(v.t) > 0
            if k == "opt":
                inner = SV(v.ty.val(v.t), v.ty.inner)
                return z3.And(z3.Not(v.ty.is_none(v.t)), self._z(self.truthy(inner)))
            if k in ("enum", "nt"):
                return True
            m = self.models.truthy_of(self, v)
            if m is not None:
                return m
            raise Unsupported(f"truthiness of {v.ty}")
        if isinstance(v, NTVal):
            return len(v.vals) > 0
        if isinstance(v, HObj):
            r = self.models.truthy_of(self, v)
            return True if r is None else r
        if isinstance(v, SymIter):
            return v.length > 0
        if isinstance(v, (Closure, Bound, LambdaVal, ExcVal)):
            return True
        return bool(v)

    def _z(self, b):
        return z3.BoolVal(b) if isinstance(b, bool) else b

    def test(self, v, label="if"):
        return self.branch(self.truthy(v), label)

    def eq(self, a, b):
        """Python == ; returns python bool or BoolRef."""
        if a is b and not is_sym(a):
            return True
        if isinstance(a, NTVal) or isinstance(b, NTVal):
            if isinstance(a, NTVal) and isinstance(b, NTVal):
                if len(a.vals) != len(b.vals):
                    return False
                cs = [self.eq(x, y) for x, y in zip(a.vals, b.vals)]
                if any(c is False for c in cs):
                    return False
                cs = [c for c in cs if c is not True]
                return z3.And(cs) if cs else True
            other = b if isinstance(a, NTVal) else a
            mine = a if isinstance(a, NTVal) else b
            if is_sym(other) and other.ty.kind == "nt":
                return mine.term() == other.t
            if isinstance(other, tuple):
                return self.eq(mine, NTVal(mine.cls, list(other))) if len(other) == len(mine.vals) else False
            return False
        if isinstance(a, HObj) or isinstance(b, HObj):
            r = self.models.eq_of(self, a, b)
            if r is None:
                return a is b
            return r
        if not is_sym(a) and not is_sym(b):
            if isinstance(a, (list, tuple)) and isinstance(b, (list, tuple)) and type(a) is type(b):
                if len(a) != len(b):
                    return False
                cs = [self.eq(x, y) for x, y in zip(a, b)]
                if any(c is False for c in cs):
                    return False
                cs = [c for c in cs if c is not True]
                return z3.And(cs) if cs else True
            return a == b
        # at least one symbolic
        if a is None or b is None:
            s = a if is_sym(a) else b
            if s.ty.kind == "opt":
                return s.ty.is_none(s.t)
            return False
        sa, sb = (a, b)
        if not is_sym(sa):
            sa, sb = sb, sa
        # sa symbolic
        if sa.ty.kind == "opt":
            if is_sym(sb) and sb.ty.kind == "opt":
                return sa.t == coerce(sb, sa.ty).t
            try:
                return sa.t == coerce(sb, sa.ty).t
            except Exception:
                return False
        if is_sym(sb) and sb.ty.kind == "opt":
            return self.eq(sb, sa)
        ka = sa.ty.kind
        try:
            tb_ty = sb.ty if is_sym(sb) else ty_of_concrete(sb)
        except NotImplementedError:
            return False
        kb = tb_ty.kind
        numeric = ("int", "num", "ienum", "bool")
        if ka in numeric and kb in numeric:
            if ka == "bool" and kb == "bool":
                return sa.t == term(sb)
            if "num" in (ka, kb):
                return coerce(sa, FRAC).t == coerce(sv(sb), FRAC).t
            return coerce(sa, INT).t == coerce(sv(sb), INT).t
        if ka != kb:
            return False
        if sa.ty != tb_ty:
            if ka == "seq":
                return sa.t == coerce(sv(sb), sa.ty).t
            return False
        return sa.t == term(sb, sa.ty)

    # -- numeric helpers -----------------------------------------------------
    def num_kind(self, v):
        if is_sym(v):
            return v.ty.kind if v.ty.kind in ("int", "num", "ienum", "bool") else None
        if isinstance(v, bool):
            return "bool"
        if isinstance(v, int):
            return "int"
        import fractions, decimal
        if isinstance(v, (float, fractions.Fraction, decimal.Decimal)):
            return "num"
        return None

    # -- heap writes ---------------------------------------------------------
    def setfield(self, obj: HObj, field, value):
        if self.nofork:
            raise _WouldFork()
        if self.writes is not None:
            self.writes.append(("field", obj, field))
        if self.call_serial is not None and getattr(obj, "_serial", 1 << 60) <= self.call_serial and not getattr(obj, "_slot_owned", None):
            self.state_writes.add(f"{_generic_label(obj)}.{field}")
        obj.fields[field] = value

    def note_module_state_write(self, obj):
        """a module-level or class-level container of the library is being mutated"""
        nm = _module_state_name(obj)
        if nm is not None and self.call_serial is not None:
            self.state_writes.add("module:" + nm)
        return nm

    def setlocal(self, frame: Frame, name, value):
        if self.writes is not None:
            self.writes.append(("local", frame, name))
        frame.locals[name] = value

    # -- function execution --------------------------------------------------
    def closure_of(self, qualname, owner=None):
        return Closure(self.repo.func(qualname), None, owner=owner)

    def run_function(self, fn, args=(), kwargs=None, as_generator_list=False):
        """
        Execute a function value to completion.
        Returns ('return', value) or ('raise', ExcVal).
        """
        if getattr(self, "pins", None) is not None:
            return self._native_call(fn, list(args), dict(kwargs or {}))
        self.pre_call_decisions = getattr(self, "pre_call_decisions", None) if getattr(self, "pre_call_decisions", None) is not None else len(self.decisions)
        if self.call_serial is None:
            self.call_serial = HObj._counter[0]
        try:
            v = self.call(fn, list(args), dict(kwargs or {}))
            return ("return", v)
        except PyRaise as e:
            if getattr(e.exc, "tag", None) == "signature" and getattr(e.exc, "at_depth", 1) == 0:
                # the unit passes arguments the (private) function's signature no longer accepts: the contract does not
                # fit the code any more - undecided, not a behaviour of the code
                raise Unsupported(f"the contract calls the function with arguments its signature does not accept ({e.exc.args[0] if e.exc.args else ''})")
            return ("raise", e.exc)

    def _native_call(self, fn, args, kwargs):
        """replay mode: the inputs are pinned to a counter-model; the REAL function is called natively by CPython on those
        values and its real result (or exception) is handed to the unit's postconditions"""
        import importlib
        if self.native_calls:
            raise NativeReplayUnsupported("the unit calls more than one function")
        self.native_calls += 1
        if not isinstance(fn, Closure) or fn.frame is not None:
            raise NativeReplayUnsupported("not a top-level function or method")

        def real(v):
            for sv, py in self.pin_objs:
                if sv is v:
                    return py
            if isinstance(v, (SV, NTVal, HObj)) or callable(getattr(v, "at", None)):
                raise NativeReplayUnsupported(f"argument {v!r} is not a pinned input")
            return v

        rargs = [real(a) for a in args]
        rkw = {k: real(v) for k, v in kwargs.items()}
        fi = fn.fi
        mod = importlib.import_module(fi.module)
        if fi.cls:
            cls = getattr(mod, fi.cls)
            raw = vars(cls).get(fi.node.name)
            if isinstance(raw, (classmethod, staticmethod)):
                raw = raw.__func__
            elif isinstance(raw, property):
                raw = raw.fget
        else:
            raw = getattr(mod, fi.node.name, None)
        if raw is None or not callable(raw):
            raise NativeReplayUnsupported(f"cannot resolve {fi.qualname} natively")
        raw = getattr(raw, "__wrapped__", raw) if False else raw
        self.native_args = (rargs, rkw)
        try:
            out = raw(*rargs, **rkw)
        except Exception as e:
            ev = ExcVal(type(e), e.args)
            ev.tag = None
            self.native_result = ("raise", repr(e))
            return ("raise", ev)
        self.native_result = ("return", repr(out))
        try:
            return ("return", self._lift_native(out))
        except Exception as e:
            raise NativeReplayUnsupported(f"result {out!r} cannot be handed to the contract: {e}")

    def _lift_native(self, out):
        if out is None or isinstance(out, (bool, int, str, type)):
            return out
        if isinstance(out, tuple) and not hasattr(out, "_fields"):
            return tuple(self._lift_native(x) for x in out)
        if isinstance(out, tuple):
            return NTVal.of_term(type(out), TNT(type(out)).lift(out))
        ty = ty_of_concrete(out)
        return SV(ty.lift(out), ty)

    def raise_(self, cls, *args, tag=None):
        e = ExcVal(cls, args)
        e.tag = tag
        e.at_depth = self.depth
        raise PyRaise(e)

    # binding ---------------------------------------------------------------
    def _defaults(self, clo: Closure, frame_for_defaults):
        fi = clo.fi
        a = fi.node.args
        if clo.defaults is None:
            fr = frame_for_defaults
            clo.defaults = [self.eval(d, fr) for d in a.defaults]
            clo.kwdefaults = {
                arg.arg: self.eval(d, fr) for arg, d in zip(a.kwonlyargs, a.kw_defaults) if d is not None
            }
        return clo.defaults, clo.kwdefaults

    def bind(self, clo: Closure, args, kwargs):
        fi = clo.fi
        a = fi.node.args
        module = self.repo.imp(fi.module)
        deffr = clo.frame or Frame(None, {}, None, module)
        defaults, kwdefaults = self._defaults(clo, deffr)
        params = [p.arg for p in a.posonlyargs + a.args]
        loc = {}
        args = list(args)
        kwargs = dict(kwargs)
        if len(args) > len(params) and not a.vararg:
            self.raise_(TypeError, f"{fi.qualname}() takes {len(params)} positional arguments but {len(args)} were given", tag="signature")
        for p, v in zip(params, args):
            loc[p] = v
        if a.vararg:
            loc[a.vararg.arg] = tuple(args[len(params):])
        nd = len(defaults)
        for i, p in enumerate(params):
            if p in loc:
                if p in kwargs:
                    self.raise_(TypeError, f"multiple values for argument {p}", tag="signature")
                continue
            if p in kwargs:
                loc[p] = kwargs.pop(p)
            else:
                di = i - (len(params) - nd)
                if di >= 0:
                    loc[p] = defaults[di]
                else:
                    self.raise_(TypeError, f"{fi.qualname}() missing required argument {p}", tag="signature")
        for arg in a.kwonlyargs:
            if arg.arg in kwargs:
                loc[arg.arg] = kwargs.pop(arg.arg)
            elif arg.arg in kwdefaults:
                loc[arg.arg] = kwdefaults[arg.arg]
            else:
                self.raise_(TypeError, f"missing keyword-only argument {arg.arg}", tag="signature")
        if a.kwarg:
            loc[a.kwarg.arg] = dict(kwargs)
        elif kwargs:
            self.raise_(TypeError, f"{fi.qualname}() got an unexpected keyword argument {sorted(kwargs)[0]!r}", tag="signature")
        return loc, module

    def is_generator(self, fi: FuncInfo):
        if not hasattr(fi, "_isgen"):
            fi._isgen = any(
                isinstance(n, (ast.Yield, ast.YieldFrom)) for n in _walk_own(fi.node)
            )
        return fi._isgen

    def call_closure(self, clo: Closure, args, kwargs):
        fi = clo.fi
        if self.call_serial is None and self.depth == 0:
            self.call_serial = HObj._counter[0]       # first entry into code of the library on this path
        if not hasattr(fi, "_decorators_ok"):
            # a decorator wraps the function in behaviour of its own (caching, retrying, coercion ...): only the ones the
            # executor gives a meaning to are accepted, anything else is unsupported rather than silently ignored
            ok = {"property", "classmethod", "staticmethod", "abstractmethod", "abstractclassmethod", "abstractstaticmethod", "contextmanager",
                  "total_ordering", "overload", "final", "override"}
            bad = []
            for d in getattr(fi.node, "decorator_list", []):
                nm = d.id if isinstance(d, ast.Name) else d.attr if isinstance(d, ast.Attribute) else (d.func.id if isinstance(d, ast.Call) and isinstance(d.func, ast.Name) else
                                                                                                        d.func.attr if isinstance(d, ast.Call) and isinstance(d.func, ast.Attribute) else "?")
                if nm in ("setter", "deleter", "getter"):
                    continue
                if nm not in ok:
                    bad.append(nm)
            fi._decorators_ok = not bad
            fi._bad_decorators = bad
        if not fi._decorators_ok and getattr(fi, "_memo_checked", False) and set(fi._bad_decorators) <= {"lru_cache", "cache"}:
            pass            # reached through models.memo_call, which has established that this memo is transparent
        elif not fi._decorators_ok:
            raise Unsupported(f"{fi.qualname} is wrapped by the decorator(s) {fi._bad_decorators}, which the executor does not model")
        cc = self.callee_contracts.get(fi.qualname)
        if cc is not None and self.depth > 0:
            return cc(self, args, kwargs)
        loc, module = self.bind(clo, args, kwargs)
        fr = Frame(fi, loc, clo.frame, module)
        if clo.owner is not None:
            fr.self_cls = clo.owner
        elif fi.cls:
            fr.self_cls = getattr(module, fi.cls, None)
        if self.depth > 40:
            raise Unsupported("call depth exceeded (recursion?)")
        self.depth += 1
        try:
            if self.is_generator(fi):
                fr.yielded = []
                try:
                    self.exec_block(fi.node.body, fr)
                except _Return:
                    pass
                return GenResult(fr.yielded)
            try:
                self.exec_block(fi.node.body, fr)
            except _Return as r:
                return r.value
            return None
        finally:
            self.depth -= 1

    def call(self, fn, args, kwargs):
        if isinstance(fn, Closure):
            return self.call_closure(fn, args, kwargs)
        if isinstance(fn, Bound):
            if isinstance(fn.fn, Closure):
                return self.call_closure(fn.fn, [fn.recv] + list(args), kwargs)
            return self.models.call_method(self, fn.recv, fn.name, args, kwargs)
        if isinstance(fn, LambdaVal):
            return self.call_lambda(fn, args, kwargs)
        return self.models.call_real(self, fn, args, kwargs)

    def call_lambda(self, lam: LambdaVal, args, kwargs):
        a = lam.node.args
        params = [p.arg for p in a.args]
        loc = {}
        defaults = [self.eval(d, lam.frame) for d in a.defaults]
        for i, p in enumerate(params):
            if i < len(args):
                loc[p] = args[i]
            elif p in kwargs:
                loc[p] = kwargs[p]
            else:
                loc[p] = defaults[i - (len(params) - len(defaults))]
        fr = Frame(lam.frame.fi, loc, lam.frame, lam.frame.module)
        fr.self_cls = lam.frame.self_cls
        return self.eval(lam.node.body, fr)

    # -- statements ----------------------------------------------------------
    def exec_block(self, stmts, fr: Frame):
        top = fr.fi is not None and stmts is fr.fi.node.body and not self.nofork
        for i, s in enumerate(stmts):
            if top and isinstance(s, ast.If) and _pure_return_shape([s] + list(stmts[i + 1:])):
                merged = self._merge_pure_returns([s] + list(stmts[i + 1:]), fr)
                if merged is not _NO_MERGE:
                    raise _Return(merged)
            self.exec_stmt(s, fr)

    def _merge_pure_returns(self, stmts, fr):
        """
        If-conversion of a side-effect-free tail `if c: return A ... return B`: both arms are evaluated without forking,
        writing or proving, and the function returns ite(c, A, B).  Semantics-preserving (arms are pure expressions whose
        evaluation neither raised nor needed a fork); any doubt falls back to the ordinary forking execution.
        """
        n_pc, n_ob = len(self.pc), len(self.obligations)
        self.nofork += 1
        try:
            return self._pure_value(stmts, fr)
        except (_WouldFork, PyRaise, Unsupported, _NoMerge):
            if len(self.obligations) != n_ob:
                raise Unsupported("internal: an obligation was generated during speculative evaluation")
            return _NO_MERGE
        finally:
            self.nofork -= 1

    def _pure_value(self, stmts, fr):
        for i, s in enumerate(stmts):
            if isinstance(s, ast.Return):
                return self.eval(s.value, fr) if s.value is not None else None
            if isinstance(s, ast.Pass) or (isinstance(s, ast.Expr) and isinstance(s.value, ast.Constant)):
                continue
            if isinstance(s, ast.If):
                rest = list(stmts[i + 1:])
                c = self.eval_cond(s.test, fr)
                if not isinstance(c, bool):
                    c = z3.simplify(c)
                    if z3.is_true(c) or z3.is_false(c):
                        c = z3.is_true(c)
                if isinstance(c, bool):
                    return self._pure_value(list(s.body if c else s.orelse) + rest, fr)
                a = self._pure_value(list(s.body) + rest, fr)
                b = self._pure_value(list(s.orelse) + rest, fr)
                return _merge_values(c, a, b)
            raise _NoMerge()
        raise _NoMerge()

    def exec_stmt(self, s, fr: Frame):
        m = getattr(self, "st_" + type(s).__name__, None)
        if m is None:
            raise Unsupported(f"statement {type(s).__name__} at {fr.fi.qualname if fr.fi else '?'}:{s.lineno}")
        return m(s, fr)

    def st_Pass(self, s, fr):
        pass

    def st_Expr(self, s, fr):
        if isinstance(s.value, ast.Constant):
            return  # docstring
        self.eval(s.value, fr)

    def st_Return(self, s, fr):
        raise _Return(self.eval(s.value, fr) if s.value is not None else None)

    def st_Break(self, s, fr):
        raise _Break()

    def st_Continue(self, s, fr):
        raise _Continue()

    def st_Nonlocal(self, s, fr):
        fr.locals.setdefault("__nonlocal__", set()).update(s.names)

    def st_Global(self, s, fr):
        raise Unsupported("global statement")

    def st_Import(self, s, fr):
        import importlib
        for al in s.names:
            mod = importlib.import_module(al.name)
            name = al.asname or al.name.split(".")[0]
            self.setlocal(fr, name, mod if al.asname else importlib.import_module(al.name.split(".")[0]))

    def st_ImportFrom(self, s, fr):
        import importlib
        modname = s.module or ""
        if s.level:
            pkg = fr.module.__package__ if hasattr(fr.module, "__package__") else fr.fi.module
            base = pkg.split(".")
            if s.level > 1:
                base = base[: -(s.level - 1)]
            modname = ".".join(base + ([s.module] if s.module else []))
        mod = importlib.import_module(modname)
        for al in s.names:
            self.setlocal(fr, al.asname or al.name, getattr(mod, al.name))

    def st_FunctionDef(self, s, fr):
        fi = None
        for k, cand in self.repo.funcs.items():
            if cand.node is s:
                fi = cand
                break
        if fi is None:
            raise Unsupported(f"nested function {s.name} not indexed")
        clo = Closure(fi, fr)
        clo.defaults = [self.eval(d, fr) for d in s.args.defaults]
        clo.kwdefaults = {a.arg: self.eval(d, fr) for a, d in zip(s.args.kwonlyargs, s.args.kw_defaults) if d is not None}
        val = clo
        for dec in reversed(s.decorator_list):
            d = self.eval(dec, fr)
            val = self.call(d, [val], {})
        self.setlocal(fr, s.name, val)

    def st_Assign(self, s, fr):
        v = self.eval(s.value, fr)
        for tgt in s.targets:
            self.assign(tgt, v, fr)

    def st_AnnAssign(self, s, fr):
        if s.value is not None:
            self.assign(s.target, self.eval(s.value, fr), fr)

    def st_AugAssign(self, s, fr):
        cur = self.eval(_load(s.target), fr)
        v = self.binop(s.op, cur, self.eval(s.value, fr), inplace=True)
        self.assign(s.target, v, fr)

    def st_Delete(self, s, fr):
        for t in s.targets:
            if isinstance(t, ast.Subscript):
                obj = self.eval(t.value, fr)
                key = self.eval(t.slice, fr)
                self.models.delitem(self, obj, key)
            elif isinstance(t, ast.Name):
                fr.locals.pop(t.id, None)
            elif isinstance(t, ast.Attribute):
                self.delattr(self.eval(t.value, fr), t.attr)
            else:
                raise Unsupported("del target")

    def st_Assert(self, s, fr):
        c = self.eval_cond(s.test, fr)
        if not self.branch(c, "assert"):
            self.raise_(AssertionError)

    def st_If(self, s, fr):
        c = self.eval_cond(s.test, fr)
        if self.branch(c, f"if@{_ord(fr, s)}"):
            self._refine(s.test, True, fr)
            self.exec_block(s.body, fr)
        else:
            self._refine(s.test, False, fr)
            self.exec_block(s.orelse, fr)

    def _refine(self, test, outcome, fr):
        """After `if x:` / `if not x:` / `if x is (not) None:` on a local holding an Optional, narrow the local."""
        neg = False
        while isinstance(test, ast.UnaryOp) and isinstance(test.op, ast.Not):
            test, neg = test.operand, not neg
        truthy = outcome != neg
        name = None
        if isinstance(test, ast.Name):
            name, known_some = test.id, truthy
        elif (isinstance(test, ast.Compare) and len(test.ops) == 1 and isinstance(test.left, ast.Name)
              and isinstance(test.comparators[0], ast.Constant) and test.comparators[0].value is None):
            name = test.left.id
            known_some = truthy if isinstance(test.ops[0], ast.IsNot) else (not truthy if isinstance(test.ops[0], ast.Is) else False)
        if name is None or not known_some or name not in fr.locals:
            return
        v = fr.locals[name]
        if is_sym(v) and v.ty.kind == "opt":
            fr.locals[name] = _wrap_field(v.ty.inner, v.ty.val(v.t))      # a refinement of what is known, not a write

    def st_Raise(self, s, fr):
        if s.exc is None:
            cur = fr.locals.get("__current_exc__")
            if cur is None:
                raise Unsupported("bare raise outside except")
            raise PyRaise(cur)
        e = self.eval(s.exc, fr)
        if isinstance(e, type) and issubclass(e, BaseException):
            e = ExcVal(e, ())
        if not isinstance(e, ExcVal):
            if isinstance(e, HObj) and issubclass(e.cls, BaseException):
                e = ExcVal(e.cls, e.fields.get("args", ()))
            elif e is None or (is_sym(e)):
                # `raise exception or UnicodeError` style: resolved by eval of BoolOp
                raise Unsupported(f"raise of non-exception {e!r}")
            else:
                raise Unsupported(f"raise of {e!r}")
        if s.cause is not None:
            e.cause = self.eval(s.cause, fr)
        raise PyRaise(e)

    def st_Try(self, s, fr):
        try:
            self._try_core(s, fr)
        except (PyRaise, _Return, _Break, _Continue):
            if s.finalbody:
                self.exec_block(s.finalbody, fr)
            raise
        if s.finalbody:
            self.exec_block(s.finalbody, fr)

    def _try_core(self, s, fr):
        try:
            self.exec_block(s.body, fr)
        except PyRaise as pr:
            for h in s.handlers:
                if h.type is None:
                    match = True
                else:
                    ht = self.eval(h.type, fr)
                    hts = ht if isinstance(ht, tuple) else (ht,)
                    match = any(isinstance(c, type) and issubclass(pr.exc.cls, c) for c in hts)
                if match:
                    if h.name:
                        self.setlocal(fr, h.name, pr.exc)
                    saved = fr.locals.get("__current_exc__")
                    fr.locals["__current_exc__"] = pr.exc
                    try:
                        self.exec_block(h.body, fr)
                    finally:
                        fr.locals["__current_exc__"] = saved
                    return
            raise
        else:
            self.exec_block(s.orelse, fr)

    def st_With(self, s, fr):
        if len(s.items) != 1:
            raise Unsupported("with: multiple items")
        item = s.items[0]
        cm = self.eval(item.context_expr, fr)
        val = self.models.with_enter(self, cm)
        if item.optional_vars is not None:
            self.assign(item.optional_vars, val, fr)
        try:
            self.exec_block(s.body, fr)
        except PyRaise as pr:
            self.models.with_exit(self, cm, pr.exc)
            raise
        except (_Return, _Break, _Continue):
            self.models.with_exit(self, cm, None)
            raise
        else:
            self.models.with_exit(self, cm, None)

    # loops ---------------------------------------------------------------
    def st_For(self, s, fr):
        it = self.eval(s.iter, fr)
        ordn = _loop_ordinal(fr, s)
        it = self.models.iterable(self, it)
        if isinstance(it, SymIter):
            return self.sym_loop(s, fr, it, ordn)
        # concrete spine: unroll
        broke = False
        for x in it:
            self.assign(s.target, x, fr)
            try:
                self.exec_block(s.body, fr)
            except _Break:
                broke = True
                break
            except _Continue:
                continue
        if not broke:
            self.exec_block(s.orelse, fr)

    def st_While(self, s, fr):
        ordn = _loop_ordinal(fr, s)
        key = (fr.fi.qualname, ordn)
        spec = self.loop_specs.get(key)
        if spec is None:
            # bounded unrolling only when the condition becomes concrete
            n = 0
            while True:
                c = self.eval(s.test, fr)
                tv = self.truthy(c)
                if not isinstance(tv, bool):
                    tv = z3.simplify(tv)
                    if z3.is_true(tv):
                        tv = True
                    elif z3.is_false(tv):
                        tv = False
                    else:
                        raise Unsupported(f"while loop {key} needs an invariant")
                if not tv:
                    break
                n += 1
                if n > 64:
                    raise Unsupported(f"while loop {key} does not terminate concretely")
                try:
                    self.exec_block(s.body, fr)
                except _Break:
                    return
                except _Continue:
                    continue
            self.exec_block(s.orelse, fr)
            return
        return self.sym_while(s, fr, _SafeSpec(spec, key), key)

    def _auto_slots(self, node, fr, spec):
        """
        A pre-existing local that the loop body assigns but the contract does not declare becomes loop state with
        no invariant (an arbitrary value at the start of every iteration).  Sound; proofs that need to know more
        about it fail, and such failures are flagged so that they are not reported as violations without a witness.
        """
        declared = {getattr(sl, "local", None) for sl in spec.slots}
        tgt = {n_.id for n_ in ast.walk(node.target) if isinstance(n_, ast.Name)} if isinstance(node, ast.For) else set()
        assigned = set()
        for st in node.body:
            for n_ in ast.walk(st):
                if isinstance(n_, (ast.FunctionDef, ast.Lambda)):
                    continue
                if isinstance(n_, ast.Name) and isinstance(n_.ctx, ast.Store):
                    assigned.add(n_.id)
        extra = []
        for nm in sorted(assigned - declared - tgt):
            if nm not in fr.locals:
                continue
            v = fr.locals[nm]
            ty = None
            if is_sym(v):
                ty = v.ty
            elif isinstance(v, NTVal):
                ty = v.nty
            elif v is None:
                ty = self._annotated_type(fr, nm)
            else:
                try:
                    ty = ty_of_concrete(v)
                except Exception:
                    ty = None
            if ty is None:
                raise Unsupported(f"loop in {fr.fi.qualname} assigns local {nm!r} (a {type(v).__name__}) that is not in its declared state")
            extra.append(local_slot(nm, ty))
        if extra:
            spec.slots = list(spec.slots) + extra
            self.ghost.setdefault("auto_slots", []).extend(sl.name for sl in extra)
            self.notes.append("loop-carried local(s) not covered by the contract, treated as arbitrary: " + ", ".join(sl.name for sl in extra))

    def _annotated_type(self, fr, name):
        """type descriptor from a `name: T = ...` annotation in the function (evaluated in the module's namespace)"""
        from .values import ty_from_hint
        for n_ in ast.walk(fr.fi.node):
            if isinstance(n_, ast.AnnAssign) and isinstance(n_.target, ast.Name) and n_.target.id == name:
                try:
                    hint = eval(compile(ast.Expression(n_.annotation), "<annotation>", "eval"), dict(vars(fr.module)))
                    return ty_from_hint(hint)
                except Exception:
                    return None
        return None

    def _loop_state(self, spec, fr):
        out = {}
        for sl in spec.slots:
            v = sl.get(self, fr)
            if isinstance(v, (list, tuple)) and sl.ty.kind == "seq":
                es = [z3.Unit(_elem_term(x, sl.ty.inner)) for x in v]
                v = SV(z3.Empty(sl.ty.sort()) if not es else (es[0] if len(es) == 1 else z3.Concat(*es)), sl.ty)
            out[sl.name] = v
        return out

    def _havoc(self, spec, fr, tagname):
        vals = {}
        for sl in spec.slots:
            mk = spec.fresh_val.get(sl.name)
            v = mk(self, sl, tagname) if mk else self.fresh_of(sl.ty, f"{sl.name}@{tagname}")
            sl.set(self, fr, v)
            vals[sl.name] = v
        return vals

    def fresh_of(self, ty, hint):
        v = fresh(ty, hint)
        self.assume(ty.domain(v.t))
        if ty.kind == "nt":
            return NTVal.of_term(ty.cls, v.t)
        return v

    def _check_frame(self, log, spec, fr, pre_locals, key, born=None):
        born = log if born is None else born
        ok_locals = {getattr(sl, "local", None) for sl in spec.slots}
        for w in log:
            if w[0] == "local":
                _, f, name = w
                if f is fr and name in pre_locals and name not in ok_locals:
                    raise Unsupported(f"loop {key} assigns local {name!r} that is not in its declared state")
            elif w[0] == "yield":
                if not any(getattr(sl, "is_yield", False) for sl in spec.slots):
                    raise Unsupported(f"loop {key} yields but its declared state has no yield slot")
            elif w[0] == "field":
                _, obj, field = w
                if getattr(obj, "_born", None) is not None and born.owns(obj._born):
                    continue
                hit = False
                for sl in spec.slots:
                    if getattr(sl, "field", None) == field and sl.obj(self, fr) is obj:
                        hit = True
                    if getattr(sl, "owned", None) is not None and any(o is obj for o in sl.owned):
                        hit = True
                    if getattr(obj, "_slot_owned", None) is not None and obj._slot_owned == getattr(sl, "local", None):
                        hit = True      # an object materialised by (some loop's) slot for this very local
                if not hit:
                    # a write to a pre-existing object outside the loop's modifies-set: the frame obligation fails
                    nm = spec.name or f"{fr.fi.qualname.split('.')[-1]}#loop{key[1]}"
                    self.obligations.append(Obligation(
                        f"{nm}:frame", "refuted",
                        f"the loop body modifies {obj.label}.{field}, which is outside the loop's declared modifies-set",
                        0.0, "/".join(l for _, l in self.decisions), {"note": "frame violation found by the executor's write log"}, "write-log"))
                    raise PathAbort("frame violated")

    def sym_loop(self, s, fr, it: SymIter, ordn):
        key = (fr.fi.qualname, ordn)
        spec = self.loop_specs.get(key)
        if spec is None:
            raise Unsupported(f"for loop {key} over a symbolic sequence needs an invariant")
        spec = _SafeSpec(spec, key)
        self._auto_slots(s, fr, spec)
        name = spec.name or f"{fr.fi.qualname.split('.')[-1]}#loop{ordn}"
        n = it.length
        self.assume(n >= 0)
        # 1. invariant holds on entry
        vals0 = self._loop_state(spec, fr)
        fr.loop_entry[key] = vals0
        zero = z3.IntVal(0)
        if spec.using:
            for u in spec.using(self, fr, zero, vals0):
                self.assume_def(u)
        self.prove_inv_items(f"{name}:inv-init", spec.inv(self, fr, zero, vals0), {})
        # 2. arbitrary iteration or exit
        which = self.choose([(f"{name}:iter", z3.BoolVal(True)), (f"{name}:exit", z3.BoolVal(True))])
        pre_locals = set(fr.locals)
        if which == 0:
            i = fresh(INT, "i").t
            self.ghost[("loop_i", key)] = i
            self.assume(z3.And(i >= 0, i < n))
            vals = self._havoc(spec, fr, "i")
            if spec.using:
                for u in spec.using(self, fr, i, vals):
                    self.assume_def(u)
            ih = {}
            self.assume_inv(spec.inv(self, fr, i, vals), ih)
            if it.facts:
                for f in it.facts(self, i):
                    self.assume(f)
            x = it.at(self, i)
            if getattr(it, "on_iterate", None):
                it.on_iterate(self)
            outer = self.writes
            log = WriteLog()
            self.writes = log
            ended = "fall"
            try:
                self.assign(s.target, x, fr)
                try:
                    self.exec_block(s.body, fr)
                except _Continue:
                    ended = "continue"
                except _Break:
                    ended = "break"
            finally:
                self.writes = outer
                if outer is not None:
                    outer.merge(log)
            tgt_names = {n_.id for n_ in ast.walk(s.target) if isinstance(n_, ast.Name)}
            self._check_frame([w for w in log if not (w[0] == "local" and w[2] in tgt_names)], spec, fr, pre_locals, key, born=log)
            if ended == "break":
                # continue after the loop with the state at the break (no else clause)
                for nm in list(fr.locals):
                    pass
                self.cover(f"{name}:break")
                return
            vals1 = self._loop_state(spec, fr)
            i1 = i + 1
            if spec.step:
                for lab, f in spec.step(self, fr, i, vals, vals1):
                    self.prove_inv(f"{name}:step:{lab}", f)
            if spec.using:
                for u in spec.using(self, fr, i1, vals1):
                    self.assume_def(u)
            self.prove_inv_items(f"{name}:inv-keep", spec.inv(self, fr, i1, vals1), ih)
            self.cover(f"{name}:iter")
            raise PathAbort("loop iteration verified")
        else:
            vals = self._havoc(spec, fr, "n")
            if spec.using:
                for u in spec.using(self, fr, n, vals):
                    self.assume_def(u)
            self.assume_inv(spec.inv(self, fr, n, vals), self.ghost.setdefault(("schemas", key), {}))
            self.ghost[("loop_exit", key)] = vals
            # loop-local temporaries are undefined after the loop
            self.cover(f"{name}:exit")
            if getattr(it, "on_exhaust", None):
                it.on_exhaust(self)
            self.exec_block(s.orelse, fr)

    def sym_while(self, s, fr, spec, key):
        name = spec.name or f"{fr.fi.qualname.split('.')[-1]}#loop{key[1]}"
        vals0 = self._loop_state(spec, fr)
        fr.loop_entry[key] = vals0
        k0 = z3.IntVal(0)
        if spec.using:
            for u in spec.using(self, fr, k0, vals0):
                self.assume_def(u)
        for lab, f in spec.inv(self, fr, k0, vals0):
            self.prove_inv(f"{name}:inv-init:{lab}", f)
        which = self.choose([(f"{name}:iter", z3.BoolVal(True)), (f"{name}:exit", z3.BoolVal(True))])
        pre_locals = set(fr.locals)
        k = fresh(INT, "k").t
        self.assume(k >= 0)
        vals = self._havoc(spec, fr, "k")
        if spec.using:
            for u in spec.using(self, fr, k, vals):
                self.assume_def(u)
        for lab, f in spec.inv(self, fr, k, vals):
            self.assume(f)
            self._note_var_def(f)
        c = self.eval(s.test, fr)
        tv = self.truthy(c)
        if which == 0:
            self.assume(self._z(tv))
            outer = self.writes
            log = WriteLog()
            self.writes = log
            ended = "fall"
            try:
                try:
                    self.exec_block(s.body, fr)
                except _Continue:
                    ended = "continue"
                except _Break:
                    ended = "break"
            finally:
                self.writes = outer
                if outer is not None:
                    outer.merge(log)
            self._check_frame(log, spec, fr, pre_locals, key)
            if ended == "break":
                return
            vals1 = self._loop_state(spec, fr)
            if spec.using:
                for u in spec.using(self, fr, k + 1, vals1):
                    self.assume_def(u)
            for lab, f in spec.inv(self, fr, k + 1, vals1):
                self.prove_inv(f"{name}:inv-keep:{lab}", f)
            self.cover(f"{name}:iter")
            raise PathAbort("loop iteration verified")
        else:
            self.assume(z3.Not(self._z(tv)))
            self.ghost[("loop_exit", key)] = vals
            self.cover(f"{name}:exit")
            self.exec_block(s.orelse, fr)

    # assignment -----------------------------------------------------------
    def assign(self, tgt, v, fr):
        if isinstance(tgt, ast.Name):
            f = self._nonlocal_frame(fr, tgt.id)
            self.setlocal(f, tgt.id, v)
        elif isinstance(tgt, (ast.Tuple, ast.List)):
            items = self.models.unpack(self, v, len(tgt.elts), any(isinstance(e, ast.Starred) for e in tgt.elts))
            if any(isinstance(e, ast.Starred) for e in tgt.elts):
                raise Unsupported("starred assignment target")
            for e, x in zip(tgt.elts, items):
                self.assign(e, x, fr)
        elif isinstance(tgt, ast.Attribute):
            obj = self.eval(tgt.value, fr)
            self.setattr(obj, tgt.attr, v)
        elif isinstance(tgt, ast.Subscript):
            obj = self.eval(tgt.value, fr)
            key = self.eval(tgt.slice, fr)
            self.models.setitem(self, obj, key, v)
        else:
            raise Unsupported(f"assignment target {type(tgt).__name__}")

    def _nonlocal_frame(self, fr, name):
        nl = fr.locals.get("__nonlocal__")
        if nl and name in nl:
            p = fr.parent
            while p is not None:
                if name in p.locals:
                    return p
                p = p.parent
        return fr

    # attributes -------------------------------------------------------------
    def class_attr(self, cls, name, start_after=None):
        """Static MRO lookup on the real class; returns (owner, raw attribute) or (None, None)."""
        mro = cls.__mro__
        if start_after is not None:
            mro = mro[mro.index(start_after) + 1:]
        for k in mro:
            if name in k.__dict__:
                return k, k.__dict__[name]
        return None, None

    def wrap_real(self, raw, owner=None):
        """A function object from the imported tree -> Closure over its AST (when it is repo code)."""
        f = raw
        if isinstance(f, (staticmethod, classmethod)):
            f = f.__func__
        if isinstance(f, types.FunctionType):
            fi = self.repo.lookup_pyfunc(f)
            if fi is not None:
                frame = None
                if f.__closure__:
                    # rebuild the defining frame from the real closure cells
                    cells = {}
                    for nm, cell in zip(f.__code__.co_freevars, f.__closure__):
                        try:
                            cells[nm] = cell.cell_contents
                        except ValueError:
                            continue
                    frame = Frame(fi.parent, cells, None, self.repo.imp(fi.module))
                return Closure(fi, frame, owner=owner)
        return None

    def getattr(self, obj, name, fr=None):
        if isinstance(obj, SuperProxy):
            owner, raw = self.class_attr(type_of(obj.obj), name, start_after=obj.cls)
            if raw is None:
                self.raise_(AttributeError, name)
            return self._bind_class_attr(obj.obj, owner, raw, name)
        if isinstance(obj, HObj):
            owner, raw = self.class_attr(obj.cls, name)
            if isinstance(raw, property):
                clo = self.wrap_real(raw.fget, owner)
                if clo is None:
                    return self.models.real_property(self, obj, owner, name, raw)
                return self.call_closure(clo, [obj], {})
            if name in obj.fields:
                v = obj.fields[name]
                if isinstance(v, Undefined):
                    raise Unsupported(f"read of {obj.label}.{name}: {v.why}")
                return v
            if owner is not None:       # found on the class (its value may well be None)
                return self._bind_class_attr(obj, owner, raw, name)
            m = self.models.getattr_model(self, obj, name)
            if m is not NotImplemented:
                return m
            if self.call_serial is None or getattr(obj, "_serial", 1 << 60) <= self.call_serial:
                # an object the *contract* built as part of the pre-state: a field the code reads and the contract did not
                # provide is a contract that no longer describes the class (a new cached field, a renamed attribute), not an
                # AttributeError of the code
                raise Unsupported(f"the contract's {obj.cls.__name__} object has no field {name!r}: the class under check keeps state the contract does not describe")
            self.raise_(AttributeError, f"{obj.cls.__name__} object has no attribute {name!r}")
        if isinstance(obj, NTVal):
            if name in obj.nty.fields:
                return obj.get(name)
            owner, raw = self.class_attr(obj.cls, name)
            if raw is None:
                self.raise_(AttributeError, name)
            if isinstance(raw, property):
                clo = self.wrap_real(raw.fget, owner)
                if clo is not None:
                    return self.call_closure(clo, [obj], {})
            return self._bind_class_attr(obj, owner, raw, name)
        if isinstance(obj, ExcVal):
            if name == "__cause__":
                return obj.cause
            if name == "args":
                return obj.args
            raise Unsupported(f"exception attribute {name}")
        if is_sym(obj):
            if obj.ty.kind == "opt":
                # attribute access on Optional: None -> AttributeError
                if self.branch(obj.ty.is_none(obj.t), "isnone"):
                    self.raise_(AttributeError, f"'NoneType' object has no attribute {name!r}", tag="none-attr")
                inner = _wrap_field(obj.ty.inner, obj.ty.val(obj.t))
                return self.getattr(inner, name, fr)
            if obj.ty.kind == "nt":
                return self.getattr(NTVal.of_term(obj.ty.cls, obj.t), name, fr)
            return self.models.sym_attr(self, obj, name)
        if obj is None:
            self.raise_(AttributeError, f"'NoneType' object has no attribute {name!r}", tag="none-attr")
        if isinstance(obj, GenResult):
            raise Unsupported(f"attribute {name} of generator")
        # concrete python object
        if isinstance(obj, type):
            owner, raw = self.class_attr(obj, name)
            if raw is not None:
                clo = self.wrap_real(raw, owner)
                if clo is not None:
                    if isinstance(raw, classmethod):
                        return Bound(obj, clo, name)
                    return clo
                if isinstance(raw, (classmethod,)):
                    return getattr(obj, name)
                if isinstance(raw, property):
                    return raw
            return getattr(obj, name)
        if isinstance(obj, types.ModuleType):
            v = getattr(obj, name)
            clo = self.wrap_real(v)
            return clo if clo is not None else v
        m = self.models.concrete_attr(self, obj, name)
        if m is not NotImplemented:
            return m
        try:
            v = getattr(obj, name)
        except AttributeError:
            self.raise_(AttributeError, name)
        if isinstance(v, types.MethodType):
            clo = self.wrap_real(v.__func__, type(obj))
            if clo is not None:
                return Bound(obj, clo, name)      # a method of a repository class on a concrete instance
        if callable(v) and not isinstance(v, type):
            return Bound(obj, None, name)
        return v

    def _bind_class_attr(self, obj, owner, raw, name):
        if isinstance(raw, staticmethod):
            clo = self.wrap_real(raw, owner)
            return clo if clo is not None else raw.__func__
        if isinstance(raw, classmethod):
            clo = self.wrap_real(raw, owner)
            cls = type_of(obj)
            return Bound(cls, clo, name) if clo is not None else getattr(cls, name)
        if isinstance(raw, property):
            clo = self.wrap_real(raw.fget, owner)
            if clo is not None:
                return self.call_closure(clo, [obj], {})
            return self.models.real_property(self, obj, owner, name, raw)
        if isinstance(raw, types.FunctionType):
            clo = self.wrap_real(raw, owner)
            if clo is not None:
                return Bound(obj, clo, name)
            return Bound(obj, None, name)       # stdlib python function -> model by name
        if callable(raw) or type(raw).__name__ in ("method_descriptor", "wrapper_descriptor", "builtin_function_or_method"):
            return Bound(obj, None, name)
        clo = self._descriptor_method(raw, "__get__")
        if clo is not None:
            return self.call_closure(clo, [raw, obj, type_of(obj)], {})
        return raw

    def _descriptor_method(self, raw, dunder):
        """the descriptor protocol for a class attribute whose type is a class of the tree under check and defines `dunder`
        (a hand-written descriptor instead of `property`): its method as a closure; None when the attribute is plain data;
        unsupported when the descriptor type is not repository code"""
        t = type(raw)
        if t in (int, str, float, bool, tuple, list, dict, set, frozenset, type(None), bytes) or isinstance(raw, (type, enum.Enum)):
            return None
        f = None
        for k in t.__mro__:
            if dunder in k.__dict__:
                f = k.__dict__[dunder]
                break
        if f is None or not isinstance(f, types.FunctionType):
            if f is not None and getattr(t, "__module__", "").split(".")[0] == "simfile":
                raise Unsupported(f"descriptor {t.__name__}.{dunder} is not a plain function")
            return None
        clo = self.wrap_real(f, t)
        if clo is None:
            raise Unsupported(f"descriptor type {t.__module__}.{t.__name__} is not repository code")
        return clo

    def delattr(self, obj, name):
        if isinstance(obj, HObj):
            owner, raw = self.class_attr(obj.cls, name)
            if isinstance(raw, property):
                if raw.fdel is None:
                    self.raise_(AttributeError, f"can't delete attribute {name}")
                clo = self.wrap_real(raw.fdel, owner)
                if clo is None:
                    raise Unsupported(f"property deleter {name} is not repo code")
                self.call_closure(clo, [obj], {})
                return
            if raw is not None:
                clo = self._descriptor_method(raw, "__delete__")
                if clo is not None:
                    self.call_closure(clo, [raw, obj], {})
                    return
            if name in obj.fields:
                if self.nofork:
                    raise _WouldFork()
                del obj.fields[name]
                return
            self.raise_(AttributeError, name)
        raise Unsupported(f"delattr on {obj!r}.{name}")

    def setattr(self, obj, name, v):
        if isinstance(obj, HObj):
            owner, raw = self.class_attr(obj.cls, name)
            if raw is not None and not isinstance(raw, property):
                clo = self._descriptor_method(raw, "__set__")
                if clo is not None:
                    self.call_closure(clo, [raw, obj, v], {})
                    return
            if isinstance(raw, property):
                if raw.fset is None:
                    self.raise_(AttributeError, f"can't set attribute {name}")
                clo = self.wrap_real(raw.fset, owner)
                if clo is None:
                    raise Unsupported(f"property setter {name} is not repo code")
                self.call_closure(clo, [obj, v], {})
                return
            self.setfield(obj, name, v)
            return
        if isinstance(obj, ExcVal) and name == "__cause__":
            obj.cause = v
            return
        raise Unsupported(f"setattr on {obj!r}.{name}")

    # -- expressions ---------------------------------------------------------
    def eval(self, e, fr: Frame):
        m = getattr(self, "ev_" + type(e).__name__, None)
        if m is None:
            raise Unsupported(f"expression {type(e).__name__} at {fr.fi.qualname if fr.fi else '?'}:{getattr(e, 'lineno', '?')}")
        return m(e, fr)

    def ev_Constant(self, e, fr):
        return e.value

    def ev_Name(self, e, fr):
        n = e.id
        f = fr
        while f is not None:
            if n in f.locals:
                v = f.locals[n]
                if isinstance(v, Undefined):
                    raise Unsupported(f"read of {n}: {v.why}")
                if isinstance(v, types.FunctionType):
                    clo = self.wrap_real(v)
                    if clo is not None:
                        return clo
                return v
            f = f.parent
        mod = fr.module
        if mod is not None and n in mod.__dict__:
            v = mod.__dict__[n]
            clo = self.wrap_real(v)
            return clo if clo is not None else v
        if hasattr(builtins, n):
            return getattr(builtins, n)
        self.raise_(NameError, n)

    def ev_Attribute(self, e, fr):
        return self.getattr(self.eval(e.value, fr), e.attr, fr)

    def ev_Tuple(self, e, fr):
        return tuple(self._elts(e.elts, fr))

    def ev_List(self, e, fr):
        return list(self._elts(e.elts, fr))

    def ev_Set(self, e, fr):
        return set(self._elts(e.elts, fr))

    def _elts(self, elts, fr):
        out = []
        for x in elts:
            if isinstance(x, ast.Starred):
                v = self.eval(x.value, fr)
                out.append(_Splice(v))
            else:
                out.append(self.eval(x, fr))
        if any(isinstance(o, _Splice) for o in out):
            return self.models.splice(self, out)
        return out

    def ev_Dict(self, e, fr):
        d = {}
        for k, v in zip(e.keys, e.values):
            if k is None:
                d.update(self.eval(v, fr))
            else:
                d[self.eval(k, fr)] = self.eval(v, fr)
        return d

    def ev_Lambda(self, e, fr):
        return LambdaVal(e, fr)

    @staticmethod
    def _scalar(v):
        """values whose merge loses nothing the executor relies on (a list keeps its concrete spine only on separate paths)"""
        if is_sym(v):
            k = v.ty.kind
            return k in ("bool", "int", "str", "num", "enum", "ienum") or (k == "opt" and v.ty.inner.kind in ("bool", "int", "str", "num", "enum", "ienum"))
        return v is None or isinstance(v, (bool, int, str, float))

    def _speculate(self, fn):
        """run fn without forking or writing; _NO_MERGE when that is not possible"""
        self.nofork += 1
        try:
            return fn()
        except (_WouldFork, PyRaise, Unsupported, _NoMerge):
            return _NO_MERGE
        finally:
            self.nofork -= 1

    def ev_IfExp(self, e, fr):
        if _call_free(e) and not self.nofork:
            # both arms are call-free: one merged value instead of two paths (when the arms have one Python type)
            def merged():
                c = self.eval_cond(e.test, fr)
                if isinstance(c, bool):
                    raise _NoMerge()
                a, b = self.eval(e.body, fr), self.eval(e.orelse, fr)
                if not (self._scalar(a) and self._scalar(b)):
                    raise _NoMerge()
                return _merge_values(c, a, b)
            v = self._speculate(merged)
            if v is not _NO_MERGE:
                return v
        if self.branch(self.eval_cond(e.test, fr), "ifexp"):
            return self.eval(e.body, fr)
        return self.eval(e.orelse, fr)

    def eval_cond(self, e, fr):
        """Truth value of a test expression (python bool or BoolRef); merges pure and/or/not without forking."""
        if isinstance(e, ast.BoolOp):
            is_and = isinstance(e.op, ast.And)
            acc = []
            for idx, x in enumerate(e.values):
                if not acc:
                    c = self.eval_cond(x, fr)
                else:
                    # speculative: evaluate without forking or writing; fall back to a real fork
                    self.nofork += 1
                    try:
                        c = self.eval_cond(x, fr)
                    except (_WouldFork, PyRaise):
                        self.nofork -= 1
                        if self.nofork:
                            raise _WouldFork()
                        sofar = z3.And(acc) if is_and else z3.Or(acc)
                        if self.branch(sofar, "and" if is_and else "or") != is_and:
                            return not is_and
                        rest = ast.BoolOp(op=e.op, values=e.values[idx:]) if len(e.values) - idx > 1 else e.values[idx]
                        return self.eval_cond(rest, fr)
                    else:
                        self.nofork -= 1
                if isinstance(c, bool):
                    if c != is_and:
                        # short-circuit value reached under the accumulated guard
                        if not acc:
                            return c
                        return (z3.Or(acc) if not is_and else False) if not is_and else False
                    continue
                c = z3.simplify(c)
                if z3.is_true(c) or z3.is_false(c):
                    cv = z3.is_true(c)
                    if cv != is_and:
                        if not acc:
                            return cv
                        return False if is_and else True
                    continue
                acc.append(c)
            if not acc:
                return is_and
            return z3.And(acc) if is_and else z3.Or(acc)
        if isinstance(e, ast.UnaryOp) and isinstance(e.op, ast.Not):
            c = self.eval_cond(e.operand, fr)
            return (not c) if isinstance(c, bool) else z3.Not(c)
        return self.truthy(self.eval(e, fr))

    def ev_BoolOp(self, e, fr):
        is_and = isinstance(e.op, ast.And)
        if _call_free(e) and not self.nofork:
            # `a and b` is `b if a else a`: merged when every operand is call-free and the operands have one Python type
            def merged():
                vals = []
                for x in e.values:
                    a = self.eval(x, fr)
                    vals.append(a)
                    t = self.truthy(a)
                    if isinstance(t, bool) and t != is_and:
                        break               # a concrete short-circuit: the remaining operands are never evaluated
                if not all(self._scalar(x) for x in vals):
                    raise _NoMerge()
                v = vals[-1]
                for a in reversed(vals[:-1]):
                    t = self.truthy(a)
                    if isinstance(t, bool):
                        v = (v if t else a) if is_and else (a if t else v)
                    else:
                        v = _merge_values(t, v, a) if is_and else _merge_values(t, a, v)
                return v
            v = self._speculate(merged)
            if v is not _NO_MERGE:
                return v
        v = None
        for i, x in enumerate(e.values):
            v = self.eval(x, fr)
            if i == len(e.values) - 1:
                return v
            t = self.test(v, "and" if is_and else "or")
            if is_and and not t:
                return v
            if not is_and and t:
                if is_sym(v) and v.ty.kind == "opt":
                    return _wrap_field(v.ty.inner, v.ty.val(v.t))   # truthy, hence not None
                return v
        return v

    def ev_UnaryOp(self, e, fr):
        v = self.eval(e.operand, fr)
        if isinstance(e.op, ast.Not):
            t = self.truthy(v)
            if isinstance(t, bool):
                return not t
            return concretize(SV(z3.simplify(z3.Not(t)), BOOL))
        if isinstance(e.op, ast.USub):
            if is_sym(v):
                if v.ty.kind in ("int", "ienum", "bool"):
                    return SV(-coerce(v, INT).t, INT)
                if v.ty.kind == "num":
                    return SV(-v.t, v.ty)
            if isinstance(v, (HObj, NTVal)):
                return self.models.unary_dunder(self, v, "__neg__")
            return -v
        if isinstance(e.op, ast.UAdd):
            return v
        raise Unsupported("unary op")

    def ev_BinOp(self, e, fr):
        return self.binop(e.op, self.eval(e.left, fr), self.eval(e.right, fr))

    def binop(self, op, a, b, inplace=False):
        return self.models.binop(self, op, a, b)

    def ev_Compare(self, e, fr):
        left = self.eval(e.left, fr)
        result = None
        for op, rhs in zip(e.ops, e.comparators):
            right = self.eval(rhs, fr)
            r = self.compare(op, left, right)
            if len(e.ops) == 1:
                return r
            if not self.test(r, "cmpchain"):
                return False
            result = r
            left = right
        return True

    def compare(self, op, a, b):
        if isinstance(op, ast.Eq):
            r = self.eq(a, b)
        elif isinstance(op, ast.NotEq):
            r = self.eq(a, b)
            r = (not r) if isinstance(r, bool) else z3.Not(r)
        elif isinstance(op, (ast.Is, ast.IsNot)):
            r = self.models.identity(self, a, b)
            if isinstance(op, ast.IsNot):
                r = (not r) if isinstance(r, bool) else z3.Not(r)
        elif isinstance(op, (ast.In, ast.NotIn)):
            r = self.models.contains(self, b, a)
            if isinstance(op, ast.NotIn):
                r = (not r) if isinstance(r, bool) else z3.Not(r)
        else:
            r = self.models.order(self, op, a, b)
        if isinstance(r, bool):
            return r
        if is_sym(r):
            return concretize(r)
        return concretize(SV(z3.simplify(r), BOOL))

    def ev_Call(self, e, fr):
        # zero-argument super()
        if isinstance(e.func, ast.Name) and e.func.id == "super" and not e.args:
            selfname = fr.fi.node.args.args[0].arg if fr.fi and fr.fi.node.args.args else None
            f = fr
            while f is not None and f.self_cls is None:
                f = f.parent
            if f is None or selfname is None:
                raise Unsupported("super() outside a method")
            return SuperProxy(f.self_cls, fr.locals[selfname])
        fn = self.eval(e.func, fr)
        args = self._elts(e.args, fr)
        kwargs = {}
        for kw in e.keywords:
            if kw.arg is None:
                d = self.eval(kw.value, fr)
                if not isinstance(d, dict):
                    raise Unsupported("** of non-dict")
                kwargs.update(d)
            else:
                kwargs[kw.arg] = self.eval(kw.value, fr)
        return self.call(fn, list(args), kwargs)

    def ev_Subscript(self, e, fr):
        obj = self.eval(e.value, fr)
        if isinstance(e.slice, ast.Slice):
            lo = self.eval(e.slice.lower, fr) if e.slice.lower is not None else None
            hi = self.eval(e.slice.upper, fr) if e.slice.upper is not None else None
            if e.slice.step is not None:
                raise Unsupported("slice step")
            return self.models.getslice(self, obj, lo, hi)
        key = self.eval(e.slice, fr)
        return self.models.getitem(self, obj, key)

    def ev_JoinedStr(self, e, fr):
        parts = []
        for v in e.values:
            if isinstance(v, ast.Constant):
                parts.append(v.value)
            else:
                x = self.eval(v.value, fr)
                if v.conversion == 114:  # !r
                    parts.append(self.models.repr_(self, x))
                else:
                    spec = None
                    if v.format_spec is not None:
                        spec = self.eval(v.format_spec, fr)
                    parts.append(self.models.format_(self, x, spec))
        return self.models.str_concat(self, parts)

    def ev_FormattedValue(self, e, fr):
        return self.models.format_(self, self.eval(e.value, fr), None)

    def ev_Starred(self, e, fr):
        raise Unsupported("starred expression")

    def ev_Yield(self, e, fr):
        v = self.eval(e.value, fr) if e.value is not None else None
        g = self._gen_frame(fr)
        hook = getattr(self.unit, "on_yield", None)
        if hook is not None and g.fi.qualname == getattr(self.unit, "yield_hook_func", None):
            return hook(self, g, v)
        if self.nofork:
            raise _WouldFork()
        if self.writes is not None:
            self.writes.append(("yield", g))
        g.yielded.append(v)
        return None

    def ev_YieldFrom(self, e, fr):
        v = self.eval(e.value, fr)
        g = self._gen_frame(fr)
        if self.nofork:
            raise _WouldFork()
        if self.writes is not None:
            self.writes.append(("yield", g))
        g.yielded.append(_YieldFrom(v))
        return None

    def _gen_frame(self, fr):
        f = fr
        while f is not None and f.yielded is None:
            f = f.parent
        if f is None:
            raise Unsupported("yield outside generator frame")
        return f

    def ev_ListComp(self, e, fr):
        return self.models.comprehension(self, e, fr, "list")

    def ev_GeneratorExp(self, e, fr):
        return self.models.comprehension(self, e, fr, "gen")

    def ev_SetComp(self, e, fr):
        return set(self.models.comprehension(self, e, fr, "list"))

    def ev_NamedExpr(self, e, fr):
        v = self.eval(e.value, fr)
        self.assign(e.target, v, fr)
        return v


class _Splice:
    def __init__(self, v):
        self.v = v


class _YieldFrom:
    def __init__(self, v):
        self.v = v


class GenResult:
    """Eagerly executed generator: items are values or _YieldFrom(sub-iterable)."""

    def __init__(self, items):
        self.items = items

    def __repr__(self):
        return f"<GenResult {len(self.items)} items>"


def type_of(v):
    if isinstance(v, HObj):
        return v.cls
    if isinstance(v, NTVal):
        return v.cls
    if isinstance(v, type):
        return v
    if is_sym(v):
        return sym_pytype(v.ty)
    return type(v)


def sym_pytype(ty):
    import fractions, decimal
    k = ty.kind
    if k == "int":
        return int
    if k == "bool":
        return bool
    if k == "str":
        return str
    if k in ("enum", "ienum", "nt"):
        return ty.cls
    if k == "num":
        if ty.pyty == "Beat":
            from simfile.timing import Beat
            return Beat
        if ty.pyty == "Decimal":
            return decimal.Decimal
        if ty.pyty == "SongTime":
            from simfile.timing.engine import SongTime
            return SongTime
        if ty.pyty == "float":
            return float
        return fractions.Fraction
    if k == "seq":
        return list if ty.pyty == "list" else tuple
    if k == "abs" and ty.pycls is not None:
        return ty.pycls
    raise Unsupported(f"python type of {ty}")


def _symbols(t, acc=None):
    acc = set() if acc is None else acc
    seen = set()
    stack = [t]
    while stack:
        x = stack.pop()
        if x.get_id() in seen:
            continue
        seen.add(x.get_id())
        if z3.is_app(x) and x.decl().kind() == z3.Z3_OP_UNINTERPRETED:
            acc.add(x.decl().name())
        stack.extend(x.children())
    return acc


def _slice(assertions, goal):
    """cone of influence: the assertions that (transitively) share an uninterpreted symbol with the goal"""
    syms = _symbols(goal)
    rest = [(a, _symbols(a)) for a in assertions]
    chosen = []
    changed = True
    while changed:
        changed = False
        keep = []
        for a, sy in rest:
            if sy & syms:
                chosen.append(a)
                syms |= sy
                changed = True
            else:
                keep.append((a, sy))
        rest = keep
    return chosen


def _occurs(a, t):
    seen = set()
    stack = [t]
    while stack:
        x = stack.pop()
        if x.get_id() in seen:
            continue
        seen.add(x.get_id())
        if x.eq(a):
            return True
        stack.extend(x.children())
    return False


def _load(t):
    import copy
    t2 = copy.copy(t)
    t2.ctx = ast.Load()
    return t2


def _walk_own(fn_node):
    """Walk a function body without descending into nested functions/lambdas/classes."""
    stack = list(fn_node.body)
    while stack:
        n = stack.pop()
        yield n
        for c in ast.iter_child_nodes(n):
            if isinstance(c, (ast.FunctionDef, ast.AsyncFunctionDef, ast.Lambda, ast.ClassDef)):
                continue
            stack.append(c)


def _loop_ordinal(fr, node):
    """Ordinal of a loop statement inside its function (source order, own body only)."""
    fi = fr.fi
    if not hasattr(fi, "_loops"):
        loops = [n for n in _walk_own(fi.node) if isinstance(n, (ast.For, ast.While))]
        loops.sort(key=lambda n: (n.lineno, n.col_offset))
        fi._loops = loops
    return fi._loops.index(node)


def _ord(fr, node):
    fi = fr.fi
    if fi is None:
        return "?"
    if not hasattr(fi, "_ifs"):
        ifs = [n for n in ast.walk(fi.node) if isinstance(n, ast.If)]
        ifs.sort(key=lambda n: (n.lineno, n.col_offset))
        fi._ifs = ifs
    try:
        return fi._ifs.index(node)
    except ValueError:
        return "?"


def _jsonable(v):
    import fractions, decimal
    if isinstance(v, (str, int, bool)) or v is None:
        return v
    if isinstance(v, float):
        return v
    if isinstance(v, enum.Enum):
        return f"{type(v).__name__}.{v.name}"
    if isinstance(v, fractions.Fraction):
        return f"{v.numerator}/{v.denominator}" if v.denominator != 1 else str(v.numerator)
    if isinstance(v, decimal.Decimal):
        return str(v)
    if isinstance(v, tuple) and hasattr(v, "_fields"):
        return {"__nt__": type(v).__name__, **{f: _jsonable(x) for f, x in zip(v._fields, v)}}
    if isinstance(v, (list, tuple)):
        return [_jsonable(x) for x in v]
    if isinstance(v, dict):
        return {str(k): _jsonable(x) for k, x in v.items()}
    return str(v)


# ---------------------------------------------------------------------------
# exploration of all paths of a unit


class UnitResult:
    def __init__(self, name):
        self.name = name
        self.obligations = []
        self.paths = 0
        self.aborted = 0
        self.vacuous_paths = 0
        self.covers = set()
        self.errors = []
        self.assumptions = set()
        self.seconds = 0.0
        self.functions = []
        self.notes = []
        self.state_writes = set()


def explore(unit, max_paths=4000):
    """
    unit: object with .name, .functions (qualnames under contract), .run(ex)
    """
    res = UnitResult(unit.name)
    res.functions = list(getattr(unit, "functions", []))
    t0 = time.time()
    stack = [[]]
    while stack:
        prefix = stack.pop()
        ex = Ex(unit, prefix)
        res.paths += 1
        if res.paths > max_paths:
            res.errors.append(f"path budget exceeded ({max_paths})")
            break
        if time.time() - t0 > float(os.environ.get("PYVC_UNIT_SECONDS", "150")):
            res.errors.append(f"time budget of the unit exceeded after {res.paths} paths (the code under contract branches far more than on the pinned tree)")
            break
        try:
            unit.run(ex)
        except PathAbort:
            res.aborted += 1
        except Unsupported as u:
            res.errors.append(f"unsupported: {u} [path {'/'.join(l for _, l in ex.decisions)}]")
        except PyRaise as pr:
            res.errors.append(f"uncaught interpreted exception {pr.exc!r} escaped the unit driver [path {'/'.join(l for _, l in ex.decisions)}]")
        except z3.Z3Exception as ze:
            res.errors.append(f"z3 error: {ze}")
        except RecursionError:
            res.errors.append("recursion error in executor")
        # vacuity: the hypotheses of this path must be satisfiable
        if ex.obligations:
            if timed_check(ex.solver, Ex.BRANCH_TIMEOUT_MS) == z3.unsat:
                res.vacuous_paths += 1
                for ob in ex.obligations:
                    if ob.status == "discharged":
                        ob.vacuous = True
        res.obligations.extend(ex.obligations)
        res.covers |= ex.covers
        res.assumptions |= ex.assumptions_used
        res.notes.extend(ex.notes)
        res.state_writes |= ex.state_writes
        stack.extend(ex.alternatives)
    res.seconds = time.time() - t0
    return res



def native_replay(unit, ob):
    """
    Replay a refuted obligation's counter-model against the REAL code: the unit is run again with its inputs pinned to the
    model and with the function under contract called natively by CPython; the obligation is then decided on the real
    result.  Returns a replay record or None when it does not apply (heap inputs, several calls, no model).
    """
    raw = getattr(ob, "raw_model", None)
    if not raw or ob.pre_call is None:
        return None
    ex = Ex(unit, list(ob.decisions[:ob.pre_call]), pins=dict(raw))
    try:
        unit.run(ex)
    except NativeReplayUnsupported:
        return None
    except PathAbort:
        pass        # the obligations decided before the abort stand
    except (Unsupported, PyRaise, z3.Z3Exception, RecursionError, KeyError, TypeError, AttributeError, ValueError, IndexError):
        return None
    if ex.native_calls != 1 or ex.alternatives and False:
        return None
    same = [o for o in ex.obligations if o.oid == ob.oid]
    if not same:
        return None
    o2 = same[0]
    rargs, rkw = ex.native_args or ([], {})
    return dict(reproduced=o2.status == "refuted", adapter="native (CPython call of the real function on the counter-model, postcondition decided on the real result)",
                input=dict(args=[repr(a) for a in rargs], kwargs={k: repr(v) for k, v in rkw.items()}),
                detail=f"the real function {ex.native_result[0]}s {ex.native_result[1]}; obligation {ob.oid} on that result: {o2.status}")


# ---------------------------------------------------------------------------
# locals by role, not by name: contracts refer to "the first target of loop 1" or "the local the loop carries", so that a
# renamed local does not detach the contract from the code


def _fi_loops(fi):
    if not hasattr(fi, "_loops"):
        loops = [n for n in _walk_own(fi.node) if isinstance(n, (ast.For, ast.While))]
        loops.sort(key=lambda n: (n.lineno, n.col_offset))
        fi._loops = loops
    return fi._loops


def loop_targets(fi, ordn):
    """names bound by the target of the ordn-th loop of the function, in source order (`for l, line in ...` -> ['l', 'line'])"""
    loops = _fi_loops(fi)
    if ordn >= len(loops) or not isinstance(loops[ordn], ast.For):
        raise Unsupported(f"{fi.qualname} has no for-loop #{ordn}: the loop structure of the function changed")
    names = [n for n in ast.walk(loops[ordn].target) if isinstance(n, ast.Name)]
    names.sort(key=lambda n: (n.lineno, n.col_offset))
    return [n.id for n in names]


def loop_carried(fi, ordn):
    """names of plain locals that are assigned inside the ordn-th loop and also before it (loop-carried state other than
    the loop targets), in order of first assignment"""
    loops = _fi_loops(fi)
    if ordn >= len(loops):
        raise Unsupported(f"{fi.qualname} has no loop #{ordn}: the loop structure of the function changed")
    lp = loops[ordn]
    tg = set(loop_targets(fi, ordn)) if isinstance(lp, ast.For) else set()

    def stores(nodes):
        out = []
        for st in nodes:
            for n in ast.walk(st):
                if isinstance(n, ast.Name) and isinstance(n.ctx, ast.Store) and n.id not in out:
                    out.append((n.lineno, n.col_offset, n.id))
        out.sort()
        seen, res = set(), []
        for _, _, nm in out:
            if nm not in seen:
                seen.add(nm)
                res.append(nm)
        return res

    inside = stores(lp.body + lp.orelse)
    before = [nm for nm in stores([s for s in _walk_own(fi.node) if isinstance(s, ast.stmt) and (s.lineno, s.col_offset) < (lp.lineno, lp.col_offset)
                                   and not any(s is x or _contains(x, s) for x in [lp])])]
    return [nm for nm in before if nm in inside and nm not in tg]


def _contains(outer, inner):
    return any(n is inner for n in ast.walk(outer))


def assigned_from(fi, callee, nth=0):
    """name of the nth local (source order) assigned directly from a call to `callee` (`x = callee(...)`, also annotated)"""
    hits = []
    for n in _walk_own(fi.node):
        tgt, val = None, None
        if isinstance(n, ast.Assign) and len(n.targets) == 1 and isinstance(n.targets[0], ast.Name):
            tgt, val = n.targets[0], n.value
        elif isinstance(n, ast.AnnAssign) and isinstance(n.target, ast.Name) and n.value is not None:
            tgt, val = n.target, n.value
        if tgt is None or not isinstance(val, ast.Call):
            continue
        f = val.func
        nm = f.id if isinstance(f, ast.Name) else f.attr if isinstance(f, ast.Attribute) else None
        if nm == callee:
            hits.append((n.lineno, n.col_offset, tgt.id))
    hits.sort()
    if nth >= len(hits):
        raise Unsupported(f"{fi.qualname}: no local #{nth} assigned from {callee}(...): the function changed")
    return hits[nth][2]


def first_assigned(fi, nth=0):
    """name of the nth local assigned by a top-level `x = ...` statement of the function body (source order)"""
    hits = []
    for n in fi.node.body:
        if isinstance(n, ast.Assign) and len(n.targets) == 1 and isinstance(n.targets[0], ast.Name):
            hits.append(n.targets[0].id)
        elif isinstance(n, ast.AnnAssign) and isinstance(n.target, ast.Name) and n.value is not None:
            hits.append(n.target.id)
    if nth >= len(hits):
        raise Unsupported(f"{fi.qualname}: no top-level assignment #{nth}: the function changed")
    return hits[nth]
