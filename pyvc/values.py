"""
Symbolic values and the Python -> SMT sort mapping (DESIGN 2.3).

Concrete Python values stay concrete inside the executor; a value becomes an
`SV` (a z3 term plus a type descriptor `Ty`) as soon as it depends on a symbolic
input.  Every `Ty` knows its z3 sort, how to lift a concrete Python value into
it, how to turn a model value back into a Python value (for replay) and the
domain constraint a fresh symbolic value of that type satisfies.
"""
from __future__ import annotations

import enum
import fractions
import decimal
import typing
import z3

# ---------------------------------------------------------------------------
# type descriptors


class Ty:
    kind = "?"

    def sort(self):
        raise NotImplementedError

    def lift(self, v):
        raise NotImplementedError(f"lift {self} {v!r}")

    def domain(self, t):
        return z3.BoolVal(True)

    def unlift(self, mv, model=None):
        """model value (z3 constant) -> concrete python value"""
        raise NotImplementedError(f"unlift {self}")

    def wrap(self, t):
        return SV(t, self)

    def __repr__(self):
        return self.kind

    def __eq__(self, o):
        return type(self) is type(o) and self.key() == o.key()

    def __hash__(self):
        return hash((type(self).__name__, self.key()))

    def key(self):
        return ()


class TInt(Ty):
    kind = "int"

    def sort(self):
        return z3.IntSort()

    def lift(self, v):
        return z3.IntVal(int(v))

    def unlift(self, mv, model=None):
        return mv.as_long()


class TBool(Ty):
    kind = "bool"

    def sort(self):
        return z3.BoolSort()

    def lift(self, v):
        return z3.BoolVal(bool(v))

    def unlift(self, mv, model=None):
        return z3.is_true(mv)


class TNum(Ty):
    """Fraction / Beat / Decimal / float / SongTime -> Real (A-FLOAT)."""

    kind = "num"

    def __init__(self, pyty="Fraction"):
        self.pyty = pyty

    def key(self):
        return (self.pyty,)

    def sort(self):
        return z3.RealSort()

    def lift(self, v):
        if isinstance(v, float):
            v = fractions.Fraction(v)
        elif isinstance(v, decimal.Decimal):
            v = fractions.Fraction(v)
        f = fractions.Fraction(v)
        return z3.RealVal(f"{f.numerator}/{f.denominator}")

    def unlift(self, mv, model=None):
        if z3.is_int_value(mv):
            f = fractions.Fraction(mv.as_long())
        elif z3.is_rational_value(mv):
            f = fractions.Fraction(mv.numerator_as_long(), mv.denominator_as_long())
        else:  # algebraic: approximate
            f = fractions.Fraction(mv.approx(20).as_fraction())
        return from_fraction(f, self.pyty)

    def __repr__(self):
        return f"num[{self.pyty}]"


def from_fraction(f, pyty):
    if pyty in ("float", "SongTime"):
        return float(f)
    if pyty == "Decimal":
        return decimal.Decimal(f.numerator) / decimal.Decimal(f.denominator)
    if pyty == "Beat":
        from simfile.timing import Beat

        return Beat(f.numerator, f.denominator)
    return f


SEEN_STR = set()


class TStr(Ty):
    kind = "str"

    def sort(self):
        return z3.StringSort()

    def lift(self, v):
        if len(v) <= 48:
            SEEN_STR.add(v)
        return z3.StringVal(v)

    def unlift(self, mv, model=None):
        return mv.as_string() if z3.is_string_value(mv) else str(mv)


_opt_cache = {}


class TOpt(Ty):
    kind = "opt"

    def __init__(self, inner: Ty):
        self.inner = inner
        k = inner
        if k not in _opt_cache:
            d = z3.Datatype(f"Opt_{_sort_name(inner)}")
            d.declare("none")
            d.declare("some", ("val", inner.sort()))
            _opt_cache[k] = d.create()
        self.dt = _opt_cache[k]

    def key(self):
        return (self.inner,)

    def sort(self):
        return self.dt

    def lift(self, v):
        if v is None:
            return self.dt.none
        return self.dt.some(self.inner.lift(v))

    def some(self, t):
        return self.dt.some(t)

    def is_none(self, t):
        return self.dt.is_none(t)

    def val(self, t):
        return self.dt.val(t)

    def domain(self, t):
        return z3.Or(self.dt.is_none(t), self.inner.domain(self.dt.val(t)))

    def unlift(self, mv, model=None):
        if mv.decl().name() == "none":
            return None
        return self.inner.unlift(mv.arg(0), model)

    def __repr__(self):
        return f"opt[{self.inner}]"


_enum_cache = {}


class TEnum(Ty):
    """Non-integer Enum: z3 enumeration sort, members in definition order."""

    kind = "enum"

    def __init__(self, cls):
        self.cls = cls
        if cls not in _enum_cache:
            names = [m.name for m in cls]
            _enum_cache[cls] = z3.EnumSort(f"E_{cls.__name__}", names)
        self.srt, self.consts = _enum_cache[cls]
        self.members = list(cls)

    def key(self):
        return (self.cls,)

    def sort(self):
        return self.srt

    def lift(self, v):
        return self.consts[self.members.index(v)]

    def unlift(self, mv, model=None):
        for m, c in zip(self.members, self.consts):
            if c.eq(mv):
                return m
        raise ValueError(mv)

    def __repr__(self):
        return f"enum[{self.cls.__name__}]"


class TIntEnum(Ty):
    """IntEnum: Int, with the member values read from the working tree."""

    kind = "ienum"

    def __init__(self, cls):
        self.cls = cls

    def key(self):
        return (self.cls,)

    def sort(self):
        return z3.IntSort()

    def lift(self, v):
        return z3.IntVal(int(v))

    def domain(self, t):
        return z3.Or([t == int(m) for m in self.cls])

    def unlift(self, mv, model=None):
        return self.cls(mv.as_long())

    def __repr__(self):
        return f"ienum[{self.cls.__name__}]"


_nt_cache = {}


class TNT(Ty):
    """typing.NamedTuple class -> datatype generated from the real class."""

    kind = "nt"

    def __init__(self, cls):
        self.cls = cls
        if cls not in _nt_cache:
            hints = typing.get_type_hints(cls)
            ftys = [ty_from_hint(hints[f]) for f in cls._fields]
            d = z3.Datatype(f"NT_{cls.__name__}")
            d.declare("mk", *[(f"{cls.__name__}_{f}", ft.sort()) for f, ft in zip(cls._fields, ftys)])
            _nt_cache[cls] = (d.create(), ftys)
        self.dt, self.ftys = _nt_cache[cls]
        self.fields = list(cls._fields)

    def key(self):
        return (self.cls,)

    def sort(self):
        return self.dt

    def acc(self, t, field):
        i = self.fields.index(field)
        return self.dt.accessor(0, i)(t)

    def mk(self, *ts):
        return self.dt.constructor(0)(*ts)

    def lift(self, v):
        return self.mk(*[ft.lift(x) for ft, x in zip(self.ftys, v)])

    def domain(self, t):
        return z3.And([ft.domain(self.acc(t, f)) for f, ft in zip(self.fields, self.ftys)])

    def unlift(self, mv, model=None):
        vals = [ft.unlift(mv.arg(i), model) for i, ft in enumerate(self.ftys)]
        return self.cls(*vals)

    def __repr__(self):
        return f"nt[{self.cls.__name__}]"


_box_cache = {}


class TBox(Ty):
    """
    Element wrapper for sequences whose elements are themselves sequences or
    strings: z3's sequence solver cannot reason about nested sequences
    (`6 <= len(v)` for v: Seq(String) is `unknown`), but is fine with a
    sequence of one-field datatypes.  Transparent to interpreted code.
    """

    kind = "box"

    def __init__(self, inner: Ty):
        self.inner = inner
        k = str(inner.sort())
        if k not in _box_cache:
            d = z3.Datatype(f"Box_{_sort_name(inner)}")
            d.declare("box", ("unbox", inner.sort()))
            _box_cache[k] = d.create()
        self.dt = _box_cache[k]

    def key(self):
        return (self.inner,)

    def sort(self):
        return self.dt

    def box(self, t):
        return self.dt.box(t)

    def unbox(self, t):
        return self.dt.unbox(t)

    def lift(self, v):
        return self.dt.box(self.inner.lift(v))

    def domain(self, t):
        return self.inner.domain(self.dt.unbox(t))

    def unlift(self, mv, model=None):
        return self.inner.unlift(mv.arg(0), model)

    def __repr__(self):
        return f"{self.inner}"


class TSeq(Ty):
    """Immutable sequence value -> z3 Seq(T) (algebraic, quantifier free use)."""

    kind = "seq"

    def __init__(self, inner: Ty, pyty="list"):
        if inner.kind != "box" and isinstance(inner.sort(), z3.SeqSortRef):
            inner = TBox(inner)
        self.inner = inner
        self.pyty = pyty

    def elem(self):
        """the element type as interpreted code sees it"""
        return self.inner.inner if self.inner.kind == "box" else self.inner

    def unit(self, elem_term):
        """Unit sequence of an (unboxed) element term"""
        return z3.Unit(self.inner.box(elem_term) if self.inner.kind == "box" else elem_term)

    def at(self, seq_term, i):
        """(unboxed) element term at index i"""
        e = seq_term[i]
        return self.inner.unbox(e) if self.inner.kind == "box" else e

    def key(self):
        return (self.inner,)

    def sort(self):
        return z3.SeqSort(self.inner.sort())

    def lift(self, v):
        if len(v) == 0:
            return z3.Empty(self.sort())
        us = [z3.Unit(self.inner.lift(x)) for x in v]
        return us[0] if len(us) == 1 else z3.Concat(*us)

    def unlift(self, mv, model=None):
        out = []

        def walk(e):
            n = e.decl().name()
            if n == "seq.unit":
                out.append(self.inner.unlift(e.arg(0), model))
            elif n == "seq.++":
                for c in e.children():
                    walk(c)
            elif n == "seq.empty":
                pass
            elif z3.is_string_value(e):
                out.extend(e.as_string())
            else:
                raise ValueError(f"cannot unlift seq {e}")

        walk(mv)
        return out if self.pyty == "list" else tuple(out)

    def __repr__(self):
        return f"seq[{self.inner}]"


class TAbs(Ty):
    """An abstract (uninterpreted or custom) sort introduced by a theory."""

    kind = "abs"

    def __init__(self, name, sort, pycls=None):
        self.name = name
        self._sort = sort
        self.pycls = pycls

    def key(self):
        return (self.name,)

    def sort(self):
        return self._sort

    def unlift(self, mv, model=None):
        return mv

    def __repr__(self):
        return f"abs[{self.name}]"


def _sort_name(ty):
    return str(ty.sort()).replace(" ", "_").replace("(", "").replace(")", "")


INT = TInt()
BOOL = TBool()
STR = TStr()
FRAC = TNum("Fraction")
BEAT = TNum("Beat")
DEC = TNum("Decimal")
FLOAT = TNum("float")
OSTR = TOpt(STR)
OINT = TOpt(INT)
SEQ_STR_TY = TSeq(STR)


def ty_from_hint(h) -> Ty:
    import fractions as _f, decimal as _d

    origin = typing.get_origin(h)
    if origin is typing.Union:
        args = [a for a in typing.get_args(h) if a is not type(None)]
        if len(args) == 1 and len(typing.get_args(h)) == 2:
            return TOpt(ty_from_hint(args[0]))
        if all(a in (float,) or getattr(a, "__name__", "") == "SongTime" for a in args):
            return FLOAT
        raise NotImplementedError(f"hint {h}")
    if h is int:
        return INT
    if h is bool:
        return BOOL
    if h is str:
        return STR
    if h is float:
        return FLOAT
    if isinstance(h, type):
        if issubclass(h, enum.IntEnum):
            return TIntEnum(h)
        if issubclass(h, enum.Enum):
            return TEnum(h)
        if issubclass(h, tuple) and hasattr(h, "_fields"):
            return TNT(h)
        if issubclass(h, _f.Fraction):
            return TNum(h.__name__ if h.__name__ == "Beat" else "Fraction")
        if issubclass(h, _d.Decimal):
            return DEC
        if issubclass(h, float):
            return TNum("float")
    raise NotImplementedError(f"hint {h!r}")


def ty_of_concrete(v) -> Ty:
    import fractions as _f, decimal as _d

    if isinstance(v, bool):
        return BOOL
    if isinstance(v, enum.IntEnum):
        return TIntEnum(type(v))
    if isinstance(v, enum.Enum):
        return TEnum(type(v))
    if isinstance(v, int):
        return INT
    if isinstance(v, str):
        return STR
    if isinstance(v, _f.Fraction):
        return TNum("Beat" if type(v).__name__ == "Beat" else "Fraction")
    if isinstance(v, _d.Decimal):
        return DEC
    if isinstance(v, float):
        return FLOAT
    if isinstance(v, tuple) and hasattr(v, "_fields"):
        return TNT(type(v))
    raise NotImplementedError(f"no symbolic type for concrete {type(v).__name__} {v!r}")


# ---------------------------------------------------------------------------
# symbolic value


class SV:
    __slots__ = ("t", "ty")

    def __init__(self, t, ty: Ty):
        self.t = t
        self.ty = ty

    def __repr__(self):
        return f"SV<{self.ty}>({self.t})"

    # guard against accidental use as a concrete value
    def __bool__(self):
        raise TypeError(f"symbolic value used as a concrete bool: {self!r}")

    def __iter__(self):
        raise TypeError(f"symbolic value iterated concretely: {self!r}")

    def __eq__(self, o):
        raise TypeError("symbolic value compared concretely")

    def __hash__(self):
        return id(self)


def is_sym(v):
    return isinstance(v, SV)


def term(v, ty: Ty | None = None):
    """z3 term of a value (symbolic or concrete)."""
    if isinstance(v, SV):
        if ty is not None and v.ty != ty:
            return coerce(v, ty).t
        return v.t
    if ty is None:
        ty = ty_of_concrete(v)
    return ty.lift(v)


def coerce(v, ty: Ty) -> SV:
    """Bring a value to type `ty` (int -> num, T -> opt[T], None -> opt)."""
    if isinstance(v, SV):
        if v.ty == ty:
            return v
        if ty.kind == "num" and v.ty.kind == "num":
            return SV(v.t, ty)
        if ty.kind == "num" and v.ty.kind in ("int", "ienum"):
            return SV(z3.ToReal(v.t), ty)
        if ty.kind == "num" and v.ty.kind == "bool":
            return SV(z3.If(v.t, z3.RealVal(1), z3.RealVal(0)), ty)
        if ty.kind == "int" and v.ty.kind == "bool":
            return SV(z3.If(v.t, z3.IntVal(1), z3.IntVal(0)), ty)
        if ty.kind == "int" and v.ty.kind == "ienum":
            return SV(v.t, ty)
        if ty.kind == "ienum" and v.ty.kind == "int":
            return SV(v.t, ty)
        if ty.kind == "opt":
            if v.ty.kind == "opt":
                if v.ty.inner == ty.inner:
                    return v
                raise TypeError(f"coerce {v.ty} -> {ty}")
            return SV(ty.some(coerce(v, ty.inner).t), ty)
        if ty.kind == "seq" and v.ty.kind == "seq" and v.ty.inner == ty.inner:
            return SV(v.t, ty)
        if ty.kind == "box":
            return SV(ty.box(coerce(v, ty.inner).t), ty)
        raise TypeError(f"cannot coerce {v.ty} to {ty}")
    if ty.kind == "opt" and v is not None and not _fits(v, ty.inner):
        raise TypeError(f"cannot lift {v!r} to {ty}")
    return SV(ty.lift(v), ty)


def S_unit(t):
    """Unit of a Seq[str] from a String term"""
    return SEQ_STR_TY.unit(t)


def S_at(seq_term, i):
    """String term at index i of a Seq[str] term"""
    return SEQ_STR_TY.at(seq_term, i)


def _fits(v, ty):
    try:
        ty.lift(v)
        return True
    except Exception:
        return False


def sv(v) -> SV:
    return v if isinstance(v, SV) else SV(term(v), ty_of_concrete(v))


_fresh_n = [0]


def fresh(ty: Ty, hint="v") -> SV:
    _fresh_n[0] += 1
    return SV(z3.Const(f"{hint}!{_fresh_n[0]}", ty.sort()), ty)


def fresh_term(sort, hint="k"):
    _fresh_n[0] += 1
    return z3.Const(f"{hint}!{_fresh_n[0]}", sort)


def strval(c: str):
    """String literal term, registered so that closed facts about it are instantiated."""
    return STR.lift(c)
