"""
Trusted models of Python builtins, str/number methods and the standard library
pieces the repository calls (DESIGN 5: T-STD, S1-S9).  Everything in this file
is *assumed* semantics; each string function that is left uninterpreted is
registered in UF with its CPython implementation so that counter-models can be
re-evaluated on real strings (replay) and the axioms can be probed.

Theories for larger dependencies register themselves through the hook tables
at the bottom (ordered maps, files, msdparser, file systems).
"""
from __future__ import annotations

import ast
import builtins
import decimal
import enum
import fractions
import functools
import io
import numbers
import operator
import types
import typing
import z3

from .values import (
    SV, Ty, INT, BOOL, STR, OSTR, OINT, TNum, TOpt, TSeq, TNT, TEnum, TIntEnum, TAbs,
    is_sym, term, coerce, sv, fresh, fresh_term, ty_of_concrete, FRAC, BEAT, FLOAT, DEC,
)
from . import execu as X
from .execu import (
    HObj, NTVal, Closure, LambdaVal, Bound, SuperProxy, SymIter, GenResult, ExcVal,
    Unsupported, PyRaise, PathAbort, concretize, type_of, _Splice, _YieldFrom, _wrap_field,
)

# ---------------------------------------------------------------------------
# uninterpreted string functions (S-axioms) with their CPython meaning

SEQ_STR = TSeq(STR)
UF = {}


def _uf(name, pyimpl, *sorts):
    f = z3.Function(name, *sorts)
    UF[name] = (f, pyimpl)
    return f


str_upper = _uf("str_upper", lambda s: s.upper(), z3.StringSort(), z3.StringSort())
str_lower = _uf("str_lower", lambda s: s.lower(), z3.StringSort(), z3.StringSort())
str_strip = _uf("str_strip", lambda s: s.strip(), z3.StringSort(), z3.StringSort())
str_split = _uf("str_split", lambda s, sep: s.split(sep), z3.StringSort(), z3.StringSort(), SEQ_STR.sort())
str_join = _uf("str_join", lambda sep, xs: sep.join(xs), z3.StringSort(), SEQ_STR.sort(), z3.StringSort())
str_splitlines = _uf("str_splitlines", lambda s: s.splitlines(), z3.StringSort(), SEQ_STR.sort())
str_isspace = _uf("str_isspace", lambda s: s.isspace(), z3.StringSort(), z3.BoolSort())
str_of_int = _uf("str_of_int", lambda i: str(i), z3.IntSort(), z3.StringSort())


def string_axioms(ex, *terms):
    """Instances of the S-axioms for the given string terms (assumed)."""
    for t in terms:
        ex.assume(str_upper(str_upper(t)) == str_upper(t), "S4 upper idempotent")
        ex.assume(str_strip(str_strip(t)) == str_strip(t), "S3 strip idempotent")


def upper(v):
    if is_sym(v):
        return SV(str_upper(v.t), STR)
    return v.upper()


def lower(v):
    if is_sym(v):
        return SV(str_lower(v.t), STR)
    return v.lower()


# ---------------------------------------------------------------------------
# hook tables filled by theory modules

ALWAYS_INSTANTIATE = []  # generators c -> [closed facts about the string literal c]
TRUTHY_HOOKS = []       # f(ex, v) -> bool|BoolRef|None
EQ_HOOKS = []           # f(ex, a, b) -> bool|BoolRef|None
METHOD_HOOKS = []       # f(ex, recv, name, args, kwargs) -> value | NotImplemented
REAL_CALL = {}          # real callable -> f(ex, args, kwargs)
CLASS_NEW = {}          # real class -> f(ex, cls, args, kwargs) creating the object
GETITEM_HOOKS = []
SETITEM_HOOKS = []
DELITEM_HOOKS = []
CONTAINS_HOOKS = []
ITER_HOOKS = []
ATTR_HOOKS = []
WITH_HOOKS = []         # (enter(ex, cm) -> value|NotImplemented, exit(ex, cm, exc))
STR_HOOKS = []          # f(ex, v) -> value|NotImplemented  for str(v)
LEN_HOOKS = []


def truthy_of(ex, v):
    for h in TRUTHY_HOOKS:
        r = h(ex, v)
        if r is not None:
            return r
    if isinstance(v, HObj):
        owner, raw = ex.class_attr(v.cls, "__len__")
        if raw is not None:
            n = call_method(ex, v, "__len__", [], {})
            if is_sym(n):
                return n.t != 0
            return n != 0
    return None


def eq_of(ex, a, b):
    for h in EQ_HOOKS:
        r = h(ex, a, b)
        if r is not None:
            return r
    x = a if isinstance(a, HObj) else b
    y = b if x is a else a
    owner, raw = ex.class_attr(x.cls, "__eq__")
    clo = ex.wrap_real(raw, owner) if raw is not None else None
    if clo is not None:
        r = ex.call_closure(clo, [x, y], {})
        if is_sym(r):
            return r.t
        return r
    return None


# ---------------------------------------------------------------------------
# helpers


def all_concrete(vals):
    for v in vals:
        if isinstance(v, (SV, HObj, NTVal, Closure, LambdaVal, Bound, SymIter, GenResult, ExcVal, SuperProxy)):
            return False
        if type(v).__module__.startswith("pyvc"):
            return False        # interpreter-level objects (iterators, parameters, ...) are never concrete python values
        if isinstance(v, (list, tuple, set, frozenset)):
            if not all_concrete(v):
                return False
        if isinstance(v, dict):
            if not all_concrete(list(v.values())) or not all_concrete(list(v.keys())):
                return False
    return True


def as_list(ex, v):
    """A concrete-spine python list of the elements of an iterable value."""
    if isinstance(v, GenResult):
        out = []
        for it in v.items:
            if isinstance(it, _YieldFrom):
                out.extend(as_list(ex, it.v))
            else:
                out.append(it)
        return out
    if isinstance(v, (list, tuple)):
        return list(v)
    if isinstance(v, (set, frozenset, range, dict)):
        return list(v)
    if isinstance(v, str):
        return list(v)
    if isinstance(v, NTVal):
        return list(v.vals)
    if isinstance(v, (types.GeneratorType, map, filter, zip, enumerate)) or type(v).__name__ in ("dict_keys", "dict_values", "dict_items", "list_iterator", "tuple_iterator", "odict_items", "odict_keys", "odict_values"):
        return list(v)
    it = iterable(ex, v)
    if isinstance(it, SymIter):
        n = z3.simplify(it.length)
        if z3.is_int_value(n):
            return [it.at(ex, z3.IntVal(i)) for i in range(n.as_long())]
        raise Unsupported(f"symbolic-length iterable {it.label} used where a concrete spine is needed")
    return list(it)


def iterable(ex, v):
    """-> python iterable with concrete spine, or SymIter."""
    if isinstance(v, SymIter):
        return v
    if isinstance(v, GenResult):
        return as_list(ex, v)
    if isinstance(v, (list, tuple, set, frozenset, range, dict)):
        return v
    if isinstance(v, str):
        return list(v)
    if isinstance(v, NTVal):
        return list(v.vals)
    for h in ITER_HOOKS:
        r = h(ex, v)
        if r is not NotImplemented:
            return r
    if is_sym(v) and v.ty.kind == "opt":
        if ex.branch(v.ty.is_none(v.t), "isnone"):
            ex.raise_(TypeError, "'NoneType' object is not iterable", tag="none-iter")
        return iterable(ex, _wrap_field(v.ty.inner, v.ty.val(v.t)))
    if is_sym(v):
        if v.ty.kind == "seq":
            n = z3.simplify(z3.Length(v.t))
            inner = v.ty.inner
            if z3.is_int_value(n):
                return [_wrap_field(inner, v.t[i]) for i in range(n.as_long())]
            return SymIter(z3.Length(v.t), lambda ex_, i, t=v.t, inner=inner: _wrap_field(inner, t[i]),
                           label="seq", facts=lambda ex_, i, t=v.t, inner=inner: [inner.domain(t[i])])
        if v.ty.kind == "str":
            n = z3.simplify(z3.Length(v.t))
            if z3.is_int_value(n):
                return [concretize(SV(z3.simplify(z3.SubString(v.t, i, 1)), STR)) for i in range(n.as_long())]
            return SymIter(z3.Length(v.t), lambda ex_, i, t=v.t: SV(z3.SubString(t, i, 1), STR), label="str")
    if isinstance(v, HObj):
        owner, raw = ex.class_attr(v.cls, "__iter__")
        clo = ex.wrap_real(raw, owner) if raw is not None else None
        if clo is not None:
            return iterable(ex, ex.call_closure(clo, [v], {}))
    try:
        return iter(v) and v
    except TypeError:
        raise Unsupported(f"iteration over {v!r}")


def splice(ex, items):
    out = []
    for it in items:
        if isinstance(it, _Splice):
            v = it.v
            if is_sym(v) and v.ty.kind == "seq":
                n = z3.simplify(z3.Length(v.t))
                if not z3.is_int_value(n):
                    out.append(it)  # symbolic splice, resolved by the consumer
                    continue
            out.extend(as_list(ex, v))
        else:
            out.append(it)
    return out


def unpack(ex, v, n, starred):
    if isinstance(v, NTVal):
        items = list(v.vals)
    elif isinstance(v, (tuple, list)):
        items = list(v)
    elif is_sym(v) and v.ty.kind == "seq":
        ln = z3.Length(v.t)
        if not ex.branch(ln == n, "unpack-len"):
            ex.raise_(ValueError, "not enough/too many values to unpack", tag="unpack")
        items = [_wrap_field(v.ty.inner, v.t[i]) for i in range(n)]
    else:
        items = as_list(ex, v)
    if len(items) != n and not starred:
        ex.raise_(ValueError, f"expected {n} values to unpack, got {len(items)}", tag="unpack")
    return items


# ---------------------------------------------------------------------------
# identity, containment, ordering


def identity(ex, a, b):
    if a is None or b is None:
        o = b if a is None else a
        if o is None:
            return True
        if is_sym(o):
            if o.ty.kind == "opt":
                return o.ty.is_none(o.t)
            return False
        return False
    if isinstance(a, HObj) or isinstance(b, HObj):
        return a is b
    sa = is_sym(a) or isinstance(a, str)
    sb = is_sym(b) or isinstance(b, str)
    if sa and sb:
        ka = a.ty.kind if is_sym(a) else "str"
        kb = b.ty.kind if is_sym(b) else "str"
        inner_a = a.ty.inner.kind if ka == "opt" else ka
        inner_b = b.ty.inner.kind if kb == "opt" else kb
        if inner_a == "str" and inner_b == "str":
            # Object identity of strings is not determined by their values
            # (interning): any answer consistent with `a is b -> a == b`; None is a singleton.
            same = fresh_term(z3.BoolSort(), "is")
            e = ex.eq(a, b)
            ex.assume(z3.Implies(same, ex._z(e)), "str identity: a is b -> a == b (nothing more)")
            ex.notes.append("string identity test modelled as nondeterministic")
            an = a.ty.is_none(a.t) if ka == "opt" else z3.BoolVal(False)
            bn = b.ty.is_none(b.t) if kb == "opt" else z3.BoolVal(False)
            return z3.If(z3.And(an, bn), z3.BoolVal(True), z3.If(z3.Or(an, bn), z3.BoolVal(False), same))
        if inner_a in ("enum", "ienum", "bool") and inner_a == inner_b:
            return ex.eq(a, b)
    if is_sym(a) or is_sym(b):
        s = a if is_sym(a) else b
        o = b if s is a else a
        if s.ty.kind in ("enum", "ienum", "bool") or (s.ty.kind == "opt" and s.ty.inner.kind in ("enum", "ienum", "bool")):
            return ex.eq(a, b)
        if isinstance(o, type):
            return False
        raise Unsupported(f"identity test on {a!r} / {b!r}")
    if isinstance(a, (int, fractions.Fraction, decimal.Decimal, float)) and not isinstance(a, (bool, enum.Enum)):
        if isinstance(b, type(a)) and a == b and a is not b:
            raise Unsupported("identity of equal numbers")
    return a is b


def contains(ex, container, item):
    for h in CONTAINS_HOOKS:
        r = h(ex, container, item)
        if r is not NotImplemented:
            return r
    if isinstance(container, GenResult):
        container = as_list(ex, container)
    if isinstance(container, (tuple, list, set, frozenset)) or type(container).__name__ in ("dict_keys", "odict_keys", "dict_values", "odict_values"):
        cs = []
        for c in container:
            e = ex.eq(item, c)
            if e is True:
                return True
            if e is False:
                continue
            cs.append(e)
        return z3.Or(cs) if cs else False
    if isinstance(container, dict):
        return contains(ex, tuple(container.keys()), item)
    if isinstance(container, str) or (is_sym(container) and container.ty.kind == "str"):
        if not (isinstance(item, str) or (is_sym(item) and item.ty.kind == "str")):
            ex.raise_(TypeError, "'in <string>' requires string as left operand")
        if isinstance(container, str) and isinstance(item, str):
            return item in container
        return z3.Contains(term(container, STR), term(item, STR))
    if is_sym(container) and container.ty.kind == "seq":
        return z3.Contains(container.t, container.ty.unit(term(item, container.ty.elem())))
    if is_sym(container) and container.ty.kind == "opt":
        if ex.branch(container.ty.is_none(container.t), "isnone"):
            ex.raise_(TypeError, "argument of type 'NoneType' is not iterable", tag="none-in")
        return contains(ex, _wrap_field(container.ty.inner, container.ty.val(container.t)), item)
    if container is None:
        ex.raise_(TypeError, "argument of type 'NoneType' is not iterable", tag="none-in")
    if isinstance(container, HObj):
        owner, raw = ex.class_attr(container.cls, "__contains__")
        clo = ex.wrap_real(raw, owner) if raw is not None else None
        if clo is not None:
            return ex.truthy(ex.call_closure(clo, [container, item], {}))
    if isinstance(container, SymIter):
        raise Unsupported("membership in symbolic iterable")
    if all_concrete([container, item]):
        return item in container
    raise Unsupported(f"'in' on {container!r}")


_CMP = {ast.Lt: operator.lt, ast.LtE: operator.le, ast.Gt: operator.gt, ast.GtE: operator.ge}
_DUNDER = {ast.Lt: "__lt__", ast.LtE: "__le__", ast.Gt: "__gt__", ast.GtE: "__ge__"}
_REFL = {ast.Lt: "__gt__", ast.LtE: "__ge__", ast.Gt: "__lt__", ast.GtE: "__le__"}


def order(ex, op, a, b):
    top = type(op)
    ka, kb = ex.num_kind(a), ex.num_kind(b)
    if ka and kb:
        if not is_sym(a) and not is_sym(b):
            return _CMP[top](a, b)
        if "num" in (ka, kb):
            x, y = coerce(sv(a), FRAC).t, coerce(sv(b), FRAC).t
        else:
            x, y = coerce(sv(a), INT).t, coerce(sv(b), INT).t
        return _CMP[top](x, y)
    if isinstance(a, NTVal) or (isinstance(a, tuple) and isinstance(b, NTVal)):
        if isinstance(a, NTVal):
            owner, raw = ex.class_attr(a.cls, _DUNDER[top])
            return _rich_compare(ex, owner, raw, top, a, b)
    if isinstance(a, (tuple, list)) and isinstance(b, (tuple, list, NTVal)):
        return lex_compare(ex, top, list(a), as_list(ex, b))
    if isinstance(a, str) or isinstance(b, str) or (is_sym(a) and a.ty.kind == "str"):
        if isinstance(a, str) and isinstance(b, str):
            return _CMP[top](a, b)
        x, y = term(a, STR), term(b, STR)
        return {ast.Lt: x < y, ast.LtE: x <= y, ast.Gt: y < x, ast.GtE: y <= x}[top]
    if all_concrete([a, b]):
        return _CMP[top](a, b)
    if is_sym(a) and a.ty.kind == "opt" or is_sym(b) and getattr(b.ty, "kind", "") == "opt":
        # comparing Optional: None is not orderable
        s = a if (is_sym(a) and a.ty.kind == "opt") else b
        if ex.branch(s.ty.is_none(s.t), "isnone"):
            ex.raise_(TypeError, "'<' not supported with NoneType")
        inner = _wrap_field(s.ty.inner, s.ty.val(s.t))
        return order(ex, op, inner if s is a else a, inner if s is b else b)
    raise Unsupported(f"ordering {a!r} {top.__name__} {b!r}")


def _rich_compare(ex, owner, raw, top, a, b):
    clo = ex.wrap_real(raw, owner) if raw is not None else None
    if clo is not None:
        r = ex.call_closure(clo, [a, b], {})
        return r.t if is_sym(r) else r
    if owner is tuple:
        return lex_compare(ex, top, list(a.vals), as_list(ex, b))
    if getattr(raw, "__module__", "") == "functools":
        # functools.total_ordering helper, e.g. _gt_from_lt
        nm = raw.__name__
        base = {"lt": ast.Lt, "le": ast.LtE, "gt": ast.Gt, "ge": ast.GtE}[nm.split("_from_")[1]]
        bo, braw = ex.class_attr(a.cls, _DUNDER[base])
        r0 = _rich_compare(ex, bo, braw, base, a, b)
        r0 = ex._z(r0)
        e = ex._z(ex.eq(a, b))
        ex.assumptions_used.add("functools.total_ordering helper semantics")
        tbl = {
            "_gt_from_lt": z3.And(z3.Not(r0), z3.Not(e)), "_le_from_lt": z3.Or(r0, e), "_ge_from_lt": z3.Not(r0),
            "_ge_from_le": z3.Or(z3.Not(r0), e), "_lt_from_le": z3.And(r0, z3.Not(e)), "_gt_from_le": z3.Not(r0),
            "_lt_from_gt": z3.And(z3.Not(r0), z3.Not(e)), "_ge_from_gt": z3.Or(r0, e), "_le_from_gt": z3.Not(r0),
            "_le_from_ge": z3.Or(z3.Not(r0), e), "_gt_from_ge": z3.And(r0, z3.Not(e)), "_lt_from_ge": z3.Not(r0),
        }
        return tbl[nm]
    raise Unsupported(f"rich comparison {raw!r}")


def lex_compare(ex, top, xs, ys):
    """tuple.__lt__ etc.: lexicographic; raises TypeError when it reaches non-orderable items."""
    ex.assumptions_used.add("tuple comparison is lexicographic over all fields (T-STD)")
    strict = top in (ast.Lt, ast.Gt)
    n = min(len(xs), len(ys))
    for i in range(n):
        e = ex.eq(xs[i], ys[i])
        if e is True:
            continue
        if e is False or not ex.branch(e, f"lex{i}"):
            # first differing position decides
            if ex.num_kind(xs[i]) is None and not isinstance(xs[i], (NTVal, tuple, str)) and not (is_sym(xs[i]) and xs[i].ty.kind in ("str",)):
                ex.raise_(TypeError, "'<' not supported between these instances", tag="tuple-order-unorderable")
            r = order(ex, top(), xs[i], ys[i])
            return r
    # all compared equal
    if len(xs) == len(ys):
        return not strict
    return _CMP[top](len(xs), len(ys))


# ---------------------------------------------------------------------------
# arithmetic


def _pyfloor_div(a, b):
    """floor division on Int terms (python semantics)."""
    q = a / b  # z3 int div: floor for b>0, ceil for b<0 (euclidean)
    return z3.If(b > 0, q, z3.If(a % b == 0, q, q - 0) if False else -((-a) / (-b)) if False else z3.If(b > 0, q, z3.If((a % b) == 0, q, q - 1)))


def int_floordiv(a, b):
    # Euclidean div: a = b*q + r, 0 <= r < |b|.  Python floor: q_f = q if b>0 or r==0 else q-1... (b<0: q_e = ceil(a/b))
    q = a / b
    r = a % b
    return z3.If(z3.Or(b > 0, r == 0), q, q - 1)


def int_mod(a, b):
    return a - b * int_floordiv(a, b)


def real_floor(x):
    return z3.ToInt(x)


def real_trunc(x):
    return z3.If(x >= 0, z3.ToInt(x), -z3.ToInt(-x))


def real_round_half_even(x):
    f = z3.ToInt(x)
    d = x - z3.ToReal(f)
    half = z3.RealVal("1/2")
    return z3.If(d < half, f, z3.If(d > half, f + 1, z3.If(f % 2 == 0, f, f + 1)))


_OPNAME = {
    ast.Add: "add", ast.Sub: "sub", ast.Mult: "mul", ast.Div: "truediv", ast.FloorDiv: "floordiv",
    ast.Mod: "mod", ast.Pow: "pow",
}


def num_result_pyty(a, b):
    """python result type name for Fraction/Decimal/float mixes (no Beat here)."""
    def p(v):
        if is_sym(v):
            return v.ty.pyty if v.ty.kind == "num" else "int"
        if isinstance(v, float):
            return "float"
        if isinstance(v, decimal.Decimal):
            return "Decimal"
        if isinstance(v, fractions.Fraction):
            return "Fraction"
        return "int"
    pa, pb = p(a), p(b)
    if "float" in (pa, pb) or "SongTime" in (pa, pb):
        return "float"
    if "Decimal" in (pa, pb):
        return "Decimal"
    if "Fraction" in (pa, pb) or "Beat" in (pa, pb):
        return "Fraction"
    return "int"


def plain_arith(ex, opname, a, b):
    ka, kb = ex.num_kind(a), ex.num_kind(b)
    rty = num_result_pyty(a, b)
    if rty == "int" and opname != "truediv":
        x, y = coerce(sv(a), INT).t, coerce(sv(b), INT).t
        if opname == "add":
            return SV(x + y, INT)
        if opname == "sub":
            return SV(x - y, INT)
        if opname == "mul":
            return SV(x * y, INT)
        if opname in ("floordiv", "mod"):
            if not ex.branch(y != 0, "div0"):
                ex.raise_(ZeroDivisionError, "integer division or modulo by zero", tag="div0")
            return SV(int_floordiv(x, y) if opname == "floordiv" else int_mod(x, y), INT)
        if opname == "pow":
            raise Unsupported("symbolic pow")
    x, y = coerce(sv(a), FRAC).t, coerce(sv(b), FRAC).t
    if rty == "int":
        rty = "float"  # int / int
    RT = TNum(rty)
    if opname == "add":
        return SV(x + y, RT)
    if opname == "sub":
        return SV(x - y, RT)
    if opname == "mul":
        return SV(x * y, RT)
    if opname in ("truediv", "floordiv", "mod"):
        if not ex.branch(y != 0, "div0"):
            ex.raise_(ZeroDivisionError, "division by zero", tag="div0")
        if opname == "truediv":
            return SV(x / y, RT)
        q = z3.ToInt(x / y)
        if opname == "floordiv":
            if rty in ("Fraction",):
                return SV(q, INT)
            return SV(z3.ToReal(q), RT)
        return SV(x - y * z3.ToReal(q), RT)
    raise Unsupported(f"arith {opname}")


def binop(ex, op, a, b):
    top = type(op)
    if top is ast.BitOr and isinstance(a, type):
        return typing.Union[a, b]
    # user-defined operator overloads (repo code) first
    name = _OPNAME.get(top)
    if name:
        ta, tb = _optype(a), _optype(b)
        if ta is not None or tb is not None:
            r = _dispatch_dunder(ex, name, a, b, ta, tb)
            if r is not NotImplemented:
                return r
    ka, kb = ex.num_kind(a), ex.num_kind(b)
    if ka and kb and (is_sym(a) or is_sym(b)) and name:
        return plain_arith(ex, name, a, b)
    if top is ast.Add:
        sa = isinstance(a, str) or (is_sym(a) and a.ty.kind == "str")
        sb = isinstance(b, str) or (is_sym(b) and b.ty.kind == "str")
        if sa and sb:
            return str_concat(ex, [a, b])
        if is_sym(a) and a.ty.kind == "seq" or is_sym(b) and b.ty.kind == "seq":
            s = a if is_sym(a) and a.ty.kind == "seq" else b
            return SV(z3.Concat(term(a, s.ty), term(b, s.ty)), s.ty)
        if isinstance(a, (list, tuple)) and isinstance(b, (list, tuple)) and type(a) is type(b):
            return a + b
    if top is ast.Mult:
        if isinstance(a, list) and (isinstance(b, int) or is_sym(b)):
            if is_sym(b):
                for h in METHOD_HOOKS:
                    r = h(ex, a, "__mul__", [b], {})
                    if r is not NotImplemented:
                        return r
                raise Unsupported("list * symbolic int")
            return a * b
    if top is ast.Mod and isinstance(a, str):
        if all_concrete([b]):
            return a % b
        # "%s(%s)" % (...) only appears in __repr__ (dropped)
        raise Unsupported("% formatting with symbolic operands")
    if all_concrete([a, b]):
        fn = {ast.Add: operator.add, ast.Sub: operator.sub, ast.Mult: operator.mul, ast.Div: operator.truediv,
              ast.FloorDiv: operator.floordiv, ast.Mod: operator.mod, ast.Pow: operator.pow,
              ast.BitOr: operator.or_, ast.BitAnd: operator.and_}.get(top)
        if fn is None:
            raise Unsupported(f"binary operator {top.__name__}")
        try:
            return fn(a, b)
        except ZeroDivisionError:
            ex.raise_(ZeroDivisionError, "division by zero", tag="div0")
    raise Unsupported(f"binop {top.__name__} on {a!r}, {b!r}")


def _optype(v):
    """The python class of v when it may carry repo-defined operator overloads."""
    if is_sym(v) and v.ty.kind == "num" and v.ty.pyty == "Beat":
        return X.sym_pytype(v.ty)
    if isinstance(v, fractions.Fraction) and type(v).__name__ == "Beat":
        return type(v)
    if isinstance(v, (HObj, NTVal)):
        return v.cls
    return None


def _dispatch_dunder(ex, name, a, b, ta, tb):
    fwd, rev = f"__{name}__", f"__r{name}__"
    tried_rev = False
    if tb is not None and ta is not tb and (ta is None or issubclass(tb, ta if ta else object)):
        owner, raw = ex.class_attr(tb, rev)
        clo = ex.wrap_real(raw, owner) if raw is not None else None
        if clo is not None and (ta is None or (ta is not None and issubclass(tb, ta) and tb is not ta)):
            if ta is not None or ex.num_kind(a):
                tried_rev = True
                return ex.call_closure(clo, [b, a], {})
    if ta is not None:
        owner, raw = ex.class_attr(ta, fwd)
        clo = ex.wrap_real(raw, owner) if raw is not None else None
        if clo is not None:
            return ex.call_closure(clo, [a, b], {})
    if tb is not None and not tried_rev:
        owner, raw = ex.class_attr(tb, rev)
        clo = ex.wrap_real(raw, owner) if raw is not None else None
        if clo is not None:
            return ex.call_closure(clo, [b, a], {})
    return NotImplemented


def unary_dunder(ex, v, name):
    owner, raw = ex.class_attr(type_of(v), name)
    clo = ex.wrap_real(raw, owner) if raw is not None else None
    if clo is not None:
        return ex.call_closure(clo, [v], {})
    raise Unsupported(f"{name} on {v!r}")


# ---------------------------------------------------------------------------
# strings


def to_str(ex, v):
    """python str(v)"""
    if isinstance(v, str):
        return v
    if v is None:
        return "None"
    for h in STR_HOOKS:
        r = h(ex, v)
        if r is not NotImplemented:
            return r
    if is_sym(v):
        k = v.ty.kind
        if k == "str":
            return v
        if k == "int":
            return SV(str_of_int(v.t), STR)
        if k == "opt":
            if ex.branch(v.ty.is_none(v.t), "isnone"):
                return "None"
            return to_str(ex, _wrap_field(v.ty.inner, v.ty.val(v.t)))
        if k in ("enum", "num", "nt", "ienum"):
            cls = X.sym_pytype(v.ty)
            owner, raw = ex.class_attr(cls, "__str__")
            clo = ex.wrap_real(raw, owner) if raw is not None else None
            if clo is not None:
                return ex.call_closure(clo, [v], {})
        raise Unsupported(f"str() of {v.ty}")
    if isinstance(v, (HObj, NTVal)):
        owner, raw = ex.class_attr(v.cls, "__str__")
        clo = ex.wrap_real(raw, owner) if raw is not None else None
        if clo is not None:
            return ex.call_closure(clo, [v], {})
        raise Unsupported(f"str() of {v!r}")
    if isinstance(v, ExcVal):
        return "<exception text>"
    if all_concrete([v]):
        return str(v)
    raise Unsupported(f"str() of {v!r}")


py_repr = z3.Function("py_repr", z3.StringSort(), z3.StringSort())
UF["py_repr"] = (py_repr, repr)


def repr_(ex, v):
    if all_concrete([v]):
        return repr(v)
    if is_sym(v) and v.ty.kind == "str":
        return SV(py_repr(v.t), STR)
    if is_sym(v) and v.ty.kind == "opt" and v.ty.inner.kind == "str":
        return SV(z3.If(v.ty.is_none(v.t), z3.StringVal("None"), py_repr(v.ty.val(v.t))), STR)
    # other repr texts only appear in exception messages, which no property observes
    return SV(fresh_term(z3.StringSort(), "repr"), STR)


FORMAT_HOOKS = []
JOIN_HOOKS = []


def format_(ex, v, spec):
    if spec in (None, ""):
        return to_str(ex, v)
    for h in FORMAT_HOOKS:
        r = h(ex, v, spec)
        if r is not NotImplemented:
            return r
    if all_concrete([v, spec]):
        return format(v, spec)
    raise Unsupported(f"format spec {spec!r} on symbolic value")


def str_concat(ex, parts):
    out = []
    for p in parts:
        if isinstance(p, str):
            if p == "":
                continue
            if out and isinstance(out[-1], str):
                out[-1] = out[-1] + p
            else:
                out.append(p)
        elif is_sym(p) and p.ty.kind == "str":
            out.append(p)
        else:
            raise Unsupported(f"concat of non-string {p!r}")
    if not out:
        return ""
    if len(out) == 1:
        return out[0]
    return SV(z3.Concat(*[term(o, STR) for o in out]), STR)


def _strsv(v):
    return isinstance(v, str) or (is_sym(v) and v.ty.kind == "str")


def const_instances(ex, f, pyf):
    ex.used_uf[f.name()] = (f, pyf)


def str_method(ex, s, name, args, kwargs):
    t = term(s, STR)
    if name == "upper":
        const_instances(ex, str_upper, str.upper)
        ex.assume(str_upper(str_upper(t)) == str_upper(t), "S4 upper idempotent")
        return SV(str_upper(t), STR)
    if name == "lower":
        const_instances(ex, str_lower, str.lower)
        return SV(str_lower(t), STR)
    if name == "strip" and not args:
        const_instances(ex, str_strip, str.strip)
        ex.assume(str_strip(str_strip(t)) == str_strip(t), "S3 strip idempotent")
        return SV(str_strip(t), STR)
    if name == "split" and len(args) == 1:
        r = SV(str_split(t, term(args[0], STR)), SEQ_STR)
        ex.assume(z3.Length(r.t) >= 1, "S: split(sep) returns at least one piece")
        return r
    if name == "join" and len(args) == 1:
        xs = args[0]
        for h in JOIN_HOOKS:
            r = h(ex, s, xs)
            if r is not NotImplemented:
                return r
        if isinstance(xs, (list, tuple)) or isinstance(xs, GenResult):
            xs = as_list(ex, xs)
            if all(_strsv(x) for x in xs):
                if len(xs) == 0:
                    return ""
                parts = []
                for i, x in enumerate(xs):
                    if i:
                        parts.append(s)
                    parts.append(x)
                return str_concat(ex, parts)
        if is_sym(xs) and xs.ty.kind == "seq":
            return SV(str_join(t, xs.t), STR)
        raise Unsupported("join of unknown iterable")
    if name == "splitlines" and not args:
        return SV(str_splitlines(t), SEQ_STR)
    if name == "isspace":
        return SV(str_isspace(t), BOOL)
    if name in ("startswith", "endswith") and len(args) == 1:
        f = z3.PrefixOf if name == "startswith" else z3.SuffixOf
        if isinstance(args[0], (tuple, list)):          # a tuple of alternatives
            alts = [f(term(a, STR), t) for a in args[0]]
            return SV(z3.Or(alts) if alts else z3.BoolVal(False), BOOL)
        return SV(f(term(args[0], STR), t), BOOL)
    if name == "find" and len(args) == 1:
        return SV(z3.IndexOf(t, term(args[0], STR), 0), INT)
    if name == "index" and len(args) == 1:
        i = z3.IndexOf(t, term(args[0], STR), 0)
        if not ex.branch(i >= 0, "index-found"):
            ex.raise_(ValueError, "substring not found", tag="str-index")
        return SV(i, INT)
    if name in ("rpartition", "partition") and len(args) == 1:
        sep = term(args[0], STR)
        if name == "partition":
            i = z3.IndexOf(t, sep, 0)
            found = i >= 0
            head = z3.If(found, z3.SubString(t, 0, i), t)
            tail = z3.If(found, z3.SubString(t, i + z3.Length(sep), z3.Length(t)), z3.StringVal(""))
            return (SV(head, STR), SV(z3.If(found, sep, z3.StringVal("")), STR), SV(tail, STR))
        # rpartition: uninterpreted split point constrained by the language reference (S5)
        ex.assumptions_used.add("S5 rpartition as in the language reference")
        head = fresh_term(z3.StringSort(), "rp_head")
        tail = fresh_term(z3.StringSort(), "rp_tail")
        found = z3.Contains(t, sep)
        ex.assume(z3.If(found,
                        z3.And(t == z3.Concat(head, sep, tail), z3.Not(z3.Contains(tail, sep))) if True else True,
                        z3.And(head == z3.StringVal(""), tail == t)))
        return (SV(head, STR), SV(z3.If(found, sep, z3.StringVal("")), STR), SV(tail, STR))
    if name in ("rsplit", "split") and len(args) == 2 and args[1] == 1:
        # one split at the last / first occurrence: [head, tail] when the separator occurs, else [s]
        h, sp, tl = str_method(ex, s, "rpartition" if name == "rsplit" else "partition", [args[0]], {})
        if ex.branch(z3.Contains(t, term(args[0], STR)), f"{name}-found"):
            return [h, tl]
        return [s]
    if name == "replace" and len(args) == 2:
        ex.assumptions_used.add("z3 str.replace_all as python str.replace")
        raise Unsupported("str.replace on symbolic strings")
    if name == "lstrip" or name == "rstrip":
        raise Unsupported(f"str.{name} on symbolic strings")
    if name == "__str__":
        return s
    if name == "format":
        raise Unsupported("str.format")
    raise Unsupported(f"str method {name}")


# ---------------------------------------------------------------------------
# numbers: methods / attributes on symbolic numerics


def _lowest_terms(ex, v):
    """numerator / denominator of a symbolic rational r: integers n, d > 0 with r * d == n in lowest terms
    (coprimality through Bezout coefficients a * n + b * d == 1, skolem constants - no quantifier)"""
    key = ("lowest-terms", v.t.get_id())
    if key not in ex.ghost:
        n, d, a, b = (fresh_term(z3.IntSort(), nm) for nm in ("numer", "denom", "bez_a", "bez_b"))
        ex.assume(z3.And(d > 0, v.t * z3.ToReal(d) == z3.ToReal(n), a * n + b * d == 1), "numerator/denominator: the value in lowest terms")
        ex.ghost[key] = (SV(n, INT), SV(d, INT))
    return ex.ghost[key]


def sym_attr(ex, v, name):
    k = v.ty.kind
    cls = X.sym_pytype(v.ty)
    owner, raw = ex.class_attr(cls, name)
    if raw is not None:
        clo = ex.wrap_real(raw, owner)
        if clo is not None:
            if isinstance(raw, property):
                return ex.call_closure(clo, [v], {})
            if isinstance(raw, classmethod):
                return Bound(cls, clo, name)
            if isinstance(raw, staticmethod):
                return clo
            return Bound(v, clo, name)
    if k == "num":
        if name in ("numerator", "denominator"):
            for h in ATTR_HOOKS:
                r = h(ex, v, name)
                if r is not NotImplemented:
                    return r
            return _lowest_terms(ex, v)[0 if name == "numerator" else 1]
    if k in ("enum", "ienum"):
        if name == "value":
            return enum_value(ex, v)
        if name == "name":
            raise Unsupported("enum .name")
    if raw is None:
        ex.raise_(AttributeError, name)
    return Bound(v, None, name)


def enum_value(ex, v):
    if v.ty.kind == "ienum":
        return SV(v.t, INT)
    members = v.ty.members
    vals = [m.value for m in members]
    vty = ty_of_concrete(vals[0])
    t = vty.lift(vals[-1])
    for m, c in list(zip(members, v.ty.consts))[:-1][::-1]:
        t = z3.If(v.t == c, vty.lift(m.value), t)
    return SV(t, vty)


def call_method(ex, recv, name, args, kwargs):
    for h in METHOD_HOOKS:
        r = h(ex, recv, name, args, kwargs)
        if r is not NotImplemented:
            return r
    if isinstance(recv, str) or (is_sym(recv) and recv.ty.kind == "str"):
        if isinstance(recv, str) and all_concrete(args):
            try:
                return getattr(recv, name)(*args, **kwargs)
            except ValueError as e:
                ex.raise_(ValueError, str(e))
        return str_method(ex, recv, name, args, kwargs)
    if is_sym(recv) and recv.ty.kind == "num":
        return num_method(ex, recv, name, args, kwargs)
    if is_sym(recv) and recv.ty.kind == "seq":
        return seq_method(ex, recv, name, args, kwargs)
    if is_sym(recv) and recv.ty.kind == "int":
        if name == "__index__" or name == "__int__":
            return recv
    if isinstance(recv, type):
        # classmethod-like builtins reached through super().__new__ etc.
        m = CLASS_METHOD.get(name)
        if m is not None:
            return m(ex, recv, args, kwargs)
    if isinstance(recv, (dict, list, set)) and name in ("pop", "setdefault", "update", "append", "extend", "insert", "remove", "clear", "add", "discard",
                                                        "popitem", "sort", "reverse", "move_to_end", "__setitem__", "__delitem__"):
        ex.note_module_state_write(recv)
    if isinstance(recv, dict) and name in ("get", "items", "keys", "values", "pop", "__contains__", "setdefault", "update", "copy"):
        if name == "get":
            return dict_get(ex, recv, args[0], args[1] if len(args) > 1 else None)
        if name == "pop" and isinstance(args[0], str):
            if args[0] in recv:
                return recv.pop(args[0])
            if len(args) > 1:
                return args[1]
            ex.raise_(KeyError, args[0])
        return getattr(recv, name)(*args, **kwargs)
    if isinstance(recv, list):
        if name == "append":
            recv.append(args[0])
            if ex.writes is not None:
                ex.writes.append(("pylist", recv))
            return None
        if name in ("extend",):
            recv.extend(as_list(ex, args[0]))
            return None
        if name in ("index", "remove", "count") and not all_concrete(recv + list(args)):
            raise Unsupported(f"list.{name} with symbolic elements")
    if isinstance(recv, NTVal):
        if name == "_replace":
            vals = list(recv.vals)
            for k_, v_ in kwargs.items():
                vals[recv.nty.fields.index(k_)] = v_
            return NTVal(recv.cls, vals)
        if name == "_asdict":
            return dict(zip(recv.nty.fields, recv.vals))
    if all_concrete([recv] + list(args) + list(kwargs.values())):
        try:
            return getattr(recv, name)(*args, **kwargs)
        except (KeyError, IndexError, ValueError, TypeError, AttributeError, ZeroDivisionError, StopIteration) as e:
            ex.raise_(type(e), *e.args)
    raise Unsupported(f"method {name} on {recv!r}")


def dict_get(ex, d, key, default=None):
    if all_concrete([key]):
        return d.get(key, default)
    # symbolic key over a concrete table: ite chain
    items = list(d.items())
    if not items:
        return default
    hit = None
    for k_, v_ in items:
        e = ex.eq(key, k_)
        if e is False:
            continue
        if ex.branch(ex._z(e), f"dict-key"):
            return v_
    return default


def num_method(ex, v, name, args, kwargs):
    if name == "__float__":
        return SV(v.t, FLOAT)
    if name in ("__round__",):
        if args:
            raise Unsupported("round with digits")
        return SV(real_round_half_even(v.t), INT)
    if name in ("__trunc__", "__int__"):
        return SV(real_trunc(v.t), INT)
    if name == "__floor__":
        return SV(z3.ToInt(v.t), INT)
    if name == "__abs__":
        return SV(z3.If(v.t >= 0, v.t, -v.t), TNum("Fraction" if v.ty.pyty == "Beat" else v.ty.pyty))
    if name == "__neg__":
        return SV(-v.t, TNum("Fraction" if v.ty.pyty == "Beat" else v.ty.pyty))
    if name == "__pos__":
        return SV(v.t, TNum("Fraction" if v.ty.pyty == "Beat" else v.ty.pyty))
    if name == "__bool__":
        return SV(v.t != 0, BOOL)
    m = {"__add__": "add", "__sub__": "sub", "__mul__": "mul", "__truediv__": "truediv",
         "__floordiv__": "floordiv", "__mod__": "mod"}
    base = SV(v.t, TNum("Fraction")) if v.ty.pyty == "Beat" else v
    if name in m:
        return plain_arith(ex, m[name], base, _unbeat(args[0]))
    r = {"__radd__": "add", "__rsub__": "sub", "__rmul__": "mul", "__rtruediv__": "truediv",
         "__rfloordiv__": "floordiv", "__rmod__": "mod"}
    if name in r:
        return plain_arith(ex, r[name], _unbeat(args[0]), base)
    if name == "__divmod__":
        o = _unbeat(args[0])
        return (plain_arith(ex, "floordiv", base, o), plain_arith(ex, "mod", base, o))
    if name == "__rdivmod__":
        o = _unbeat(args[0])
        return (plain_arith(ex, "floordiv", o, base), plain_arith(ex, "mod", o, base))
    if name in ("__pow__", "__rpow__"):
        raise Unsupported("symbolic pow")
    if name in ("__lt__", "__le__", "__gt__", "__ge__"):
        op = {"__lt__": ast.Lt, "__le__": ast.LtE, "__gt__": ast.Gt, "__ge__": ast.GtE}[name]()
        return order(ex, op, base, _unbeat(args[0]))
    if name == "__eq__":
        return ex.eq(base, _unbeat(args[0]))
    raise Unsupported(f"numeric method {name}")


def _unbeat(v):
    if is_sym(v) and v.ty.kind == "num" and v.ty.pyty == "Beat":
        return SV(v.t, FRAC)
    return v


def seq_method(ex, v, name, args, kwargs):
    if name == "__len__":
        return SV(z3.Length(v.t), INT)
    if name == "copy":
        return v
    raise Unsupported(f"sequence method {name}")


# ---------------------------------------------------------------------------
# item access


def getitem(ex, obj, key):
    for h in GETITEM_HOOKS:
        r = h(ex, obj, key)
        if r is not NotImplemented:
            return r
    if isinstance(obj, HObj):
        owner, raw = ex.class_attr(obj.cls, "__getitem__")
        clo = ex.wrap_real(raw, owner) if raw is not None else None
        if clo is not None:
            return ex.call_closure(clo, [obj, key], {})
        return call_method(ex, obj, "__getitem__", [key], {})
    if isinstance(obj, GenResult):
        obj = as_list(ex, obj)
    if isinstance(obj, NTVal):
        obj = tuple(obj.vals)
    if isinstance(obj, (list, tuple)):
        if is_sym(key):
            if key.ty.kind != "int":
                raise Unsupported("non-int symbolic index")
            n = len(obj)
            if not ex.branch(z3.And(key.t >= -n, key.t < n), "idx-ok"):
                ex.raise_(IndexError, "index out of range", tag="index")
            for i in range(-n, n):
                if ex.branch(key.t == i, f"idx={i}"):
                    return obj[i]
            raise PathAbort("index exhausted")
        try:
            return obj[key]
        except IndexError:
            ex.raise_(IndexError, "index out of range", tag="index")
        except TypeError as e:
            ex.raise_(TypeError, str(e))
    if isinstance(obj, dict):
        if all_concrete([key]):
            try:
                return obj[key]
            except KeyError:
                ex.raise_(KeyError, key, tag="dict-key")
            except TypeError as e:
                ex.raise_(TypeError, str(e))
        for k_ in list(obj.keys()):
            e = ex.eq(key, k_)
            if e is False:
                continue
            if ex.branch(ex._z(e), "dict-key"):
                return obj[k_]
        import collections
        if isinstance(obj, collections.defaultdict) and obj.default_factory is not None:
            return obj.default_factory()   # (the real one would also store it; the tables here are read-only)
        ex.raise_(KeyError, key, tag="dict-key")
    if is_sym(obj) and obj.ty.kind == "seq":
        n = z3.Length(obj.t)
        k = term(key, INT)
        if not ex.branch(z3.And(k >= -n, k < n), "idx-ok"):
            ex.raise_(IndexError, "index out of range", tag="index")
        idx = k
        if not (isinstance(key, int) and key >= 0):
            if isinstance(key, int):
                idx = n + key
            else:
                idx = z3.If(k >= 0, k, n + k)
        return _wrap_field(obj.ty.inner, obj.t[idx])
    if (is_sym(obj) and obj.ty.kind == "str") or isinstance(obj, str):
        t = term(obj, STR)
        n = z3.Length(t)
        k = term(key, INT)
        if not ex.branch(z3.And(k >= -n, k < n), "idx-ok"):
            ex.raise_(IndexError, "string index out of range", tag="index")
        idx = z3.If(k >= 0, k, n + k)
        return concretize(SV(z3.simplify(z3.SubString(t, idx, 1)), STR))
    if is_sym(obj) and obj.ty.kind == "opt":
        if ex.branch(obj.ty.is_none(obj.t), "isnone"):
            ex.raise_(TypeError, "'NoneType' object is not subscriptable", tag="none-subscript")
        return getitem(ex, _wrap_field(obj.ty.inner, obj.ty.val(obj.t)), key)
    if obj is None:
        ex.raise_(TypeError, "'NoneType' object is not subscriptable", tag="none-subscript")
    if all_concrete([obj, key]):
        try:
            return obj[key]
        except (KeyError, IndexError, TypeError) as e:
            ex.raise_(type(e), *e.args)
    raise Unsupported(f"getitem {obj!r}[{key!r}]")


def getslice(ex, obj, lo, hi):
    if isinstance(obj, NTVal):
        obj = tuple(obj.vals)
    if isinstance(obj, GenResult):
        obj = as_list(ex, obj)
    if isinstance(obj, (list, tuple, str)) and all_concrete([lo, hi]):
        return obj[lo:hi]
    for h in GETITEM_HOOKS:
        r = h(ex, obj, slice(lo, hi))
        if r is not NotImplemented:
            return r
    if is_sym(obj) and obj.ty.kind in ("seq", "str") or isinstance(obj, str):
        ty = obj.ty if is_sym(obj) else STR
        t = term(obj, ty)
        n = z3.Length(t)
        if hi is None and isinstance(lo, int) and lo >= 0:
            # s[k:] -- kept in the plain form SubSeq(s, k, len - k) (z3 clamps a negative length to empty)
            return SV(z3.SubSeq(t, lo, n - lo) if ty.kind == "seq" else z3.SubString(t, lo, n - lo), ty)

        def norm(k, default):
            if k is None:
                return default
            kt = term(k, INT)
            if isinstance(k, int):
                return z3.IntVal(k) if k >= 0 else z3.If(n + k >= 0, n + k, z3.IntVal(0))
            return z3.If(kt >= 0, kt, z3.If(n + kt >= 0, n + kt, z3.IntVal(0)))

        a = norm(lo, z3.IntVal(0))
        b = norm(hi, n)
        b2 = z3.If(b > n, n, b)
        a2 = z3.If(a > n, n, a)
        ln = z3.If(b2 > a2, b2 - a2, z3.IntVal(0))
        return SV(z3.simplify(z3.SubSeq(t, a2, ln)) if ty.kind == "seq" else z3.simplify(z3.SubString(t, a2, ln)), ty)
    raise Unsupported(f"slice of {obj!r}")


def setitem(ex, obj, key, v):
    for h in SETITEM_HOOKS:
        r = h(ex, obj, key, v)
        if r is not NotImplemented:
            return
    if isinstance(obj, HObj):
        owner, raw = ex.class_attr(obj.cls, "__setitem__")
        clo = ex.wrap_real(raw, owner) if raw is not None else None
        if clo is not None:
            ex.call_closure(clo, [obj, key, v], {})
            return
        call_method(ex, obj, "__setitem__", [key, v], {})
        return
    if isinstance(obj, (list, dict)) and all_concrete([key]):
        ex.note_module_state_write(obj)
        try:
            obj[key] = v
        except IndexError:
            ex.raise_(IndexError, "list assignment index out of range", tag="index")
        if ex.writes is not None:
            ex.writes.append(("pylist", obj))
        return
    raise Unsupported(f"setitem on {obj!r}[{key!r}]")


def delitem(ex, obj, key):
    for h in DELITEM_HOOKS:
        r = h(ex, obj, key)
        if r is not NotImplemented:
            return
    if isinstance(obj, HObj):
        owner, raw = ex.class_attr(obj.cls, "__delitem__")
        clo = ex.wrap_real(raw, owner) if raw is not None else None
        if clo is not None:
            ex.call_closure(clo, [obj, key], {})
            return
        call_method(ex, obj, "__delitem__", [key], {})
        return
    if isinstance(obj, (list, dict)) and all_concrete([key]):
        try:
            del obj[key]
        except (KeyError, IndexError) as e:
            ex.raise_(type(e), *e.args)
        return
    raise Unsupported(f"delitem on {obj!r}")


# ---------------------------------------------------------------------------
# comprehensions (concrete spine only; symbolic ones need a spec function)


def comprehension(ex, e, fr, kind):
    gens = e.generators
    out = []

    def rec(gi, frame):
        if gi == len(gens):
            out.append(ex.eval(e.elt, frame))
            return
        g = gens[gi]
        it = iterable(ex, ex.eval(g.iter, frame))
        if isinstance(it, SymIter):
            ex.ghost["__compkind__"] = kind
            for h in COMPREHENSION_HOOKS:
                r = h(ex, e, frame, it, gi)
                if r is not NotImplemented:
                    out.append(_Splice(r))
                    return
            raise Unsupported(f"comprehension over symbolic iterable at {fr.fi.qualname}:{e.lineno}")
        for x in it:
            f2 = X.Frame(frame.fi, {}, frame, frame.module)
            f2.self_cls = frame.self_cls
            ex.assign(g.target, x, f2)
            ok = True
            for cond in g.ifs:
                if not ex.test(ex.eval(cond, f2), "compif"):
                    ok = False
                    break
            if ok:
                rec(gi + 1, f2)

    rec(0, fr)
    if any(isinstance(o, _Splice) for o in out):
        if len(out) == 1:
            return out[0].v
        raise Unsupported("mixed symbolic comprehension")
    if kind == "gen":
        return GenResult(out)
    return out


COMPREHENSION_HOOKS = []
YIELD_FROM_HOOKS = []   # f(ex, v, seq_ty) -> z3 Seq term or None


# ---------------------------------------------------------------------------
# with statements


def with_enter(ex, cm):
    for enter, exit_ in WITH_HOOKS:
        r = enter(ex, cm)
        if r is not NotImplemented:
            return r
    raise Unsupported(f"with on {cm!r}")


def with_exit(ex, cm, exc):
    for enter, exit_ in WITH_HOOKS:
        r = exit_(ex, cm, exc)
        if r is not NotImplemented:
            return r
    raise Unsupported(f"with-exit on {cm!r}")


# ---------------------------------------------------------------------------
# attribute fallbacks


def getattr_model(ex, obj, name):
    for h in ATTR_HOOKS:
        r = h(ex, obj, name)
        if r is not NotImplemented:
            return r
    return NotImplemented


def concrete_attr(ex, obj, name):
    if isinstance(obj, PropVal):
        if name in ("setter", "deleter", "getter"):
            return Bound(obj, None, name)
        return getattr(obj, name)
    if isinstance(obj, fractions.Fraction) and type(obj).__name__ == "Beat":
        owner, raw = ex.class_attr(type(obj), name)
        clo = ex.wrap_real(raw, owner) if raw is not None else None
        if clo is not None and not isinstance(raw, (classmethod, staticmethod, property)):
            return Bound(obj, clo, name)
    return NotImplemented


def real_property(ex, obj, owner, name, raw):
    raise Unsupported(f"property {name} of {owner} is not repo code")


def make_property(ex, fget):
    raise Unsupported("property() at run time")


# ---------------------------------------------------------------------------
# calls to real (non-repo) callables


def instantiate(ex, cls, args, kwargs):
    """cls(*args) for a real class."""
    if cls in CLASS_NEW:
        return CLASS_NEW[cls](ex, cls, args, kwargs)
    # repo-defined __new__ (Beat)
    owner, raw = ex.class_attr(cls, "__new__")
    clo = ex.wrap_real(raw, owner) if raw is not None else None
    if clo is not None:
        if all_concrete(list(args) + list(kwargs.values())) and issubclass(cls, (fractions.Fraction,)) and ex.depth > 0:
            try:
                return cls(*args, **kwargs)
            except (ValueError, TypeError, ZeroDivisionError) as e:
                ex.raise_(type(e), *e.args)
        return ex.call_closure(clo, [cls] + list(args), kwargs)
    for k in cls.__mro__:
        if k in CLASS_NEW:
            return CLASS_NEW[k](ex, cls, args, kwargs)
    if issubclass(cls, tuple) and hasattr(cls, "_fields"):
        return nt_new(ex, cls, args, kwargs)
    if issubclass(cls, enum.Enum):
        return enum_new(ex, cls, args)
    if issubclass(cls, BaseException):
        return ExcVal(cls, args)
    if all_concrete(list(args) + list(kwargs.values())) and cls.__module__ in ("builtins", "fractions", "decimal", "collections", "io"):
        if cls is io.StringIO:
            pass
        else:
            try:
                return cls(*args, **kwargs)
            except (ValueError, TypeError, decimal.InvalidOperation, ZeroDivisionError) as e:
                ex.raise_(type(e), *e.args)
    # generic heap object
    obj = HObj(cls)
    if ex.writes is not None:
        obj._born = ex.writes
    owner, raw = ex.class_attr(cls, "__init__")
    clo = ex.wrap_real(raw, owner) if raw is not None else None
    if clo is not None:
        ex.call_closure(clo, [obj] + list(args), kwargs)
    else:
        r = NotImplemented
        for h in METHOD_HOOKS:
            r = h(ex, obj, "__init__", list(args), kwargs)
            if r is not NotImplemented:
                break
        if r is NotImplemented and owner is not object:
            raise Unsupported(f"no model for {cls.__name__}.__init__ (defined on {owner})")
    return obj


def nt_new(ex, cls, args, kwargs):
    fields = list(cls._fields)
    defaults = getattr(cls, "_field_defaults", {})
    vals = {}
    if len(args) > len(fields):
        ex.raise_(TypeError, "too many arguments")
    for f, a in zip(fields, args):
        vals[f] = a
    for k, v in kwargs.items():
        if k not in fields:
            ex.raise_(TypeError, f"unexpected keyword argument {k!r}")
        if k in vals:
            ex.raise_(TypeError, f"multiple values for {k}")
        vals[k] = v
    for f in fields:
        if f not in vals:
            if f in defaults:
                vals[f] = defaults[f]
            else:
                ex.raise_(TypeError, f"missing required argument {f!r}")
    if all_concrete(list(vals.values())):
        try:
            return NTVal(cls, [vals[f] for f in fields])
        except Exception:
            pass
    return NTVal(cls, [vals[f] for f in fields])


def enum_new(ex, cls, args):
    (v,) = args
    if not is_sym(v):
        try:
            return cls(v)
        except ValueError as e:
            ex.raise_(ValueError, str(e), tag="enum-value")
    ty = TIntEnum(cls) if issubclass(cls, enum.IntEnum) else TEnum(cls)
    members = list(cls)
    for m in members:
        e = ex.eq(v, m.value)
        if e is False:
            continue
        if ex.branch(ex._z(e), f"enum={m.name}"):
            return m
    ex.raise_(ValueError, "not a valid enum value", tag="enum-value")


def call_real(ex, fn, args, kwargs):
    if fn in REAL_CALL:
        return REAL_CALL[fn](ex, args, kwargs)
    if isinstance(fn, type):
        if fn in TYPE_CALL:
            return TYPE_CALL[fn](ex, args, kwargs)
        return instantiate(ex, fn, args, kwargs)
    if isinstance(fn, functools.partial):
        return ex.call(fn.func, list(fn.args) + list(args), {**fn.keywords, **kwargs})
    if type(fn).__name__ == "_lru_cache_wrapper":
        return memo_call(ex, fn, args, kwargs)
    clo = ex.wrap_real(fn)
    if clo is not None:
        return ex.call_closure(clo, args, kwargs)
    if isinstance(fn, types.MethodType):
        clo = ex.wrap_real(fn.__func__)
        if clo is not None:
            return ex.call_closure(clo, [fn.__self__] + list(args), kwargs)
    if isinstance(fn, property):
        raise Unsupported("call of property object")
    if all_concrete(list(args) + list(kwargs.values())) and _pure(fn):
        try:
            return fn(*args, **kwargs)
        except (ValueError, TypeError, KeyError, IndexError, ZeroDivisionError, decimal.InvalidOperation, StopIteration) as e:
            ex.raise_(type(e), *e.args)
    raise Unsupported(f"no model for callable {fn!r}")


# ---- functools.lru_cache / functools.cache ----------------------------------
# A memo is transparent - the call means what the wrapped function means - when (1) the wrapped function is a closed
# computation: it reads nothing but its parameters, immutable constants, classes and other closed functions, and writes
# nothing; (2) equal cache keys cannot stand for arguments the function tells apart: the arguments are strings, enum members,
# None or classes, and numbers only under typed=True (1 == 1.0 == True == Fraction(1) share a key otherwise); (3) the
# result is immutable, so sharing one object between calls cannot be observed. Exceptions are never cached by lru_cache.
# Anything else stays unsupported (a cache is how seeded/C14-beat-new-lru-cache breaks C14).

_MEMO_BUILTINS = {"int", "float", "str", "len", "frozenset", "tuple", "min", "max", "abs", "round", "sorted", "repr", "format",
                  "isinstance", "bool", "divmod", "sum", "any", "all", "zip", "enumerate", "range", "reversed", "ord", "chr"}


def _immutable_const(v, depth=0):
    if v is None or isinstance(v, (bool, int, float, str, bytes, enum.Enum, fractions.Fraction, decimal.Decimal)):
        return True
    if isinstance(v, (tuple, frozenset)) and depth < 4:
        return all(_immutable_const(x, depth + 1) for x in v)
    return False


def _value_class(c):
    """classes whose construction and methods read and write nothing but the instance being built"""
    if c in (int, float, str, bool, bytes, tuple, frozenset, fractions.Fraction, decimal.Decimal):
        return True
    if isinstance(c, type) and (issubclass(c, enum.Enum) or (issubclass(c, tuple) and hasattr(c, "_fields"))):
        return True
    return getattr(c, "__module__", "").split(".")[0] == "msdparser" and getattr(c, "__name__", "") == "MSDParameter"


def _memo_closed(ex, pyfn, seen):
    """None when the function is a closed computation, else the reason it is not"""
    fi = ex.repo.lookup_pyfunc(pyfn)
    if fi is None:
        return f"{pyfn!r} is not a function of the tree under check"
    if fi.qualname in seen:
        return None
    seen.add(fi.qualname)
    if pyfn.__closure__:
        return f"{fi.qualname} closes over variables of an enclosing call"
    node = fi.node
    local = {a.arg for a in node.args.args + node.args.kwonlyargs + node.args.posonlyargs}
    if node.args.vararg or node.args.kwarg:
        return f"{fi.qualname} takes *args / **kwargs"
    body = [n for st in node.body for n in ast.walk(st)]      # not the decorators, not the annotations
    for n in body:
        if isinstance(n, (ast.Global, ast.Nonlocal, ast.Yield, ast.YieldFrom, ast.Await, ast.Lambda, ast.ClassDef)) or \
                isinstance(n, (ast.FunctionDef, ast.AsyncFunctionDef)):
            return f"{fi.qualname} contains {type(n).__name__}"
        if isinstance(n, (ast.Attribute, ast.Subscript)) and isinstance(n.ctx, (ast.Store, ast.Del)):
            return f"{fi.qualname} writes through an attribute or subscript"
        if isinstance(n, ast.Name) and isinstance(n.ctx, (ast.Store, ast.Del)):
            local.add(n.id)
    g = pyfn.__globals__
    for n in body:
        if isinstance(n, ast.Attribute) and isinstance(n.ctx, ast.Load):
            base = n.value
            if isinstance(base, ast.Name) and base.id not in local:
                owner = g.get(base.id, getattr(builtins, base.id, None))
                if isinstance(owner, type) and issubclass(owner, enum.Enum) and isinstance(getattr(owner, n.attr, None), owner):
                    continue            # an enum member
                if isinstance(owner, types.ModuleType):
                    tgt = getattr(owner, n.attr, None)
                    if _immutable_const(tgt) or _value_class(tgt):
                        continue
                return f"{fi.qualname} reads {base.id}.{n.attr}"
        if isinstance(n, ast.Name) and isinstance(n.ctx, ast.Load) and n.id not in local:
            if n.id in g:
                v = g[n.id]
                if _immutable_const(v) or _value_class(v) or isinstance(v, types.ModuleType):
                    continue
                if isinstance(v, type) and issubclass(v, enum.Enum):
                    continue
                if isinstance(v, types.FunctionType):
                    why = _memo_closed(ex, v, seen)
                    if why:
                        return why
                    continue
                return f"{fi.qualname} reads the module-level {n.id} ({type(v).__name__})"
            if n.id in _MEMO_BUILTINS or n.id in ("None", "True", "False"):
                continue
            return f"{fi.qualname} uses {n.id}"
    return None


def _memo_key_ok(v, typed):
    if v is None or isinstance(v, (str, enum.Enum, type)) and not isinstance(v, bool):
        return True
    if isinstance(v, (bool, int, float, fractions.Fraction, decimal.Decimal)):
        return typed
    if isinstance(v, (tuple, frozenset)):
        return all(_memo_key_ok(x, typed) for x in v)
    if is_sym(v):
        k = v.ty.kind
        if k in ("str", "enum"):
            return True
        if k in ("int", "bool", "num", "ienum"):
            return typed
        if k == "opt":
            return v.ty.inner.kind in ("str", "enum") or (typed and v.ty.inner.kind in ("int", "bool", "num", "ienum"))
    return False


def _memo_result_ok(v):
    if _immutable_const(v) or getattr(v, "immutable_value", False) is True:
        return True
    if is_sym(v):
        k = v.ty.kind
        return k in ("str", "enum", "int", "bool", "num", "ienum") or (k == "opt" and v.ty.inner.kind in ("str", "enum", "int", "bool", "num", "ienum"))
    return False


def memo_call(ex, fn, args, kwargs):
    inner = getattr(fn, "__wrapped__", None)
    if not isinstance(inner, types.FunctionType):
        raise Unsupported(f"no model for callable {fn!r}")
    try:
        typed = bool(fn.cache_parameters().get("typed"))
    except Exception:
        typed = False
    why = _memo_closed(ex, inner, set())
    if why:
        raise Unsupported(f"the memo on {inner.__qualname__} is not known to be transparent: {why}")
    for a in list(args) + list(kwargs.values()):
        if not _memo_key_ok(a, typed):
            raise Unsupported(f"the memo on {inner.__qualname__} is not known to be transparent: an argument ({a!r}) whose cache key "
                              f"may be shared by values the function can tell apart{'' if typed else ' (numbers need typed=True)'}")
    clo = ex.wrap_real(inner)
    if clo is None:
        raise Unsupported(f"no model for callable {fn!r}")
    clo.fi._memo_checked = True
    r = ex.call_closure(clo, args, kwargs)
    if not _memo_result_ok(r):
        raise Unsupported(f"the memo on {inner.__qualname__} hands out a result that may be mutable ({r!r}): shared between calls")
    ex.notes.append(f"functools.lru_cache on {inner.__qualname__}: a closed function of immutable arguments with an immutable result, taken as transparent")
    return r


def _pure(fn):
    mod = getattr(fn, "__module__", None)
    return mod in ("builtins", "math", "operator", "fractions", "decimal", "posixpath", "os.path", "ntpath",
                   "fs.path", "re", "functools", "itertools", "textwrap", "copy", "genericpath", None) or \
        type(fn).__name__ in ("builtin_function_or_method", "method_descriptor")


# ---- builtins --------------------------------------------------------------


def b_isinstance(ex, args, kwargs):
    v, cls = args
    if isinstance(cls, tuple):
        rs = [b_isinstance(ex, [v, c], {}) for c in cls]
        return any(rs)
    t = type_of_val(ex, v)
    if t is None:
        return False
    try:
        return issubclass(t, cls)
    except TypeError:
        # typing special forms (typing.TextIO is a plain class; Union etc. are not)
        raise Unsupported(f"isinstance against {cls!r}")


def type_of_val(ex, v):
    if v is None:
        return type(None)
    if is_sym(v) and v.ty.kind == "opt":
        if ex.branch(v.ty.is_none(v.t), "isnone"):
            return type(None)
        return X.sym_pytype(v.ty.inner)
    if isinstance(v, ExcVal):
        return v.cls
    if isinstance(v, (Closure, LambdaVal, Bound)):
        return types.FunctionType
    if isinstance(v, GenResult):
        return types.GeneratorType
    return type_of(v)


def b_len(ex, args, kwargs):
    (v,) = args
    for h in LEN_HOOKS:
        r = h(ex, v)
        if r is not NotImplemented:
            return r
    if is_sym(v):
        if v.ty.kind in ("seq", "str"):
            return concretize(SV(z3.simplify(z3.Length(v.t)), INT))
        if v.ty.kind == "opt":
            if ex.branch(v.ty.is_none(v.t), "isnone"):
                ex.raise_(TypeError, "object of type 'NoneType' has no len()")
            return b_len(ex, [_wrap_field(v.ty.inner, v.ty.val(v.t))], {})
        raise Unsupported(f"len of {v.ty}")
    if isinstance(v, NTVal):
        return len(v.vals)
    if isinstance(v, GenResult):
        ex.raise_(TypeError, "object of type 'generator' has no len()")
    if isinstance(v, HObj):
        return call_method_or_closure(ex, v, "__len__", [])
    if isinstance(v, SymIter):
        return SV(v.length, INT)
    return len(v)


def call_method_or_closure(ex, obj, name, args):
    owner, raw = ex.class_attr(type_of(obj), name)
    clo = ex.wrap_real(raw, owner) if raw is not None else None
    if clo is not None:
        return ex.call_closure(clo, [obj] + list(args), {})
    return call_method(ex, obj, name, list(args), {})


def b_str(ex, args, kwargs):
    if not args:
        return ""
    return to_str(ex, args[0])


def b_int(ex, args, kwargs):
    if not args:
        return 0
    (v,) = args
    if is_sym(v):
        k = v.ty.kind
        if k in ("int", "ienum"):
            return SV(v.t, INT)
        if k == "bool":
            return coerce(v, INT)
        if k == "num":
            return SV(real_trunc(v.t), INT)
        if k == "str":
            for h in PARSE_HOOKS:
                r = h(ex, "int", v)
                if r is not NotImplemented:
                    return r
            raise Unsupported("int() of symbolic string")
    return int(v)


def b_float(ex, args, kwargs):
    if not args:
        return 0.0
    (v,) = args
    if is_sym(v):
        k = v.ty.kind
        if k in ("int", "ienum", "bool", "num"):
            return SV(coerce(v, FRAC).t, FLOAT)
        if k == "str":
            for h in PARSE_HOOKS:
                r = h(ex, "float", v)
                if r is not NotImplemented:
                    return r
            raise Unsupported("float() of symbolic string")
        if k == "opt":
            if ex.branch(v.ty.is_none(v.t), "isnone"):
                ex.raise_(TypeError, "float() argument must be a string or a real number, not 'NoneType'")
            return b_float(ex, [_wrap_field(v.ty.inner, v.ty.val(v.t))], {})
    try:
        return float(v)
    except (ValueError, TypeError) as e:
        ex.raise_(type(e), *e.args)


PARSE_HOOKS = []


def b_bool(ex, args, kwargs):
    if not args:
        return False
    t = ex.truthy(args[0])
    return t if isinstance(t, bool) else concretize(SV(z3.simplify(t), BOOL))


def b_round(ex, args, kwargs):
    v = args[0]
    if is_sym(v) and len(args) == 1:
        if v.ty.kind == "num":
            # Fraction.__round__ / float.__round__: half to even (T-STD)
            ex.assumptions_used.add("round() is half-to-even on exact rationals (T-STD)")
            return SV(real_round_half_even(v.t), INT)
        if v.ty.kind == "int":
            return v
    if all_concrete(args):
        return round(*args)
    raise Unsupported("round")


def b_abs(ex, args, kwargs):
    (v,) = args
    if is_sym(v):
        t = _optype(v)
        if t is not None:
            return unary_dunder(ex, v, "__abs__")
        if v.ty.kind == "int":
            return SV(z3.If(v.t >= 0, v.t, -v.t), INT)
        return num_method(ex, v, "__abs__", [], {})
    return abs(v)


def b_any(ex, args, kwargs):
    for x in as_list(ex, args[0]):
        if ex.test(x, "any"):
            return True
    return False


def b_all(ex, args, kwargs):
    for x in as_list(ex, args[0]):
        if not ex.test(x, "all"):
            return False
    return True


SUM_HOOKS = []


def b_sum(ex, args, kwargs):
    it = args[0]
    for h in SUM_HOOKS:
        r = h(ex, args)
        if r is not NotImplemented:
            return r
    acc = args[1] if len(args) > 1 else 0
    for x in as_list(ex, it):
        acc = binop(ex, ast.Add(), acc, x)
    return acc


def b_minmax(which):
    def f(ex, args, kwargs):
        xs = as_list(ex, args[0]) if len(args) == 1 else list(args)
        if not xs:
            if "default" in kwargs:
                return kwargs["default"]
            ex.raise_(ValueError, f"{which}() arg is an empty sequence", tag="empty-minmax")
        best = xs[0]
        for x in xs[1:]:
            r = order(ex, ast.Lt() if which == "min" else ast.Gt(), x, best)
            if ex.branch(ex._z(r) if not isinstance(r, bool) else r, which):
                best = x
        return best
    return f


def b_zip(ex, args, kwargs):
    lists = []
    syms = []
    for a in args:
        if is_sym(a) and a.ty.kind == "seq" and not z3.is_int_value(z3.simplify(z3.Length(a.t))):
            syms.append(a)
            lists.append(None)
        else:
            lists.append(as_list(ex, a))
    if syms:
        conc = [l for l in lists if l is not None]
        if not conc:
            raise Unsupported("zip of symbolic sequences only")
        k = min(len(l) for l in conc)
        for a in syms:
            # zip stops at the shortest input: the symbolic ones must be known to be long enough
            if ex._check([z3.Length(a.t) < k], ex.BRANCH_TIMEOUT_MS) != z3.unsat:
                raise Unsupported("zip with a symbolic sequence that may be the shortest")
        lists = [l if l is not None else [_wrap_field(a.ty.inner, a.t[j]) for j in range(k)] for l, a in zip(lists, args)]
    return [tuple(t) for t in zip(*lists)]


def b_enumerate(ex, args, kwargs):
    it = iterable(ex, args[0])
    start = args[1] if len(args) > 1 else kwargs.get("start", 0)
    if isinstance(it, SymIter):
        return SymIter(it.length, lambda ex_, i, it=it: (SV(i + start, INT) if not z3.is_int_value(z3.simplify(i + start)) else z3.simplify(i + start).as_long(), it.at(ex_, i)),
                       label=f"enumerate({it.label})", facts=it.facts)
    return [(i + start, x) for i, x in enumerate(it)]


def b_map(ex, args, kwargs):
    fn = args[0]
    its = [iterable(ex, a) for a in args[1:]]
    if len(its) == 1 and isinstance(its[0], SymIter):
        it = its[0]
        return SymIter(it.length, lambda ex_, i, it=it, fn=fn: ex_.call(fn, [it.at(ex_, i)], {}), label=f"map({it.label})", facts=it.facts)
    return [ex.call(fn, list(t), {}) for t in zip(*[as_list(ex, i) for i in its])]


def b_filter(ex, args, kwargs):
    fn, it = args
    it = iterable(ex, it)
    if isinstance(it, SymIter):
        for h in FILTER_HOOKS:
            r = h(ex, fn, it)
            if r is not NotImplemented:
                return r
        raise Unsupported("filter over symbolic iterable")
    out = []
    for x in it:
        keep = ex.test(x if fn is None else ex.call(fn, [x], {}), "filter")
        if keep:
            out.append(x)
    return out


FILTER_HOOKS = []


def b_list(ex, args, kwargs):
    if not args:
        return []
    v = args[0]
    if is_sym(v) and v.ty.kind == "seq" and not z3.is_int_value(z3.simplify(z3.Length(v.t))):
        return SV(v.t, TSeq(v.ty.inner, "list"))   # sequences are values: a copy is the same value
    it = iterable(ex, v)
    if isinstance(it, SymIter):
        for h in LIST_HOOKS:
            r = h(ex, it)
            if r is not NotImplemented:
                return r
        raise Unsupported(f"list() of symbolic iterable {it.label}")
    return list(it)


LIST_HOOKS = []


def b_tuple(ex, args, kwargs):
    if not args:
        return ()
    v = args[0]
    if is_sym(v) and v.ty.kind == "seq":
        n = z3.simplify(z3.Length(v.t))
        if not z3.is_int_value(n):
            return SV(v.t, TSeq(v.ty.inner, "tuple"))
    it = iterable(ex, v)
    if isinstance(it, SymIter):
        for h in LIST_HOOKS:
            r = h(ex, it)
            if r is not NotImplemented:
                return r
        raise Unsupported("tuple() of symbolic iterable")
    return tuple(it)


def b_range(ex, args, kwargs):
    if all_concrete(args):
        return range(*args)
    for h in RANGE_HOOKS:
        r = h(ex, args)
        if r is not NotImplemented:
            return r
    lo = 0 if len(args) == 1 else args[0]
    hi = args[0] if len(args) == 1 else args[1]
    lo_t, hi_t = term(lo, INT), term(hi, INT)
    n = z3.If(hi_t > lo_t, hi_t - lo_t, z3.IntVal(0))
    return SymIter(n, lambda ex_, i: SV(lo_t + i, INT), label="range")


RANGE_HOOKS = []


def b_getattr(ex, args, kwargs):
    obj, name = args[0], args[1]
    if is_sym(name):
        c = ex.concrete_value(name)
        if c is None:
            vals = ex.enumerate_values(name)
            if not vals:
                raise Unsupported("getattr with a name the path does not bound")
            i = ex.choose([(f"name={mv}", name.t == mv) for mv in vals])
            c = name.ty.unlift(vals[i])
        name = c
    try:
        return ex.getattr(obj, name)
    except PyRaise as pr:
        if len(args) > 2 and issubclass(pr.exc.cls, AttributeError):
            return args[2]
        raise


def b_hasattr(ex, args, kwargs):
    try:
        ex.getattr(args[0], args[1])
        return True
    except PyRaise as pr:
        if issubclass(pr.exc.cls, AttributeError):
            return False
        raise


def b_type(ex, args, kwargs):
    if len(args) == 1:
        return type_of_val(ex, args[0])
    raise Unsupported("type() with 3 args")


def b_next(ex, args, kwargs):
    it = args[0]
    for h in NEXT_HOOKS:
        r = h(ex, it, args[1:] )
        if r is not NotImplemented:
            return r
    raise Unsupported(f"next() on {it!r}")


NEXT_HOOKS = []


def b_iter(ex, args, kwargs):
    for h in ITEROBJ_HOOKS:
        r = h(ex, args[0])
        if r is not NotImplemented:
            return r
    return args[0]


ITEROBJ_HOOKS = []


def b_repr(ex, args, kwargs):
    return repr_(ex, args[0])


def b_cast(ex, args, kwargs):
    return args[1]


def b_frozenset(ex, args, kwargs):
    if not args:
        return frozenset()
    return frozenset(as_list(ex, args[0]))


def b_dict(ex, args, kwargs):
    d = {}
    if args:
        a = args[0]
        if isinstance(a, dict):
            d.update(a)
        else:
            for k, v in as_list(ex, a):
                d[k] = v
    d.update(kwargs)
    return d


class PropVal:
    """A `property` object built by interpreted code."""

    def __init__(self, fget=None, fset=None, fdel=None):
        self.fget, self.fset, self.fdel = fget, fset, fdel


def b_property(ex, args, kwargs):
    return PropVal(*args, **kwargs)


def _propval_method(ex, recv, name, args, kwargs):
    if isinstance(recv, PropVal):
        if name == "setter":
            return PropVal(recv.fget, args[0], recv.fdel)
        if name == "deleter":
            return PropVal(recv.fget, recv.fset, args[0])
        if name == "getter":
            return PropVal(args[0], recv.fset, recv.fdel)
    return NotImplemented


METHOD_HOOKS.append(_propval_method)


TYPE_CALL = {
    property: b_property,
    str: b_str, int: b_int, float: b_float, bool: b_bool, list: b_list, tuple: b_tuple, range: b_range,
    type: b_type, zip: b_zip, enumerate: b_enumerate, map: b_map, filter: b_filter, frozenset: b_frozenset,
    dict: b_dict, set: lambda ex, a, k: set(as_list(ex, a[0])) if a else set(),
}

REAL_CALL.update({
    isinstance: b_isinstance, len: b_len, round: b_round, abs: b_abs, any: b_any, all: b_all, sum: b_sum,
    min: b_minmax("min"), max: b_minmax("max"), getattr: b_getattr, hasattr: b_hasattr, next: b_next,
    iter: b_iter, repr: b_repr, typing.cast: b_cast,
})

CLASS_METHOD = {}


# ---- Fraction / Decimal / float constructors ---------------------------------


def _frac_new(ex, cls, args, kwargs):
    """Fraction.__new__(cls, numerator=0, denominator=None) (T-STD: exact)."""
    num = args[0] if args else kwargs.get("numerator", 0)
    den = args[1] if len(args) > 1 else kwargs.get("denominator", None)
    pyty = cls.__name__ if cls.__name__ == "Beat" else "Fraction"
    RT = TNum(pyty)
    if all_concrete([num, den]):
        try:
            return fractions.Fraction.__new__(cls, num, den)
        except (ValueError, TypeError, ZeroDivisionError) as e:
            ex.raise_(type(e), *e.args)
    if den is None:
        if is_sym(num) and num.ty.kind == "str":
            for h in PARSE_HOOKS:
                r = h(ex, "Fraction", num)
                if r is not NotImplemented:
                    return SV(r.t, RT)
            raise Unsupported("Fraction(str)")
        if is_sym(num) and num.ty.kind == "opt":
            raise Unsupported("Fraction(Optional)")
        return SV(coerce(sv(num), FRAC).t, RT)
    n, d = coerce(sv(num), FRAC).t, coerce(sv(den), FRAC).t
    if not ex.branch(d != 0, "den0"):
        ex.raise_(ZeroDivisionError, "Fraction(n, 0)", tag="div0")
    return SV(n / d, RT)


CLASS_METHOD["__new__"] = lambda ex, cls, args, kwargs: (
    _frac_new(ex, args[0] if args and isinstance(args[0], type) else cls, args[1:] if args and isinstance(args[0], type) else args, kwargs)
    if issubclass(cls if not (args and isinstance(args[0], type)) else args[0], fractions.Fraction)
    else (_ for _ in ()).throw(Unsupported(f"__new__ of {cls}"))
)


def _fraction_call(ex, cls, args, kwargs):
    return _frac_new(ex, cls, args, kwargs)


CLASS_NEW[fractions.Fraction] = _fraction_call
REAL_CALL[fractions.Fraction.__new__] = lambda ex, args, kwargs: _frac_new(ex, args[0], args[1:], kwargs)


def _decimal_call(ex, cls, args, kwargs):
    v = args[0] if args else 0
    if all_concrete([v]):
        try:
            return decimal.Decimal(v)
        except (decimal.InvalidOperation, ValueError, TypeError) as e:
            ex.raise_(type(e), *e.args)
    if is_sym(v):
        if v.ty.kind == "str":
            for h in PARSE_HOOKS:
                r = h(ex, "Decimal", v)
                if r is not NotImplemented:
                    return SV(r.t, DEC)
            raise Unsupported("Decimal(str)")
        if v.ty.kind in ("int", "num", "ienum"):
            return SV(coerce(v, FRAC).t, DEC)
        if v.ty.kind == "opt":
            if ex.branch(v.ty.is_none(v.t), "isnone"):
                ex.raise_(TypeError, "conversion from NoneType to Decimal is not supported")
            return _decimal_call(ex, cls, [_wrap_field(v.ty.inner, v.ty.val(v.t))], {})
    raise Unsupported(f"Decimal({v!r})")


CLASS_NEW[decimal.Decimal] = _decimal_call


def _float_sub_call(ex, cls, args, kwargs):
    r = b_float(ex, args, kwargs)
    if is_sym(r):
        return SV(r.t, TNum(cls.__name__ if cls.__name__ == "SongTime" else "float"))
    return cls(r)


CLASS_NEW[float] = _float_sub_call
