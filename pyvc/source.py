"""
Front end: the verified text is the code that runs.

Every run parses /repo/simfile/**/*.py from the working tree with `ast` and
indexes every function (module level, methods, nested functions) by its
qualified name.  The imported working tree supplies constants, classes, enum
members and method resolution (MRO); function *bodies* always come from the
AST read here, never from /verif.
"""
from __future__ import annotations

import ast
import hashlib
import importlib
import os
import sys
import types

REPO = os.environ.get("SIMFILE_REPO", "/repo")


class FuncInfo:
    def __init__(self, qualname, module, node, cls, parent, path, src):
        self.qualname = qualname      # e.g. simfile.sm.SMChart._from_msd
        self.module = module          # module name
        self.node = node              # ast.FunctionDef
        self.cls = cls                # enclosing class name or None
        self.parent = parent          # enclosing FuncInfo (nested function) or None
        self.path = path
        seg = ast.get_source_segment(src, node) or ""
        self.sha = hashlib.sha256(seg.encode()).hexdigest()[:16]
        self.source = seg

    def __repr__(self):
        return f"<FuncInfo {self.qualname}>"


class Repo:
    def __init__(self, root=REPO):
        self.root = root
        self.funcs = {}       # qualname -> FuncInfo
        self.by_code = {}     # (filename, firstlineno, name) -> FuncInfo
        self.modules = {}     # module name -> ast.Module
        self.sources = {}
        self._scan()
        if root not in sys.path:
            sys.path.insert(0, root)

    # ------------------------------------------------------------------
    def _scan(self):
        base = os.path.join(self.root, "simfile")
        for dirpath, dirnames, filenames in os.walk(base):
            dirnames[:] = [d for d in dirnames if d not in ("tests", "__pycache__")]
            for fn in filenames:
                if not fn.endswith(".py"):
                    continue
                path = os.path.join(dirpath, fn)
                rel = os.path.relpath(path, self.root)[:-3].replace(os.sep, ".")
                if rel.endswith(".__init__"):
                    rel = rel[: -len(".__init__")]
                with open(path, encoding="utf-8") as f:
                    src = f.read()
                tree = ast.parse(src, filename=path)
                self.modules[rel] = tree
                self.sources[rel] = src
                self._index(tree, rel, rel, None, None, path, src)

    def _index(self, node, module, prefix, cls, parent, path, src):
        for child in ast.iter_child_nodes(node):
            if isinstance(child, (ast.FunctionDef, ast.AsyncFunctionDef)):
                qn = f"{prefix}.{child.name}"
                # property setters/deleters share a name with the getter
                k = qn
                n = 1
                while k in self.funcs:
                    n += 1
                    k = f"{qn}#{n}"
                fi = FuncInfo(k, module, child, cls, parent, path, src)
                self.funcs[k] = fi
                self.by_code[(os.path.realpath(path), child.lineno, child.name)] = fi
                # decorators shift co_firstlineno to the first decorator line
                for d in child.decorator_list:
                    self.by_code[(os.path.realpath(path), d.lineno, child.name)] = fi
                self._index(child, module, k.split("#")[0], None, fi, path, src)
            elif isinstance(child, ast.ClassDef):
                self._index(child, module, f"{prefix}.{child.name}", child.name, parent, path, src)
            elif isinstance(child, (ast.If, ast.Try, ast.With, ast.For, ast.While)):
                self._index(child, module, prefix, cls, parent, path, src)

    # ------------------------------------------------------------------
    def func(self, qualname) -> FuncInfo:
        if qualname not in self.funcs:
            raise KeyError(f"function {qualname} not found in the working tree")
        return self.funcs[qualname]

    def lookup_pyfunc(self, fn) -> FuncInfo | None:
        """Map a real function object from the imported tree to its AST."""
        fn = getattr(fn, "__func__", fn)
        fn = getattr(fn, "__wrapped__", fn) if not isinstance(fn, types.FunctionType) else fn
        code = getattr(fn, "__code__", None)
        if code is None:
            return None
        key = (os.path.realpath(code.co_filename), code.co_firstlineno, code.co_name)
        return self.by_code.get(key)

    def imp(self, module):
        return importlib.import_module(module)

    def tree_sha(self):
        h = hashlib.sha256()
        for m in sorted(self.sources):
            h.update(m.encode())
            h.update(self.sources[m].encode())
        return h.hexdigest()[:16]


_repo = None


def repo() -> Repo:
    global _repo
    if _repo is None:
        _repo = Repo()
    return _repo
