"""
T-MSD / text-file theory (DESIGN 5.1): msdparser.MSDParameter, parse_msd, and
text file objects (io.StringIO, TextIOWrapper, writers), as assumed contracts.

  * MSDParameter(cs) is the value `cs : Seq[String]`; .key/.value/.components as
    documented; str(param) is the opaque text msd_text(cs) (T-MSD-2).
  * file.write(s) appends *fragments* to the ghost output of the file:
    Param(cs) for every msd_text(cs) piece of s, Text(t) for everything else.
  * parse_msd(string=t | file=f, ignore_stray_text=g) is the lazy parameter
    sequence msd_params(t, g); iterating it to the end raises MSDParserError
    iff msd_error(t, g); msd_error(t, True) is false (T-MSD-3).  Parsing from a
    file consumes it: after the first next() the file position is unspecified
    (> 0 unless the file is empty), after exhaustion it is at the end.
"""
from __future__ import annotations

import io
import z3

from .values import Ty, SV, STR, OSTR, INT, BOOL, TSeq, TOpt, TBox, is_sym, term, coerce, fresh_term, strval, S_unit, S_at
from .execu import HObj, SymIter, Unsupported, PyRaise, concretize, _wrap_field, _Splice, Bound
from . import models as M

S = z3.StringSort()
SEQ_STR = TSeq(STR)
CS = SEQ_STR.sort()                      # components

msd_text = z3.Function("msd_text", CS, S)                         # str(MSDParameter(cs))
_fd = z3.Datatype("Frag")
_fd.declare("Param", ("comps", CS))
_fd.declare("Text", ("text", S))
FragSort = _fd.create()
FRAGS = z3.SeqSort(FragSort)
frag_text = z3.Function("frag_text", FRAGS, S)                    # the characters of a fragment list

class _TComps(Ty):
    kind = "comps"

    def sort(self):
        return CS

    def unlift(self, mv, model=None):
        return SEQ_STR.unlift(mv, model)


PARAMS_TY = TSeq(_TComps())
PARAMS = PARAMS_TY.sort()


def P_at(ps, i):
    """component tuple (Seq[str] term) of the i-th parameter"""
    return PARAMS_TY.at(ps, i)
msd_params = z3.Function("msd_params", S, z3.BoolSort(), PARAMS)  # (text, ignore_stray_text)
msd_error = z3.Function("msd_error", S, z3.BoolSort(), z3.BoolSort())


class TParam(Ty):
    kind = "param"

    def sort(self):
        return CS

    def key(self):
        return ()

    def unlift(self, mv, model=None):
        return SEQ_STR.unlift(mv, model)

    def __repr__(self):
        return "MSDParameter"


T_PARAM = TParam()


class TFrags(Ty):
    kind = "frags"

    def sort(self):
        return FRAGS

    def unlift(self, mv, model=None):
        return str(mv)


T_FRAGS = TFrags()


def MSD():
    import msdparser
    return msdparser


# ---------------------------------------------------------------------------
# MSDParameter


class BadParam:
    """MSDParameter holding a None component: str() raises AttributeError (None.replace)"""


def comps_term(ex, items):
    parts = []
    for it in items:
        if isinstance(it, _Splice):
            v = it.v
            if is_sym(v) and v.ty.kind == "seq":
                parts.append(v.t)
                continue
            for x in M.as_list(ex, v):
                parts.append(S_unit(term(x, STR)))
        elif it is None:
            return None
        elif is_sym(it) and it.ty.kind == "opt":
            if ex.branch(it.ty.is_none(it.t), "component-none"):
                return None
            parts.append(S_unit(it.ty.val(it.t)))
        else:
            parts.append(S_unit(term(it, STR)))
    if not parts:
        return z3.Empty(CS)
    return parts[0] if len(parts) == 1 else z3.Concat(*parts)


def _param_new(ex, cls, args, kwargs):
    comps = args[0] if args else kwargs["components"]
    if is_sym(comps) and comps.ty.kind == "seq":
        return SV(comps.t, T_PARAM)
    items = list(comps) if isinstance(comps, (list, tuple)) else M.as_list(ex, comps)
    t = comps_term(ex, items)
    if t is None:
        return BadParam()
    return SV(z3.simplify(t), T_PARAM)


def _param_attr(ex, v, name):
    if is_sym(v) and v.ty.kind == "param":
        n = z3.Length(v.t)
        if name == "components":
            return SV(v.t, TSeq(STR, "tuple"))
        if name == "key":
            if not ex.branch(n >= 1, "has-key"):
                ex.raise_(IndexError, "tuple index out of range", tag="param-key")
            return concretize(SV(z3.simplify(S_at(v.t, 0)), STR))
        if name == "value":
            return concretize(SV(z3.simplify(z3.If(n >= 2, OSTR.some(S_at(v.t, 1)), OSTR.lift(None))), OSTR))
        if name in ("serialize", "__str__"):
            return Bound(v, None, name)
    return NotImplemented


msd_text_raw = z3.Function("msd_text_without_escapes", CS, S)     # param.__str__(escapes=False)
raw_ok = z3.Function("msd_serializable_without_escapes", CS, z3.BoolSort())


def _param_method(ex, recv, name, args, kwargs):
    if not (is_sym(recv) and recv.ty.kind == "param") or name not in ("serialize", "__str__"):
        return NotImplemented
    esc = kwargs.get("escapes", True)
    e = ex.truthy(esc)
    ex.assumptions_used.add("T-MSD-2: MSDParameter.serialize/__str__(escapes=False) writes a different text, or raises ValueError for components with special substrings")
    if ex.branch(ex._z(e), "escapes"):
        text = SV(msd_text(recv.t), STR)
    else:
        if not ex.branch(raw_ok(recv.t), "raw-ok"):
            ex.raise_(ValueError, "can't be serialized without escapes", tag="unescapable")
        text = SV(msd_text_raw(recv.t), STR)
    if name == "__str__":
        return text
    return M.call_method(ex, args[0], "write", [text], {})


M.METHOD_HOOKS.append(_param_method)


_orig_sym_attr = M.sym_attr


def _sym_attr(ex, v, name):
    r = _param_attr(ex, v, name)
    if r is not NotImplemented:
        return r
    return _orig_sym_attr(ex, v, name)


M.sym_attr = _sym_attr


def _param_str(ex, v):
    if is_sym(v) and v.ty.kind == "param":
        ex.assumptions_used.add("T-MSD-2: str(MSDParameter(cs)) is a function of the component tuple")
        return SV(msd_text(v.t), STR)
    if isinstance(v, BadParam):
        ex.raise_(AttributeError, "'NoneType' object has no attribute 'replace'", tag="none-component")
    return NotImplemented


M.STR_HOOKS.append(_param_str)


def install():
    m = MSD()
    M.CLASS_NEW[m.MSDParameter] = _param_new
    M.REAL_CALL[m.parse_msd] = _parse_msd


# ---------------------------------------------------------------------------
# text files


def is_file(v):
    return isinstance(v, HObj) and v.cls in (io.StringIO, io.TextIOWrapper, _Writer)


class _Writer:
    """class tag for writers handed out by a (ghost) file system"""


def new_stringio(ex, content="", label="StringIO"):
    o = HObj(io.StringIO, {"content": content, "pos": 0, "out": SV(z3.Empty(FRAGS), T_FRAGS), "written": False}, label)
    if ex is not None and ex.writes is not None:
        o._born = ex.writes
    return o


def frags_of(ex, s):
    """the fragments a written string consists of"""
    t = term(s, STR)
    t = z3.simplify(t)
    parts = []
    stack = [t]
    flat = []
    while stack:
        x = stack.pop()
        if x.decl().kind() == z3.Z3_OP_SEQ_CONCAT:
            stack.extend(reversed(x.children()))
        else:
            flat.append(x)
    for x in flat:
        if z3.is_app(x) and x.decl().eq(frag_text):
            parts.append(("seq", x.arg(0)))      # writing the text of a fragment list is writing those fragments
        elif z3.is_app(x) and x.decl().eq(msd_text):
            parts.append(FragSort.Param(x.arg(0)))
        elif z3.is_string_value(x) and x.as_string() == "":
            continue
        else:
            if parts and not isinstance(parts[-1], tuple) and parts[-1].decl().eq(FragSort.Text) and z3.is_string_value(parts[-1].arg(0)) and z3.is_string_value(x):
                parts[-1] = FragSort.Text(z3.StringVal(parts[-1].arg(0).as_string() + x.as_string()))
            else:
                parts.append(FragSort.Text(x))
    return [p[1] if isinstance(p, tuple) else z3.Unit(p) for p in parts]


universal_newlines = z3.Function("universal_newlines", z3.StringSort(), z3.StringSort())


def _stringio_new(ex, cls, args, kwargs):
    init = args[0] if args else kwargs.get("initial_value", "")
    extra = set(kwargs) - {"initial_value", "newline"}
    if extra or len(args) > 2:
        raise Unsupported(f"io.StringIO with arguments {sorted(extra)}")
    nl = args[1] if len(args) > 1 else kwargs.get("newline", "\n")
    init = init if init is not None else ""
    if nl is None and isinstance(init, str) and init == "":
        o = new_stringio(ex, "")
        o.fields["nl_translate"] = True       # what is written reads back with CR LF / CR turned into LF
        ex.assumptions_used.add("T-STD: io.StringIO(newline=None) translates CR LF and CR to LF")
        return o
    if nl is None:
        # universal newlines: "\r\n" and "\r" in the initial value read back as "\n" (the text is unchanged when it has no "\r")
        t = term(init, STR)
        ex.assume(z3.Implies(z3.Not(z3.Contains(t, z3.StringVal("\r"))), universal_newlines(t) == t), "T-STD: universal newlines leave a text without CR unchanged")
        ex.assumptions_used.add("T-STD: io.StringIO(newline=None) translates CR LF and CR to LF")
        return new_stringio(ex, SV(universal_newlines(t), STR))
    if nl not in ("\n", ""):
        raise Unsupported(f"io.StringIO(newline={nl!r})")
    return new_stringio(ex, init)


M.CLASS_NEW[io.StringIO] = _stringio_new


def _file_method(ex, recv, name, args, kwargs):
    if not is_file(recv):
        return NotImplemented
    if name == "write":
        for h in WRITE_HOOKS:
            r = h(ex, recv, args[0])
            if r is not NotImplemented:
                return r
        s = args[0]
        if not (isinstance(s, str) or (is_sym(s) and s.ty.kind == "str")):
            ex.raise_(TypeError, "string argument expected", tag="write-nonstr")
        fs = frags_of(ex, s)
        out = recv.fields["out"]
        if fs:
            ex.setfield(recv, "out", SV(z3.Concat(out.t, *fs) if True else out.t, T_FRAGS))
        return SV(z3.Length(term(s, STR)), INT)
    if name == "getvalue":
        if recv.fields.get("content") not in ("", None):
            raise Unsupported("getvalue of a StringIO with initial content")
        if recv.fields.get("nl_translate"):
            t = frag_text(recv.fields["out"].t)
            ex.assume(z3.Implies(z3.Not(z3.Contains(t, z3.StringVal("\r"))), universal_newlines(t) == t), "T-STD: universal newlines leave a text without CR unchanged")
            return SV(universal_newlines(t), STR)
        return SV(frag_text(recv.fields["out"].t), STR)
    if name == "seek":
        ex.setfield(recv, "pos", args[0])
        return args[0]
    if name == "tell":
        return recv.fields["pos"]
    if name == "read":
        c, p = recv.fields["content"], recv.fields["pos"]
        ct = term(c, STR)
        ex.setfield(recv, "pos", SV(z3.Length(ct), INT))
        return SV(z3.SubString(ct, term(p, INT), z3.Length(ct)), STR)
    if name in ("close", "flush"):
        return None
    if name == "__enter__":
        return recv
    raise Unsupported(f"file method {name}")


WRITE_HOOKS = []
M.METHOD_HOOKS.append(_file_method)


def _file_attr(ex, obj, name):
    if is_file(obj) and name in ("write", "getvalue", "seek", "tell", "read", "close", "flush"):
        return Bound(obj, None, name)
    return NotImplemented


M.ATTR_HOOKS.append(_file_attr)


def _file_iter(ex, v):
    if is_file(v):
        raise Unsupported("iteration over a text file (lines)")
    return NotImplemented


M.ITER_HOOKS.append(_file_iter)


def remaining_text(f):
    ct = term(f.fields["content"], STR)
    p = term(f.fields["pos"], INT)
    ps = z3.simplify(p)
    if z3.is_int_value(ps) and ps.as_long() == 0:
        return ct
    return z3.SubString(ct, p, z3.Length(ct))


# ---------------------------------------------------------------------------
# parse_msd


class ParamIter:
    """the lazy generator returned by parse_msd"""

    def __init__(self, text, ignore, file=None):
        self.text = text              # String term
        self.ignore = ignore          # Bool term
        self.file = file              # file object being consumed, or None
        self.taken = 0                # parameters consumed through next()

    def params(self):
        return msd_params(self.text, self.ignore)


def _parse_msd(ex, args, kwargs):
    if args:
        ex.raise_(TypeError, "parse_msd takes keyword arguments only")
    f, s, ign = kwargs.get("file"), kwargs.get("string"), kwargs.get("ignore_stray_text", False)
    if kwargs.get("tokens") is not None or kwargs.get("escapes", True) is not True:
        raise Unsupported("parse_msd(tokens=/escapes=)")
    given = [x for x in (f, s) if x is not None]
    if len(given) != 1:
        ex.raise_(TypeError, "Must provide exactly one of `file`, `string`, or `tokens`", tag="parse-msd-args")
    ig = ex._z(ex.truthy(ign))
    ex.assumptions_used.add("T-MSD-3: parse_msd is the lazy sequence msd_params(text, ignore_stray_text); file= equals string= on the remaining content")
    if s is not None:
        return ParamIter(term(s, STR), ig)
    if not is_file(f):
        raise Unsupported(f"parse_msd(file={f!r})")
    return ParamIter(remaining_text(f), ig, f)


def _decide_decodable(ex, f):
    """first contact with the file's content: fixes on this path whether its bytes decode (None: not a file of the ghost file system)"""
    u = f.fields.get("undecodable")
    if u is None:
        return None
    if not f.fields.get("decode_checked"):
        f.fields["decode_checked"] = True
        f.fields["is_undecodable"] = bool(ex.branch(u, "undecodable"))
    return f.fields.get("is_undecodable")


def check_decodable(ex, f):
    """T-FS: reading a text file to its end raises UnicodeDecodeError iff its bytes do not decode in its encoding"""
    if _decide_decodable(ex, f):
        ex.raise_(UnicodeDecodeError, "codec can't decode byte", tag="undecodable")


def _garbage_params(ex, f):
    """T-FS / T-MSD: a parser that is handed an undecodable file *itself* reads it in chunks - it may yield any parameters
    (whatever the bytes before the offending one decode to) before the UnicodeDecodeError surfaces"""
    ex.assumptions_used.add("T-FS: a streamed undecodable file yields an arbitrary run of parameters before UnicodeDecodeError")
    gp = fresh_term(PARAMS, "params_before_the_undecodable_byte")

    def at(ex_, i):
        return SV(P_at(gp, i), T_PARAM)

    it = SymIter(z3.Length(gp), at, "parse_msd(undecodable file)", lambda ex_, i: [z3.Length(P_at(gp, i)) >= 1])
    it.on_exhaust = lambda ex_: ex_.raise_(UnicodeDecodeError, "codec can't decode byte", tag="undecodable")
    return it


def _consume(ex, it: ParamIter, all_=False):
    """effect of reading from the underlying file"""
    f = it.file
    if f is None:
        return
    check_decodable(ex, f)
    ct = term(f.fields["content"], STR)
    if all_:
        ex.setfield(f, "pos", SV(z3.Length(ct), INT))
    else:
        p = fresh_term(z3.IntSort(), "pos_after_peek")
        old = term(f.fields["pos"], INT)
        ex.assume(z3.And(p >= old, p <= z3.Length(ct), z3.Implies(z3.Length(ct) > old, p > old)),
                  "T-MSD-3: the parser reads at least one chunk before it yields")
        ex.setfield(f, "pos", SV(p, INT))


def _param_iterable(ex, v):
    if isinstance(v, ParamIter):
        if v.file is not None and _decide_decodable(ex, v.file):
            return _garbage_params(ex, v.file)
        ps = v.params()
        n = z3.Length(ps)
        start = v.taken

        def at(ex_, i):
            return SV(P_at(ps, i + start), T_PARAM)

        def facts(ex_, i):
            return [z3.Length(P_at(ps, i + start)) >= 1]

        it = SymIter(n - start, at, "parse_msd", facts)

        def on_exhaust(ex_):
            _consume(ex_, v, all_=True)
            ex_.assume(z3.Implies(v.ignore, z3.Not(msd_error(v.text, v.ignore))), "T-MSD-3: ignore_stray_text=True never raises MSDParserError")
            if ex_.branch(msd_error(v.text, v.ignore), "stray-text"):
                ex_.raise_(MSD().MSDParserError, "stray text encountered", tag="stray-text")

        it.on_exhaust = on_exhaust
        it.on_iterate = lambda ex_: _consume(ex_, v)
        return it
    return NotImplemented


M.ITER_HOOKS.append(_param_iterable)


def _next(ex, it, rest):
    if isinstance(it, ParamIter):
        if it.file is not None:
            # peeking at the first parameter of an undecodable file is modelled as failing at once; the alternative (a
            # parameter from the decodable first chunk) ends in the same UnicodeDecodeError at the full read that follows
            check_decodable(ex, it.file)
        ps = it.params()
        ex.assume(z3.Implies(it.ignore, z3.Not(msd_error(it.text, it.ignore))), "T-MSD-3: ignore_stray_text=True never raises MSDParserError")
        if ex.branch(z3.Length(ps) > it.taken, "has-param"):
            ex.assume(z3.Length(P_at(ps, it.taken)) >= 1)
            r = SV(P_at(ps, it.taken), T_PARAM)
            it.taken += 1
            _consume(ex, it)
            return r
        _consume(ex, it, all_=True)
        if ex.branch(msd_error(it.text, it.ignore), "stray-text"):
            ex.raise_(MSD().MSDParserError, "stray text encountered", tag="stray-text")
        if rest:
            return rest[0]
        ex.raise_(StopIteration, tag="stop-iteration")
    return NotImplemented


M.NEXT_HOOKS.append(_next)


def _iterobj(ex, v):
    if isinstance(v, ParamIter):
        return v
    return NotImplemented


M.ITEROBJ_HOOKS.append(_iterobj)


# ---------------------------------------------------------------------------
# "".join(file) / "".join(iterator of lines) / itertools.tee


class LinesIter:
    """an iterator of text lines whose concatenation is `text`; consuming it exhausts the source"""

    def __init__(self, text, source=None):
        self.text = text          # String term: concatenation of the remaining lines
        self.source = source      # file object it reads from (position moves to the end), or None


def _join_hook(ex, sep, xs):
    if isinstance(xs, LinesIter) or is_file(xs):
        if not (isinstance(sep, str) and sep == ""):
            raise Unsupported("join of lines with a non-empty separator")
        ex.assumptions_used.add("T-STD: ''.join(lines of a text) is the text (from the current position)")
        if isinstance(xs, LinesIter):
            if xs.source is not None:
                check_decodable(ex, xs.source)
                t = remaining_text(xs.source)
                ex.setfield(xs.source, "pos", SV(z3.Length(term(xs.source.fields["content"], STR)), INT))
                return SV(z3.simplify(t), STR)
            return SV(xs.text, STR)
        check_decodable(ex, xs)
        t = remaining_text(xs)
        ex.setfield(xs, "pos", SV(z3.Length(term(xs.fields["content"], STR)), INT))
        return SV(z3.simplify(t), STR)
    return NotImplemented


M.JOIN_HOOKS.append(_join_hook)


def _tee(ex, args, kwargs):
    src = args[0]
    n = args[1] if len(args) > 1 else kwargs.get("n", 2)
    ex.assumptions_used.add("T-STD: itertools.tee yields independent iterators over the same remaining items")
    if is_file(src):
        check_decodable(ex, src)
        t = z3.simplify(remaining_text(src))
        ex.setfield(src, "pos", SV(z3.Length(term(src.fields["content"], STR)), INT))
        return tuple(LinesIter(t) for _ in range(n))
    if isinstance(src, LinesIter):
        return tuple(LinesIter(src.text) for _ in range(n))
    raise Unsupported(f"tee of {src!r}")


def _lines_iterable(ex, v):
    if isinstance(v, tuple) and v and all(isinstance(x, LinesIter) for x in v):
        return list(v)
    return NotImplemented


def install_tee():
    import itertools
    M.REAL_CALL[itertools.tee] = _tee


install_tee()
